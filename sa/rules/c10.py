"""C10 — view layout honours constraints, never panics, draws where it says (structural clauses)."""
import re
from ..mir import call_matches, callee_name, op_local
from ..flow import expr, resolve_place
from .. import oblrules
from .c07 import inlined_private, expanded_copies, PathEval, implied, split_call, sub_terms, callee_names
from .. import obligations as _obl0

CLAIM = {
    "text": "Structural and numeric clauses of C10 decided on MIR: the size reported by every view named in the statement flows from "
            "clamp(ct)/ct.max()/per-axis clamp on every path (or from a child laid out under the unchanged constraint); every BoxConstraint "
            "handed to a child keeps min <= max; every View::render touches its surface only through Layout::apply_to or forwards it with its "
            "layout; all panic/overflow/division/bounds/unwrap/precondition obligations reachable from the layout and render entry points are "
            "discharged by abstract interpretation, by named lemmas whose side conditions are re-checked (VALID-CT, FLEX-CHILD-COUNT, FLEX-SHARE, "
            "DIV-GUARD, POISON), by two trusted data-structure invariants (TREE-IDS, SHAPE-INV) and by the stated SIZE-BOUND assumption for "
            "additions/multiplications of sizes. CHILD-PAIRING: every renderer that takes child layouts from layout.children() (flex_render, Container, Frame, Tag) "
            "renders child number i with layout number i - one zip of two in-order loss-free sequences, the first child layout of a single child, or two "
            "cursors advanced once per iteration; an element-dropping or reordering adaptor on one side only is reported. That a leaf fills its whole "
            "rectangle, and foreign View impls, are not decided.",
    "technique": "abstract interpretation over MIR + taint-style clamp contract (reaching definitions) + who-uses rule on the surface argument + template lemmas + provenance terms of the (child, layout) pairing",
    "design_ref": "DESIGN.md §5 C10",
}

# views named by the property statement whose reported size must lie within the constraint
CLAMPED_VIEWS = {
    "view::text::<impl view::View for str>::layout": "str",
    "<view::text::Text as view::View>::layout": "Text",
    "view::flex::flex_layout": "Flex / FlexRef (shared routine)",
    "<view::container::Container<V> as view::View>::layout": "Container",
    "<image::Image as view::View>::layout": "Image",
    "<image::ImageAsciiView as view::View>::layout": "ImageAsciiView",
    "<glyph::Glyph as view::View>::layout": "Glyph",
    "<rasterize::RGBA as view::View>::layout": "RGBA fill",
    "<() as view::View>::layout": "() fill",
    "<surface::SurfaceView<'_, render::Cell> as view::View>::layout": "SurfaceView<Cell>",
}
# views that forward the constraint to a child and report the child's size
FORWARDERS = {
    "<view::Tag<T, V> as view::View>::layout": "Tag",
}
CT = {"view::flex::flex_layout": "arg5"}     # which argument is the BoxConstraint (default arg3)


def chase_local(body, operand):
    """follow single-definition `use` chains to the local that holds the value"""
    l = op_local(operand)
    seen = set()
    while l is not None and l not in seen:
        seen.add(l)
        ds = body.defs_of(l)
        if len(ds) == 1 and ds[0][1] != "term" and ds[0][2]["k"] == "use" and op_local(ds[0][2]["a"]) is not None:
            l = op_local(ds[0][2]["a"])
        else:
            break
    return l


def leaf_exprs(body, operand, depth=0, seen=None):
    """expressions of all reaching definitions of an operand (multi-definition locals are expanded)"""
    seen = seen or set()
    if operand["k"] == "const":
        return [expr(body, operand)]
    p = operand["place"]
    l = p["l"]
    if p["p"] or l in seen or depth > 16 or 0 < l <= body.arg_count:
        return [expr(body, operand)]
    ds = body.defs_of(l)
    if len(ds) == 1 and ds[0][1] != "term" and ds[0][2]["k"] == "use" and ds[0][2]["a"]["k"] != "const" and not ds[0][2]["a"]["place"]["p"]:
        # a plain copy (hoisted local, argument / result of an expanded helper): the leaves are those of the source
        return leaf_exprs(body, ds[0][2]["a"], depth + 1, seen | {l})
    if len(ds) <= 1:
        return [expr(body, operand)]
    out = []
    for bb, si, rv in ds:
        if si == "term":
            out.append(expr(body, {"k": "copy", "place": {"l": l, "p": []}}) if False else "%s(..)" % (callee_name(rv) or "?").split("::")[-1] if False else _call_expr(body, rv))
        elif rv["k"] == "use":
            out += leaf_exprs(body, rv["a"], depth + 1, seen | {l})
        else:
            out.append(rv["k"])
    return out


def _call_expr(body, t):
    from ..flow import _short_path
    full = t["fn"].get("resolved") or t["fn"].get("path") or "?"
    return "%s(%s)" % (_short_path(full), ", ".join(expr(body, a) for a in t["args"]))


def sanitized(e, ct, comp=None):
    """a whole Size term that lies within constraint `ct`"""
    return size_within(e, ct)


_MM = r"(?:Ord|usize|cmp|num|impls)"


def size_within(e, ct):
    """Size-valued term within [ct.min, ct.max] (given ct.min <= ct.max): ct.clamp(x), ct.max(), ct.min(), x.clamp(ct.min, ct.max)"""
    c = re.escape(ct)
    tc = split_call(e)
    if tc is None:
        return e in ("%s.min" % ct, "%s.max" % ct)
    nm, args = tc
    if nm == "BoxConstraint::clamp" and len(args) == 2 and args[0] == ct:
        return True
    if nm in ("BoxConstraint::max", "BoxConstraint::min") and args == [ct]:
        return True
    if nm == "Size::clamp" and len(args) == 3:
        return bool(re.match(r"^(BoxConstraint::min\(%s\)|%s\.min)$" % (c, c), args[1]) and re.match(r"^(BoxConstraint::max\(%s\)|%s\.max)$" % (c, c), args[2]))
    return False


def bounded(e, ct, axis, side, depth=0):
    """integer term e >= ct.min.<axis> (side 'lo') / e <= ct.max.<axis> (side 'hi'), given ct.min <= ct.max: the constraint's own bounds, a
    component of a Size within the constraint, clamp(x, lo, hi), and min / max combinations in any nesting or operand order"""
    if depth > 8:
        return False
    own = ("BoxConstraint::min(%s).%s" % (ct, axis), "%s.min.%s" % (ct, axis), "BoxConstraint::max(%s).%s" % (ct, axis), "%s.max.%s" % (ct, axis))
    if e in own:
        return True
    m = re.match(r"^(.*)\.(height|width)$", e)
    if m and m.group(2) == axis and size_within(m.group(1), ct):
        return True
    tc = split_call(e)
    if tc is None:
        return False
    nm, args = tc
    if re.match(r"^%s::clamp$" % _MM, nm) and len(args) == 3:
        return bounded(args[1], ct, axis, "lo", depth + 1) if side == "lo" else bounded(args[2], ct, axis, "hi", depth + 1)
    if re.match(r"^%s::min$" % _MM, nm) and len(args) == 2:
        r = [bounded(a, ct, axis, side, depth + 1) for a in args]
        return all(r) if side == "lo" else any(r)
    if re.match(r"^%s::max$" % _MM, nm) and len(args) == 2:
        r = [bounded(a, ct, axis, side, depth + 1) for a in args]
        return any(r) if side == "lo" else all(r)
    return False


def size_new_call(body, t):
    """is the call terminator Size::new(height, width), with Size::new being the plain constructor?"""
    if not call_matches(t, r"^terminal::Size::new$") or len(t["args"]) != 2:
        return False
    nb = body.prog.body("terminal::Size::new")
    return nb is not None and expr(nb, {"k": "copy", "place": {"l": 0, "p": []}}) == "Size{height: arg1, width: arg2}"


def size_leaves(body, operand, depth=0, seen=frozenset()):
    """reaching definitions of a Size-valued operand: ("term", canonical term) or ("agg", local, aggregate rvalue) per definition"""
    if operand["k"] == "const":
        return [("term", expr(body, operand))]
    p = operand["place"]
    l = p["l"]
    if p["p"] or l in seen or depth > 16 or 0 < l <= body.arg_count:
        return [("term", expr(body, operand))]
    ds = body.defs_of(l)
    if not ds:
        return [("term", expr(body, operand))]
    out = []
    for bb, si, rv in ds:
        if si != "term" and rv["k"] == "use" and rv["a"]["k"] != "const" and not rv["a"]["place"]["p"]:
            out += size_leaves(body, rv["a"], depth + 1, seen | {l})
        elif si != "term" and rv["k"] == "agg" and rv.get("adt") == "terminal::Size":
            out.append(("agg", l, rv))
        elif si == "term" and size_new_call(body, rv):
            out.append(("agg", l, {"fnames": ["height", "width"], "fields": rv["args"]}))       # Size::new(height, width) == Size { height, width }
        elif len(ds) == 1:
            out.append(("term", expr(body, operand)))
        elif si == "term":
            out.append(("term", _call_expr(body, rv)))
        elif rv["k"] == "use":
            out.append(("term", expr(body, rv["a"])))
        else:
            out.append(("term", rv["k"]))
    return out


def run(ctx):
    prog = ctx.prog
    ctx.explanation = (
        "Decides structural clauses of C10 from MIR: (b) CLAMP-CONTRACT — for every view named by the statement (text, flex, container, image, glyph, "
        "fill and surface views) the size passed to Layout::with_size on every path is BoxConstraint::clamp(ct, ..), ct.max(), a per-component "
        "clamp(ct.min.x, ct.max.x) of the same axis, or (forwarders) the size of a child laid out under the unchanged constraint; (c) CONTAINMENT — "
        "every View::render uses its surface argument only through Layout::apply_to(layout, surf) or forwards it unchanged to one child render / "
        "flex_render; flex_render and Frame draw children only on surfaces obtained from apply_to; (a) TOTAL — panic/overflow/bounds/unwrap/"
        "library-precondition obligations over every body reachable from all View::layout/render impls, Layout::apply_to, FindPath::next and "
        "draw_view are discharged by abstract interpretation, by the stated SIZE-BOUND assumption (additions and multiplications of sizes), by "
        "the trusted TREE-IDS invariant of the layout store and by the POISON lemma (lock poisoning needs an earlier panic); what remains is "
        "reported. (e) CHILD-PAIRING — every child renderer call whose layout comes from layout.children() (flex_render, Container, Frame, Tag; loop bodies, iterator chains "
        "and for_each/try_for_each closures alike) pairs child i with layout i: the child sequence and children() of the renderer's own layout are zipped with only "
        "index-preserving adaptors (iter/into_iter/map/enumerate/inspect/by_ref/peekable/fuse/copied/cloned) on either side - filter, skip, rev, step_by, take_while, "
        "flatten .. applied to one side before the pairing shift every later child into a sibling's rectangle - or the single child gets next()/nth(0) of an "
        "untouched children() cursor, or a children() cursor created outside the loop is advanced exactly once on every way round the loop over the children; "
        "skipping a whole pair (continue, filter after the zip) is accepted. The layout side (one node pushed per child, in child order) is FLEX-SHAPE. "
        "(d) HIT-TEST — FindPath::next descends into a child exactly when the position lies in the half-open rectangle [pos, pos+size) that Layout::apply_to hands to the child's renderer, rebases the position by the child's origin and advances through all siblings otherwise. NOT decided: that a leaf's renderer fills its whole rectangle, termination of foreign View impls.")
    ctx.assume("valid constraint: ct.min <= ct.max component-wise; SIZE-BOUND: every size, position and constraint component is below 2^31 so sums and products of a few of them fit in usize")
    ctx.assume("a child's reported size lies within the constraint it was given (proven for the library's own views by CLAMP-CONTRACT; foreign View impls are outside the property)")

    # ---------------- (b) clamp contract --------------------------------------------------------------------
    ctx.rule("CLAMP-CONTRACT", "size reported by the named views flows from clamp(ct)/ct.max()/per-axis clamp on every path", floor=10)
    for path, nm in sorted(list(CLAMPED_VIEWS.items()) + list(FORWARDERS.items())):
        if prog.body(path) is None:
            ctx.anchor("CLAMP-CONTRACT", path)
            continue
        # private helpers extracted from the layout routine (one axis of the size, the whole size ..) are looked through
        b = inlined_private(prog, path)
        ct = CT.get(path, "arg3")
        ws = [(bb, t) for bb, t in b.calls() if call_matches(t, r"^view::layout::Layout::with_size$")]
        delegs = [(bb, t) for bb, t in b.calls() if call_matches(t, r"^view::flex::flex_layout$|view::View for str>::layout$")]
        if not ws and not delegs:
            ctx.anchor("CLAMP-CONTRACT", path + "/with_size")
            continue
        for bb, t in ws:
            arg = t["args"][1]
            # every reaching definition of the reported size (if/else, match, early return, a helper's result): a Size within the
            # constraint as a whole, or a Size literal each component of which is bounded by the constraint's bounds of the same axis
            leaves = size_leaves(b, arg)
            ok = bool(leaves)
            detail = []
            for leaf in leaves:
                if leaf[0] == "term":
                    e = leaf[1]
                    good = size_within(e, ct)
                    if not good and path in FORWARDERS:
                        m = re.match(r"^Layout::size\((.*)\)$", e)
                        if m:
                            # the child layout handle must be the one passed to child.layout(ctx, ct, handle) with ct unchanged
                            kids = [t2 for bb2, t2 in b.calls() if call_matches(t2, r"view::View::layout$|as view::View>::layout$") and expr(b, t2["args"][2]) == ct]
                            good = bool(kids)
                    detail.append(e[:160])
                    ok = ok and good
                    continue
                _, l, agg = leaf
                for fn_, f in zip(agg["fnames"], agg["fields"]):
                    comp = leaf_exprs(b, f)
                    for i2, si2, s2 in b.assigns():
                        pl = s2["place"]
                        if pl["l"] == l and len(pl["p"]) == 1 and pl["p"][0]["k"] == "field" and pl["p"][0]["name"] == fn_ and s2["rv"]["k"] == "use":
                            comp += leaf_exprs(b, s2["rv"]["a"])
                    good = bool(comp) and all(bounded(x, ct, fn_, "lo") and bounded(x, ct, fn_, "hi") for x in comp)
                    detail.append((fn_, [x[:90] for x in comp], good))
                    ok = ok and good
            if len(detail) == 1:
                detail = detail[0]
            ctx.instance("CLAMP-CONTRACT", {"view": nm, "size": detail, "ok": ok})
            if not ok:
                ctx.violation("CLAMP-CONTRACT", path, "unclamped-size", "%s reports a size that is not clamped to its constraint on some path: %s" % (nm, str(detail)[:300]), sites=["%s:%d" % (b.file, t["line"])])
    for path in ("<view::flex::Flex<'a> as view::View>::layout", "<view::flex::FlexRef<A> as view::View>::layout", "view::text::<impl view::View for std::string::String>::layout"):
        b = prog.body(path)
        if b is None:
            ctx.anchor("CLAMP-CONTRACT", path)
            continue
        d = [(bb, t) for bb, t in b.calls() if call_matches(t, r"^view::flex::flex_layout$|view::View for str>::layout$")]
        ok = len(d) == 1 and any(expr(b, a) == "arg3" for a in d[0][1]["args"]) and b.cfg().must_pass([d[0][0]])[0]
        ctx.instance("CLAMP-CONTRACT", {"view": path, "delegates_with_unchanged_constraint": ok})
        if not ok:
            ctx.violation("CLAMP-CONTRACT", path, "delegation", "%s does not delegate to the shared clamped layout routine with its own constraint" % path, sites=[b.loc])

    # ---------------- (c) containment ---------------------------------------------------------------------------
    ctx.rule("CONTAINMENT", "View::render uses its surface only via Layout::apply_to(layout, surf) or forwards it unchanged to one child renderer", floor=24)
    renders = [b for b in prog.bodies if b.impl_trait == "view::View" and b.name == "render"]
    for b0 in renders:
        # a private helper the renderer hands its surface to is part of the renderer
        b = inlined_private(prog, b0.path) or b0
        uses = []
        for bb, t in b.calls():
            for i, a in enumerate(t["args"]):
                e = expr(b, a)
                if e == "arg3" or e.startswith("arg3."):
                    uses.append((callee_name(t), i, t))
        bad = []
        for cn, i, t in uses:
            if re.search(r"view::layout::Layout::apply_to$|ViewLayout::<'a>::apply_to$", cn) and i == 1:
                # the layout handed to apply_to must be this view's own layout argument
                if expr(b, t["args"][0]) not in ("arg4", "ViewLayout::layout(arg4)", "Deref::deref(arg4)") and "arg4" not in expr(b, t["args"][0]):
                    bad.append((cn, "apply_to with a foreign layout"))
                continue
            if re.search(r"view::View::render$|as view::View>::render$|view::View for str>::render$|^view::flex::flex_render$", cn):
                # forwarding: the layout must be forwarded too
                if not any("arg4" in expr(b, a) for a in t["args"]):
                    bad.append((cn, "surface forwarded without this view's layout"))
                continue
            bad.append((cn, "direct use of the surface argument"))
        ctx.instance("CONTAINMENT", {"view": b.impl_self, "surface_uses": [(u[0].split("::")[-1], u[1]) for u in uses], "ok": not bad})
        for cn, why in bad:
            ctx.violation("CONTAINMENT", b.path, cn.split("::")[-1], "%s::render: %s (%s): cells outside the rectangle recorded in the layout tree could be painted" % (b.impl_self, why, cn), sites=[b.loc])
    # flex_render: children are drawn on the surface returned by apply_to
    fr = prog.body("view::flex::flex_render")
    if fr is None:
        ctx.anchor("CONTAINMENT", "flex_render")
    else:
        # the loop body may be a closure (for_each / try_for_each over the pairs): captured places are read in the enclosing body's terms
        surfs = []
        for cb in [fr] + [x for x in prog.bodies if x.kind == "Closure" and x.closure_root == fr.path]:
            for bb, t in cb.calls():
                if call_matches(t, r"view::View::render$|as view::View>::render$") and len(t["args"]) == 4:
                    surfs.append(_in_parent_terms(prog, cb, expr(cb, t["args"][2])))
        ok = bool(surfs) and all(re.search(r"apply_to\(", e) for e in surfs)
        ctx.instance("CONTAINMENT", {"fn": "flex_render", "child_surfaces": [e[:80] for e in surfs], "ok": ok})
        if not ok:
            ctx.violation("CONTAINMENT", fr.path, "child-surface", "flex_render draws a child on a surface that does not come from layout.apply_to(surf)", sites=[fr.loc])

    # ---------------- (a) obligations ------------------------------------------------------------------------------
    entries = [b.path for b in prog.bodies if b.impl_trait == "view::View" and b.name in ("layout", "render")]
    for p in ("view::layout::Layout::apply_to", "<view::layout::FindPath<'a> as std::iter::Iterator>::next", "view::flex::flex_layout", "view::flex::flex_render"):
        if prog.body(p) is not None:
            entries.append(p)
    entries += [b.path for b in prog.bodies if b.name == "draw_view" and b.file.endswith("render.rs")]
    lemmas = {}
    trusts = {}
    for b in prog.bodies:
        if b.file.endswith("view/layout.rs") and re.match(r"^<?view::layout::(Tree|TreeMut|TreeIter|FindPath|TreeView|TreeMutView|TreeStore)", b.path):
            for kind in ("BOUNDS", "BOUNDSCALL"):
                trusts[(b.path, kind)] = ("TREE-IDS", "ids stored in the layout tree are indices of nodes pushed into the same store (TreeMut::push is the only producer)")
    for p in ("<render::TerminalWriter<'_> as render::CellWrite>::put_cell", "<surface::SurfaceView<'_, render::Cell> as view::View>::render::{closure#0}"):
        trusts[(p, "BOUNDS")] = ("SHAPE-INV", "offsets of in-window positions of an audited Shape are inside the backing data (C07 U3/U5, C09 CONTAIN check the position ranges)")
    for b in prog.bodies:
        if re.search(r"LockExt>::(with|with_mut)$", b.path) or b.path in ("view::offscreen::Offscreen::surf", "view::offscreen::Offscreen::draw_view", "view::frame::Frame::<V>::fragments"):
            lemmas[(b.path, "UNWRAP")] = ("POISON", "expect(\"lock poisoned\") fails only after another thread panicked while holding the lock: not a first panic")

    # VALID-CT: every BoxConstraint handed to a child is valid (min <= max per component) given the view's own constraint is valid
    ctx.rule("VALID-CT", "every BoxConstraint construction keeps min <= max per component (templates), so clamp(_, ct.min.x, ct.max.x) never panics", floor=6)
    valid_ok = True

    def comp_exprs(b, operand):
        """{'height': [leaf exprs], 'width': [...]} of a Size operand"""
        e = expr(b, operand)
        if e == "Size::empty()":
            return {"height": ["0"], "width": ["0"]}
        l = chase_local(b, operand)
        for d in b.defs_of(l) if l is not None else []:
            if d[1] != "term" and d[2]["k"] == "agg" and d[2].get("adt") == "terminal::Size":
                return {fn_: leaf_exprs(b, f) for fn_, f in zip(d[2]["fnames"], d[2]["fields"])}
            if d[1] == "term" and size_new_call(b, d[2]):
                return {"height": leaf_exprs(b, d[2]["args"][0]), "width": leaf_exprs(b, d[2]["args"][1])}
        return {"height": [e + ".height"], "width": [e + ".width"]}

    def pair_ok(lo_list, hi_list, ctnames):
        if len(hi_list) != 1:
            return False
        hi = hi_list[0]
        for lo in lo_list:
            if lo == "0" or lo == hi:
                continue
            m1 = re.match(r"^(?:BoxConstraint::min\((\w+)\)|(\w+)\.min)\.(height|width)$", lo)
            m2 = re.match(r"^(?:BoxConstraint::max\((\w+)\)|(\w+)\.max)\.(height|width)$", hi)
            if m1 and m2 and (m1.group(1) or m1.group(2)) == (m2.group(1) or m2.group(2)) and m1.group(3) == m2.group(3):
                continue
            ms1 = re.match(r"^num::saturating_sub\((.*), (\w+)\)$", lo)
            ms2 = re.match(r"^num::saturating_sub\((.*), (\w+)\)$", hi)
            if ms1 and ms2 and ms1.group(2) == ms2.group(2) and pair_ok([ms1.group(1)], [ms2.group(1)], ctnames):
                continue
            return False
        return True
    n_ct = 0
    for b0 in prog.bodies:
        # constructions are judged with private helpers expanded (a helper that builds the child's minimum size, the whole constraint ..):
        # in the caller's terms; a helper all of whose call sites are expanded is not judged a second time out of context
        b = b0
        if b0.file.startswith("src/"):
            b = inlined_private(prog, b0.path, keep=r"^view::Axis::constraint$") or b0       # Axis::constraint is judged by its own template below
            if b is b0 and b0.path != "view::Axis::constraint" and any(call_matches(t, r"^view::BoxConstraint::new$") for bb, t in b0.calls()) and expanded_copies(prog, b0.path):
                continue
        for bb, t in b.calls():
            if call_matches(t, r"^view::BoxConstraint::new$"):
                n_ct += 1
                lo, hi = comp_exprs(b, t["args"][0]), comp_exprs(b, t["args"][1])
                ok = all(pair_ok(lo[c], hi[c], None) for c in ("height", "width"))
                if b.path == "view::Axis::constraint":
                    # (min, max) parameters: every caller must pass min <= max
                    ok = True
                    for c in ("height", "width"):
                        if not pair_ok(lo[c], hi[c], None):
                            if not (lo[c] == ["arg3"] and hi[c] == ["arg4"]):
                                ok = False
                    for cb in prog.bodies:
                        for cbb, ct_ in cb.calls():
                            if call_matches(ct_, r"^view::Axis::constraint$"):
                                if expr(cb, ct_["args"][2]) != "0":
                                    ok = False
                ctx.instance("VALID-CT", {"fn": b.path, "min": lo, "max": hi, "ok": ok})
                if not ok:
                    valid_ok = False
                    ctx.violation("VALID-CT", b.path, "constraint-%d" % n_ct, "a BoxConstraint is built whose min is not provably <= max (min %s, max %s): a child's clamp() would panic" % (lo, hi), sites=["%s:%d" % (b.file, t["line"])])
        for i, si, s_ in b.assigns():
            rv = s_["rv"]
            if rv["k"] == "agg" and rv.get("adt") == "view::BoxConstraint":
                n_ct += 1
                f = {n: expr(b, x) for n, x in zip(rv["fnames"], rv["fields"])}
                ok = (b.path == "view::BoxConstraint::new" and f == {"min": "arg1", "max": "arg2"}) or f["min"] in (f["max"], "Size::empty()")
                ctx.instance("VALID-CT", {"literal_in": b.path, "fields": f, "ok": ok})
                if not ok:
                    valid_ok = False
                    ctx.violation("VALID-CT", b.path, "literal", "BoxConstraint literal with min %s / max %s" % (f["min"], f["max"]), sites=["%s:%d" % (b.file, s_["line"])])
    if n_ct == 0:
        ctx.anchor("VALID-CT", "BoxConstraint-constructions")
        valid_ok = False
    if valid_ok:
        # clamp(x, C.min.f, C.max.f) of one constraint C
        CLAMP_RX = r"impl std::cmp::Ord for usize>::clamp$"
        for b in prog.bodies:
            cl = sorted([(bb, t) for bb, t in b.calls() if call_matches(t, CLAMP_RX) and len(t["args"]) == 3], key=lambda x: (x[1]["line"], x[0]))
            if not cl:
                continue
            good = []
            for bb, t in cl:
                lo, hi = expr(b, t["args"][1]), expr(b, t["args"][2])
                good.append(pair_ok([lo], [hi], None) and lo != hi and lo != "0")
            if not all(good):
                # a private helper that clamps with bounds it was handed (`resolve_extent(requested, min, max)`): the bounds are judged at
                # every expanded copy of the helper in its callers
                ibs = expanded_copies(prog, b.path)
                if ibs:
                    by_bb = sorted(range(len(cl)), key=lambda i: cl[i][0])
                    seen_copy = [False] * len(cl)
                    ctxok = [True] * len(cl)
                    for ib in ibs:
                        copies = sorted((bb, t) for bb, t in ib.calls() if ib.blocks[bb].get("inl_from") == b.path and call_matches(t, CLAMP_RX) and len(t["args"]) == 3)
                        if len(copies) % len(cl):
                            ctxok = [False] * len(cl)
                            break
                        for j, (bb, t) in enumerate(copies):
                            o = by_bb[j % len(cl)]
                            seen_copy[o] = True
                            lo, hi = expr(ib, t["args"][1]), expr(ib, t["args"][2])
                            ctxok[o] = ctxok[o] and pair_ok([lo], [hi], None)
                    for i in range(len(cl)):
                        if not good[i] and seen_copy[i] and ctxok[i]:
                            good[i] = True
                            ctx.instance("VALID-CT", {"helper": b.path, "clamp": i + 1, "bounds_valid_in_every_expanded_call_site": True, "callers": [x.path for x in ibs]})
            for i, g in enumerate(good):
                if g:
                    lemmas[(b.path, "LIBPRE-clamp-%d" % (i + 1))] = ("VALID-CT", "lower/upper bound are min/max of one valid constraint")
        sc = prog.body("terminal::Size::clamp")
        if sc is not None:
            callers = []
            for cb in prog.bodies:
                for cbb, ct_ in cb.calls():
                    if call_matches(ct_, r"^terminal::Size::clamp$"):
                        callers.append((cb.path, expr(cb, ct_["args"][1]), expr(cb, ct_["args"][2])))
            okc = bool(callers) and all(re.match(r"^(\w+)\.min$", a) and re.match(r"^(\w+)\.max$", c) and a.split(".")[0] == c.split(".")[0] for p_, a, c in callers)
            ctx.instance("VALID-CT", {"Size::clamp_callers": callers, "ok": okc})
            if okc:
                lemmas[(sc.path, "LIBPRE")] = ("VALID-CT", "Size::clamp is only called with (ct.min, ct.max) of a valid BoxConstraint")

    # FLEX lemmas
    ctx.rule("FLEX-SHAPE", "flex_layout: one child layout pushed per child; later loops advance the sibling once per child; share computed before flex_total is reduced", floor=3)
    fl = prog.body("view::flex::flex_layout")
    if fl is None:
        ctx.anchor("FLEX-SHAPE", "flex_layout")
    else:
        cfg = fl.cfg()
        loops = cfg.loops()
        iters = [(bb, t) for bb, t in fl.calls() if call_matches(t, r"FlexArrayIter<'a, A> as std::iter::Iterator>::next$|view::flex::FlexArrayIter.*::next$|Iterator>::next$") and "FlexArray::iter(arg3)" in expr(fl, t["args"][0])]
        pushes = [bb for bb, t in fl.calls() if call_matches(t, r"TreeMut::push_default$")]
        sibs = [bb for bb, t in fl.calls() if call_matches(t, r"TreeMutView::<'a, T>::sibling$")]
        ok_count = len(iters) >= 2
        heads = []
        for bb, t in iters:
            h = None
            for hh, body_ in loops.items():
                if bb in body_ and (h is None or len(body_) < len(loops[h])):
                    h = hh
            heads.append(h)
        first = True
        from ..rules.c03 import some_edge
        for (bb, t), h in zip(iters, heads):
            se = some_edge(fl, bb, t)
            if se is None or h is None:
                ok_count = False
                continue
            sw, some_t, none_t = se
            body_ = loops[h]
            if first:
                okp = cfg.must_pass([p_ for p_ in pushes if p_ in body_], start=some_t, exits=[h] + cfg.returns)[0] and len([p_ for p_ in pushes if p_ in body_]) == 1
                ctx.instance("FLEX-SHAPE", {"loop": "allocate", "one_push_default_per_child": okp})
                ok_count = ok_count and okp
                first = False
            else:
                ss = [x for x in sibs if x in body_]
                errs = set()
                from ..flow import err_return_blocks
                errs = err_return_blocks(fl)
                okp = len(ss) == 1 and cfg.must_pass(ss, start=some_t, exits=[h], removed=set())[0]
                ctx.instance("FLEX-SHAPE", {"loop_head": h, "one_sibling_advance_per_child": okp})
                ok_count = ok_count and okp
        if ok_count:
            lemmas[(fl.path, "UNWRAP")] = ("FLEX-CHILD-COUNT", "one layout node is pushed per child and every later loop advances to the sibling exactly once per child")
        else:
            ctx.violation("FLEX-SHAPE", fl.path, "child-count", "flex_layout does not allocate exactly one layout node per child / advance once per child: child_layout_opt.expect(..) can fail", sites=[fl.loc])
        # share: child_major_max = round(major_remain * flex / flex_total) computed before `flex_total -= flex`; child constraint (0, child_major_max)
        cons = [(bb, t) for bb, t in fl.calls() if call_matches(t, r"^view::Axis::constraint$")]
        ok_share = False
        if len(cons) == 1:
            e = expr(fl, cons[0][1]["args"][3])
            # the locals are identified by their role, not their name: share = round(<remaining> as f64 * <flex> / <total>)
            msh = re.search(r"f64::round\(Div\(Mul\((.*)\), ((?:var:\w+|_\d+))\)\)", e)
            total = msh.group(2) if msh else None
            fac = split_call("Mul(%s)" % msh.group(1))[1] if msh and split_call("Mul(%s)" % msh.group(1)) else []
            rem = [x for x in fac if re.match(r"^cast:IntToFloat\((var:\w+|_\d+)\)$", x)]
            ok_share = msh is not None and len(fac) == 2 and len(rem) >= 1 and expr(fl, cons[0][1]["args"][2]) == "0"
            # the decrement of the total must come after the share (the Div statement dominates the Sub statement)
            divs = [i for i, si, s_ in fl.assigns() if s_["rv"]["k"] == "bin" and s_["rv"]["op"] == "Div" and total is not None and expr(fl, s_["rv"]["b"]) == total]
            subs = [i for i, si, s_ in fl.assigns() if s_["rv"]["k"] == "bin" and s_["rv"]["op"] == "Sub" and total is not None and expr(fl, s_["rv"]["a"]) == total]
            ok_share = ok_share and bool(divs) and bool(subs) and all(cfg.dominates(divs[0], x) for x in subs)
        ctx.instance("FLEX-SHAPE", {"share_template": ok_share})
        if ok_share:
            lemmas[(fl.path, "OVF-Sub-1")] = ("FLEX-SHARE", "child_major <= child_major_max = round(major_remain * flex / flex_total) <= major_remain because 0 < flex <= flex_total (flex > 0 filtered at every FlexChild construction, checked by C19 SIBLING-FILTER) and the child's size is within its constraint (CLAMP-CONTRACT)")
        else:
            ctx.violation("FLEX-SHAPE", fl.path, "share", "the flex share is not round(major_remain * flex / flex_total) computed before flex_total is reduced, or the child constraint is not (0, share)", sites=[fl.loc])

    # DIV-GUARD: the divisions size_cells performs (in its own body or in whatever private helper computes the rounded-up quotient:
    # the helper is found by expanding size_cells' private callees, not by its name)
    ctx.rule("DIV-GUARD", "Image::size_cells returns early when pixels_per_cell.is_empty(); Size::is_empty is height == 0 || width == 0", floor=2)
    szc = prog.body("image::Image::size_cells")
    ise = prog.body("terminal::Size::is_empty")
    okd = False
    div_lemmas = {}
    if szc is not None and ise is not None:
        isz = inlined_private(prog, szc.path) or szc
        _DIVCALL = r"^(?:core|std)::num::<impl (?:usize|u8|u16|u32|u64|u128)>::(div_ceil|div_euclid|rem_euclid)$"
        # division sites: (block, origin body path, divisor operand, obligation kind prefix)
        sites = []
        for i, si, s_ in isz.assigns():
            if isz.blocks[i]["cleanup"]:
                continue
            if s_["rv"]["k"] == "bin" and s_["rv"]["op"] in ("Div", "Rem") and s_["rv"]["b"]["k"] != "const" and not _float_op(isz, s_["rv"]["b"]):
                sites.append((i, isz.blocks[i].get("inl_from") or szc.path, s_["rv"]["b"], "DIV0"))
        for bb, t in isz.calls():
            m_ = None
            for n_ in callee_names(t):
                m_ = m_ or re.match(_DIVCALL, n_)
            if m_ and len(t["args"]) == 2 and not isz.blocks[bb]["cleanup"]:
                sites.append((bb, isz.blocks[bb].get("inl_from") or szc.path, t["args"][1], "OVF-int-" + m_.group(1)))
        pe = PathEval(isz)
        res = pe.at({bb for bb, o_, d_, k_ in sites}) if sites else {}
        # every way to a division by d knows d != 0 itself, or `!S.is_empty()` for the Size S that d is a component of
        # (early return, if/else, match, negated test ..)
        by_pred_used = False
        ok1 = bool(sites) and res is not None
        for bb, o_, d_, k_ in sites if ok1 else []:
            ps = res.get(bb) or []
            for facts, env in ps:
                d = pe.term(env, d_)
                direct = any((rel == "!=" and {x, y} == {"0", d}) or (rel == "<" and x == "0" and y == d) or (rel == "<=" and x == "1" and y == d) for (x, rel, y) in facts)
                mc = re.match(r"^(.*)\.(height|width)$", d or "")
                pred = mc is not None and any(rel == "is" and y == "false" and x == "Size::is_empty(%s)" % mc.group(1) for (x, rel, y) in facts)
                by_pred_used = by_pred_used or (pred and not direct)
                if not (direct or pred):
                    ok1 = False
        # meaning of is_empty: whenever it returns false, height != 0 and width != 0 (|| or &-negations, match, h * w == 0 ..)
        eqs = sorted("==".join(sorted((expr(ise, s_["rv"]["a"]), expr(ise, s_["rv"]["b"])), reverse=True)) for i, si, s_ in ise.assigns() if s_["rv"]["k"] == "bin" and s_["rv"]["op"] == "Eq")
        ipe = PathEval(ise)
        ok2 = True
        n_ret = 0
        for rb_ in ise.cfg().returns:
            for facts, env in ipe.at(rb_) or [(frozenset(), {0: None})]:
                v = env.get(0)
                if v is not None and v[0] == "c" and v[1] == 1:
                    continue
                n_ret += 1
                f2 = set(facts) | set(implied(v, False))
                nz = lambda d: ("0", "!=", d) in f2 or ("0", "<", d) in f2
                if not ((nz("arg1.height") and nz("arg1.width")) or nz("Mul(arg1.height, arg1.width)") or nz("Mul(arg1.width, arg1.height)")):
                    ok2 = False
        ok2 = (ok1 and not by_pred_used) or (ok2 and n_ret > 0)
        # a helper's obligations are justified here only when every call site of the helper is one of the expanded copies just examined
        origins = sorted({(o_, k_) for bb, o_, d_, k_ in sites})
        for o_, k_ in origins:
            if o_ != szc.path:
                cps = expanded_copies(prog, o_)
                if not cps or any(c.path != szc.path for c in cps):
                    ok1 = False
        ctx.instance("DIV-GUARD", {"divisions": len(sites), "in": sorted({o_ for o_, k_ in origins}), "guarded_by_not_is_empty_or_nonzero": ok1})
        ctx.instance("DIV-GUARD", {"is_empty_tests": eqs, "ok": ok2})
        okd = ok1 and ok2
        if okd:
            why = ("DIV-GUARD", "size_cells divides only by a component of pixels_per_cell after `pixels_per_cell.is_empty()` returned false (or after a test of the divisor itself)")
            for o_, k_ in origins:
                if k_ == "DIV0":
                    lemmas[(o_, "DIV0")] = why
                else:
                    ob_ = prog.body(o_)
                    obs_ = [o for o in _obl0.collect(ob_, lossy=False, unsafe=True) if not o.exp] if ob_ is not None else []
                    for o in obs_:
                        sk_ = oblrules.site_keys(obs_)[id(o)]
                        if sk_.startswith(k_ + "-"):
                            lemmas[(o_, sk_)] = why
    if not okd:
        ctx.violation("DIV-GUARD", "image::Image::size_cells", "guard", "a division in size_cells (or its rounding helper) is not guarded by the is_empty() early return", sites=[])

    hit_test(ctx)
    child_pairing(ctx)

    def size_arith(b, o):
        return True

    def scope(b):
        return b.file.startswith("src/view/") or b.file in ("src/glyph.rs", "src/image.rs", "src/render.rs", "src/terminal.rs")

    KINDS = {"OVF", "DIV0", "BOUNDS", "BOUNDSCALL", "RANGEIDX", "UNWRAP", "PANIC", "LIBPRE", "MAPIDX", "UNSAFE", "ASSERT"}
    # PATH-GUARD: `a - b` in a routine whose test `b <= a` was extracted into a private helper: the interpreter analyses the routine and the
    # helper separately and loses the relation; with the helper expanded in place the subtraction is reached only on paths that know b <= a
    # (path facts are dropped at writes to the places involved and at loop heads)
    from .. import obligations as _obl
    dyn0, _init0 = prog.callgraph().reach_split([e for e in entries if prog.body(e) is not None])
    for p_ in sorted(dyn0):
        b = prog.body(p_)
        if b is None or not scope(b) or b.kind == "Closure":
            continue
        ib = inlined_private(prog, p_) or b
        if ib is b and len(b.blocks) > 150:
            continue
        obs = [o for o in _obl.collect(b, lossy=False, unsafe=True) if not o.exp and o.kind in KINDS]
        subs = [o for o in obs if o.kind == "OVF" and o.sub == "Sub" and o.term.get("k") == "assert" and isinstance(o.term["msg"].get("a"), dict) and isinstance(o.term["msg"].get("b"), dict)]
        if not subs:
            continue
        keys = oblrules.site_keys(obs)
        res = PathEval(ib).at({o.bb for o in subs})
        if res is None:
            continue
        for o in subs:
            a_t, b_t = expr(ib, o.term["msg"]["a"]), expr(ib, o.term["msg"]["b"])
            ps = res.get(o.bb) or []
            if ps and all(any(rel in ("<", "<=") and x == b_t and y == a_t for (x, rel, y) in facts) for facts, env in ps):
                lemmas.setdefault((p_, keys[id(o)]), ("PATH-GUARD", "%s <= %s on every feasible path to the subtraction (the test is a bool local / made by a private helper, expanded in place)" % (b_t[:60], a_t[:60])))
    outs, dyn, init = oblrules.run(ctx, "TOTAL", entries, lossy=False, lemmas=lemmas, trusts=trusts, scope=scope, floor_bodies=20,
                                   kinds=KINDS,
                                   assume_filter=lambda b, o: ("SIZE-BOUND", "sizes are below 2^31") if (o.kind == "OVF" and o.sub in ("Add", "Mul", "Add-call", "Mul-call") and _usize_op(b, o)) else None,
                                   skip=lambda b: b.file == "src/surface.rs" and b.name == "view_bounds",
                                   desc="no reachable panic/overflow/bounds/unwrap/precondition failure in view layout and rendering")


_VT = {}


def _view_types(prog):
    if id(prog) not in _VT:
        _VT[id(prog)] = {re.sub(r"<.*$", "", i["self"]) for i in prog.impls if (i.get("trait") or "").endswith("view::View") and i["self"].startswith(("view::", "glyph::"))}
    return _VT[id(prog)]


def _user_param(body, operand):
    """does the operand read a numeric field of the view itself (`self.margins.top`, `self.size.width`, an Align offset ...)?
    Such values are chosen by whoever built or deserialised the view: SIZE-BOUND (a statement about sizes the layout protocol produces)
    does not cover them — C19 quantifies over JSON documents with huge numbers."""
    try:
        e = expr(body, operand)
    except Exception:
        return False
    if re.search(r"(^|[(, ])arg1\.[a-z_]+(\.[a-z_0-9]+)*($|[), ])", e) and body.kind == "AssocFn" and \
            ((body.impl_trait or "").endswith("view::View") or re.sub(r"<.*$", "", body.impl_self or "") in _view_types(body.prog)):
        return True
    # the size of a cell is the size its glyph declares (Glyph::size is a constructor / JSON parameter)
    return bool(re.search(r"Cell::size\(|Glyph::size\(", e))


def _float_op(body, op):
    """is the operand a float (float division never panics)"""
    if op["k"] == "const":
        return op["c"]["ty"] in ("f32", "f64")
    ty = body.local_ty(op["place"]["l"])
    for e in op["place"]["p"]:
        if e["k"] == "field":
            ty = e["ty"]
    return ty in ("f32", "f64")


def _usize_op(body, o):
    if o.term["k"] == "call":
        if any(_user_param(body, a) for a in o.term["args"]):
            return False
        return all(re.sub(r"^&('\w+ )?", "", t) == "usize" for t in o.term["arg_tys"])
    m = o.term["msg"]
    if any(_user_param(body, m[k]) for k in ("a", "b") if isinstance(m.get(k), dict)):
        return False
    for key in ("a", "b"):
        op = m.get(key)
        if op and op["k"] == "const":
            if op["c"]["ty"] not in ("usize",):
                return False
        elif op:
            l = op["place"]["l"]
            ty = body.local_ty(l)
            for e in op["place"]["p"]:
                if e["k"] == "field":
                    ty = e["ty"]
            if ty != "usize":
                return False
    return True


# =============================================================================================
# (d) hit-testing agrees with the rectangle that is painted
# =============================================================================================
def _split_call(e):
    """'Op(a, b)' -> ('Op', [a, b]) splitting at top-level commas; None when e is not of that form"""
    m = re.match(r"^(\w+)\((.*)\)$", e)
    if not m:
        return None
    args, depth, cur = [], 0, ""
    for ch in m.group(2):
        if ch in "([{":
            depth += 1
        elif ch in ")]}":
            depth -= 1
        if ch == "," and depth == 0:
            args.append(cur.strip())
            cur = ""
        else:
            cur += ch
    args.append(cur.strip())
    return m.group(1), args


def _norm_add(e):
    c = _split_call(e)
    if c and c[0] == "Add" and len(c[1]) == 2:
        return "Add(%s)" % ", ".join(sorted(c[1]))
    return e


def _cmp_fact(e, truth):
    """canonical 'a<=b' / 'a<b' fact carried by comparison expression e evaluating to `truth`; None if not a comparison"""
    c = _split_call(e)
    if not c or c[0] not in ("Le", "Lt", "Ge", "Gt") or len(c[1]) != 2:
        return None
    op, (a, b) = c[0], [_norm_add(x) for x in c[1]]
    if op in ("Ge", "Gt"):
        op, a, b = {"Ge": "Le", "Gt": "Lt"}[op], b, a
    if not truth:   # !(a<=b) == b<a ; !(a<b) == b<=a
        op, a, b = {"Le": "Lt", "Lt": "Le"}[op], b, a
    return "%s%s%s" % (a, "<=" if op == "Le" else "<", b)


def hit_test(ctx):
    prog = ctx.prog
    R = "HIT-TEST"
    ctx.rule(R, "FindPath::next descends into a child iff the position is inside the half-open rectangle [pos, pos+size) that Layout::apply_to "
                "gives to the child's renderer; the position is rebased by the child's origin; non-matching children advance to the sibling", floor=8)
    ap = prog.body("view::layout::Layout::apply_to")
    fp = next((b for b in prog.bodies if b.impl_trait == "std::iter::Iterator" and re.sub(r"<.*$", "", b.impl_self or "") == "view::layout::FindPath" and b.name == "next"), None)
    if ap is None or fp is None:
        ctx.anchor(R, "Layout::apply_to / FindPath::next")
        return
    # --- painted rectangle --------------------------------------------------------------------
    ap = inlined_private(prog, ap.path) or ap
    views = [(bb, t) for bb, t in ap.calls() if call_matches(t, r"^surface::Shape::view$|::view_mut$|::view$")]
    want_rows = "Range{start: arg1.pos.row, end: Add(arg1.pos.row, arg1.size.height)}"
    want_cols = "Range{start: arg1.pos.col, end: Add(arg1.pos.col, arg1.size.width)}"
    if len(views) != 1:
        ctx.anchor(R, "apply_to/view-call", "Layout::apply_to does not take exactly one sub-view of its surface")
    else:
        t = views[0][1]
        args = [re.sub(r"Add\(([^()]*)\)", lambda m: "Add(%s)" % ", ".join(sorted(x.strip() for x in m.group(1).split(","))), expr(ap, a)) for a in t["args"][-2:]]
        ok = args == [want_rows, want_cols]
        ctx.instance(R, {"apply_to_rows": args[0], "apply_to_cols": args[1], "half_open_rect_of_layout": ok})
        if not ok:
            ctx.violation(R, ap.path, "rect", "Layout::apply_to paints rows %s / cols %s instead of pos.row..pos.row+height / pos.col..pos.col+width" % tuple(args),
                          sites=["%s:%d" % (ap.file, t["line"])])
    # --- descent ------------------------------------------------------------------------------------
    fp = inlined_private(prog, fp.path) or fp      # a containment predicate extracted into a helper is part of the routine
    cfg = fp.cfg()
    desc = [(bb, t) for bb, t in fp.calls() if call_matches(t, r"Option::<T>::replace$|Option::<T>::insert$") and expr(fp, t["args"][0]) == "arg1.current"]
    if len(desc) != 1:
        # `self.current = Some(child_id)` form
        desc = []
        for i, si, st in fp.assigns():
            if resolve_place(fp, st["place"]) == "(*_1).current" and st["rv"]["k"] == "agg" and st["rv"].get("variant") == "Some":
                desc.append((i, {"args": [None, st["rv"]["fields"][0]], "line": st["line"]}))
    if len(desc) != 1:
        ctx.anchor(R, "find_path/descent", "cannot identify the single place where FindPath::next selects a child")
        return
    D, dt = desc[0]
    child_id = expr(fp, dt["args"][1])
    pe = PathEval(fp)

    def common_facts(bb):
        """ordering facts that hold on every way to bb ('a<=b' / 'a<b' with sums in canonical operand order); None = not enumerable"""
        paths = pe.at(bb, at_entry=True)
        if not paths:
            return None
        sets = [{"%s%s%s" % (_norm_add(x), rel, _norm_add(y)) for (x, rel, y) in facts if rel in ("<", "<=")} for facts, env in paths]
        return set.intersection(*sets)
    facts_ = common_facts(D)
    if facts_ is None:
        ctx.anchor(R, "find_path/paths", "the ways into the descent cannot be enumerated")
        return
    # the child layout prefix: store[<idx>].value with idx == child_id.0
    m = None
    for f in sorted(facts_):
        m = m or re.search(r"(arg1\.store\[(_\d+)\]\.value)\.pos\.col", f)
    if not m:
        ctx.anchor(R, "find_path/child", "no comparison against the child's pos.col dominates the descent")
        return
    C, idx = m.group(1), m.group(2)
    idx_e = expr(fp, {"k": "copy", "place": {"l": int(idx[1:]), "p": []}})
    same_child = idx_e == child_id + ".0"
    ctx.instance(R, {"descent_block": D, "selected_child": child_id, "tested_child_index": idx_e, "same": same_child})
    if not same_child:
        ctx.violation(R, fp.path, "child", "FindPath::next tests the rectangle of %s but descends into %s" % (idx_e, child_id), sites=["%s:%d" % (fp.file, dt["line"])])
    P = "arg1.pos"
    want = {"%s.pos.col<=%s.col" % (C, P): "left edge inclusive",
            "%s.col<%s" % (P, _norm_add("Add(%s.pos.col, %s.size.width)" % (C, C))): "right edge exclusive",
            "%s.pos.row<=%s.row" % (C, P): "top edge inclusive",
            "%s.row<%s" % (P, _norm_add("Add(%s.pos.row, %s.size.height)" % (C, C))): "bottom edge exclusive"}
    for w, what in sorted(want.items()):
        ok = w in facts_
        ctx.instance(R, {"descent_requires": w, "edge": what, "present": ok})
        if not ok:
            ctx.violation(R, fp.path, "edge:" + what.replace(" ", "-"), "descending into a child does not require `%s` (%s): positions outside the painted rectangle hit the child, or painted cells miss it; guards found: %s"
                          % (w, what, sorted(facts_)), sites=[fp.loc])
    extra = sorted(f for f in facts_ if f not in want)
    ctx.instance(R, {"additional_descent_guards": extra})
    if extra:
        ctx.violation(R, fp.path, "extra-guard", "descent is additionally guarded by %s: cells inside the painted rectangle are not attributed to the child" % extra, sites=[fp.loc])
    # rebase
    aggs = [expr(fp, {"k": "copy", "place": st["place"]}) for i, si, st in fp.assigns() if st["rv"]["k"] == "agg" and st["rv"].get("adt") == "terminal::Position"]
    want_reb = "Position{row: Sub(%s.row, %s.pos.row), col: Sub(%s.col, %s.pos.col)}" % (P, C, P, C)
    stored = [i for i, si, st in fp.assigns() if resolve_place(fp, st["place"]) == "(*_1).pos"]
    ok = aggs == [want_reb] and len(stored) == 1 and (cfg.dominates(stored[0], D) or cfg.dominates(D, stored[0])) and set(want) <= (common_facts(stored[0]) or set())
    ctx.instance(R, {"rebased_position": aggs, "expected": want_reb, "ok": bool(ok)})
    if not ok:
        ctx.violation(R, fp.path, "rebase", "on descent the position must become (row - child.pos.row, col - child.pos.col); found %s" % aggs, sites=[fp.loc])
    # sibling advance: a child that is looked at is either descended into or followed by its sibling: every feasible way from the entry to a
    # return that enters the loop over the children passes the descent, unless it went round through `child = store[child].sibling`
    # (those ways are cyclic and re-enter the loop test).  Judged on feasible paths, so a test spelled as a helper's bool, a `continue`
    # under the negated test or a `&&` chain are the same thing; leaving the loop on a failed test (`break`, `return`) is what is excluded.
    adv = [i for i, si, st in fp.assigns() if re.fullmatch(r"arg1\.store\[_\d+\]\.sibling", expr(fp, st["rv"]["a"]) if st["rv"]["k"] == "use" else "")]
    ok = False
    if adv:
        A = adv[0]
        loops = cfg.loops()
        hs = [h for h, body_ in loops.items() if A in body_]
        if hs:
            h = min(hs, key=lambda x: len(loops[x]))
            inside = set(loops[h]) - {h}
            ok = bool(cfg.returns)
            for r_ in cfg.returns:
                ps = pe.at(r_, with_blocks=True)
                if ps is None:
                    ok = False
                    break
                for facts, env, blocks in ps:
                    if (blocks & inside) and D not in blocks:
                        ok = False
    ctx.instance(R, {"failed_test_advances_to_sibling": ok})
    if not ok:
        ctx.violation(R, fp.path, "sibling", "a child whose rectangle does not contain the position must be followed by its sibling (`child = store[child].sibling`)", sites=[fp.loc])


# =============================================================================================
# (e) child number i is rendered with layout number i
# =============================================================================================
_RENDER_RX = r"view::View::render$|as view::View>::render$|view::View for str>::render$"
_ITER_HEAD = r"^(?:Iterator|IntoIterator|DoubleEndedIterator|ExactSizeIterator|Itertools|FlexArray|slice|Vec|Peekable)::"
# adaptors under which element number i of the result is element number i of the source and no element is lost
_ALIGNED = {"into_iter", "iter", "iter_mut", "by_ref", "map", "inspect", "copied", "cloned", "peekable", "fuse", "enumerate"}
_OPT_WRAP = {"ok_or", "ok_or_else", "unwrap", "expect", "unwrap_unchecked", "branch", "from", "into"}


def _parse(e):
    """'Head(a, b)suffix' -> (head, [args], suffix); None when the term does not start with a call"""
    i = e.find("(")
    if i <= 0 or not re.match(r"^[\w:<>&' ]+$", e[:i]):
        return None
    depth, j = 0, None
    for k in range(i, len(e)):
        if e[k] in "([{":
            depth += 1
        elif e[k] in ")]}":
            depth -= 1
            if depth == 0:
                j = k
                break
    if j is None:
        return None
    args, cur, depth = [], "", 0
    for ch in e[i + 1:j]:
        if ch in "([{":
            depth += 1
        elif ch in ")]}":
            depth -= 1
        if ch == "," and depth == 0:
            args.append(cur.strip())
            cur = ""
        else:
            cur += ch
    if cur.strip():
        args.append(cur.strip())
    return e[:i], args, e[j + 1:]


def _subcall(e, name):
    """the first sub-term `name(..)` of e, parsed; None when absent"""
    i = e.find(name + "(")
    return _parse(e[i:]) if i >= 0 else None


def _chain(t):
    """(source term, [iterator adaptors applied to it, innermost first]) of an iterator-valued term"""
    ads = []
    while True:
        p = _parse(t)
        if p is None or p[2] or not p[1] or not re.match(_ITER_HEAD, p[0]):
            return t, ads[::-1]
        short = p[0].split("::")[-1]
        if p[0].startswith("FlexArray::") or (short in ("iter", "iter_mut") and not p[0].startswith("Iterator::")):
            return t, ads[::-1]                      # the sequence itself
        ads.append(short)
        t = p[1][0]


def _side(t, own, layout_side):
    """None when the iterator term enumerates its source in order without losing an element (and, for the layout side, the source is
    `children()` of the renderer's own layout); otherwise the shape of what is wrong"""
    src, ads = _chain(t)
    bad = [a for a in ads if a not in _ALIGNED]
    if bad:
        return "%s:%s" % ("layout-side" if layout_side else "child-side", "+".join(bad))
    if layout_side:
        p = _parse(src)
        if p is None or p[2] or not p[0].endswith("Tree::children") or not re.search(r"\b%s\b" % own, p[1][0] if p[1] else ""):
            return "layout-side:foreign-source"
    elif "Tree::children(" in src:
        return "child-side:layouts"
    return None


def _closure_site(prog, cb):
    """(enclosing body, call terminator the closure is handed to, capture terms) of a closure body; None when not found"""
    tag = "closure:%s[" % cb.path.split("::")[-1]
    for pb in prog.bodies:
        if pb.path == cb.path or not cb.path.startswith(pb.path + "::") or cb.path[len(pb.path) + 2:].count("::"):
            continue
        for pbb, pt in pb.calls():
            for a in pt["args"]:
                e = expr(pb, a)
                if e.startswith(tag):
                    p = _parse("c(" + e[len(tag):-1] + ")") if e.endswith("]") else None
                    return pb, pt, (p[1] if p else [])
    return None


def _in_parent_terms(prog, cb, e):
    """a closure-body term with its captures `arg1.N` replaced by the captured terms of the enclosing body"""
    if cb.kind != "Closure":
        return e
    site = _closure_site(prog, cb)
    if site is None:
        return e
    caps = site[2]
    return re.sub(r"\barg1\.(\d+)\b", lambda m: caps[int(m.group(1))] if int(m.group(1)) < len(caps) else m.group(0), e)


def child_pairing(ctx):
    prog = ctx.prog
    R = "CHILD-PAIRING"
    ctx.rule(R, "every renderer that hands a child a layout taken from layout.children() pairs child number i with layout number i: both come "
                "from one zip of two in-order, loss-free sequences (no filter/skip/rev/step_by/.. on one side only), from the first child "
                "layout for a single child, or from two cursors advanced exactly once per iteration; skipping a whole pair is fine", floor=4)
    for b0 in prog.bodies:
        if not b0.file.startswith("src/") or not any(call_matches(t, _RENDER_RX) for bb, t in b0.calls()):
            continue
        b = inlined_private(prog, b0.path) or b0
        own = None
        for i in range(1, b.arg_count + 1):
            if re.search(r"TreeView<'_, view::layout::Layout>", b.local_ty(i) or ""):
                own = "arg%d" % i
        cfg = None
        sites = [(bb, t) for bb, t in b.calls() if call_matches(t, _RENDER_RX) and len(t["args"]) == 4]
        single = []
        for bb, t in sites:
            V, L = expr(b, t["args"][0]), expr(b, t["args"][3])
            it_term, outer = None, b
            if b.kind == "Closure" and re.match(r"^arg[23]\b", L) and "Tree::children(" not in L:
                # body of for_each / try_for_each / try_fold ..: the element is the closure's parameter, the sequence is the receiver
                site = _closure_site(prog, b)
                if site is not None and len(site[1]["args"]) >= 2 and re.match(_ITER_HEAD, _call_expr(site[0], site[1])):
                    it_term, outer = expr(site[0], site[1]["args"][0]), site[0]
                if it_term is None:
                    continue
                for i in range(1, outer.arg_count + 1):
                    if re.search(r"TreeView<'_, view::layout::Layout>", outer.local_ty(i) or ""):
                        own = "arg%d" % i
                V = L = it_term
            if "Tree::children(" not in L and not any("Tree::children(" in _call_expr(b, b.blocks[x]["term"]) for x in _cursor_calls(b, t["args"][3])):
                continue                     # the renderer's own layout forwarded (Box, Option, Arc ..): no pairing made here
            if own is None:
                ctx.violation(R, b.path, "foreign-layout", "a child is rendered with a layout from children() of something that is not the renderer's layout argument", sites=["%s:%d" % (b.file, t["line"])])
                continue
            where = "%s:%d" % (b.file, t["line"])
            z = _subcall(L, "Iterator::zip")
            if z is not None and len(z[1]) == 2:
                zs = "Iterator::zip(%s, %s)" % (z[1][0], z[1][1])
                lay = [x for x in z[1] if "Tree::children(" in x]
                shape = None
                if zs not in V:
                    shape = "different-sequences"
                elif len(lay) != 1:
                    shape = "layout-side:both-or-none"
                else:
                    kid = z[1][1] if lay[0] == z[1][0] and z[1][0] != z[1][1] else z[1][0]
                    shape = _side(lay[0], own, True) or _side(kid, own, False)
                ctx.instance(R, {"fn": b.path, "form": "zip", "children": z[1][0][:100], "layouts": z[1][1][:100], "ok": shape is None})
                if shape:
                    ctx.violation(R, b.path, shape, "the child sequence and layout.children() are paired after an element-dropping / reordering step on one side only "
                                  "(%s): after the first dropped element every child is drawn with the layout of another child" % zs[:240], sites=[where])
                continue
            # cursor forms: the layout is Iterator::next(T) / nth(T, i) of an in-order T over children(), possibly behind ok_or / ? / unwrap / match
            cbs = _cursor_calls(b, t["args"][3])
            shape, sel, cur = None, None, None
            if len(cbs) != 1:
                shape = "lockstep" if len(cbs) > 1 else "unrecognised"      # the layout is one of several cursor positions
            else:
                ct_ = b.blocks[list(cbs)[0]]["term"]
                cur = _call_expr(b, ct_)
                p = _parse(cur)
                if p is None or not p[0].startswith(("Iterator::", "DoubleEndedIterator::")) or not p[1]:
                    shape = "unrecognised"
                else:
                    sel = (p[0].split("::")[-1], p[1])
            indexed = False
            if shape is None:
                nm, args = sel
                if nm == "next" or (nm == "nth" and len(args) == 2 and args[1] == "0"):
                    pass
                elif nm == "nth" and len(args) == 2 and not re.match(r"^\d+$", args[1]) and (", %s)" % args[1] in V or "[%s]" % args[1] in V):
                    indexed = True               # children.get(i) with layout.children().nth(i): one counter on both sides
                else:
                    shape = "selector:%s" % nm
                shape = shape or _side(args[0], own, True)
            if shape is None and not indexed:
                cfg = cfg or b.cfg()
                loops = cfg.loops()
                hs = [h for h, body_ in loops.items() if bb in body_]
                # calls advancing the layout cursor: Iterator methods on the same iterator object (place), not merely the same term
                adv = [(bb2, t2) for bb2, t2 in b.calls() if t2["args"] and re.match(_ITER_HEAD, _call_expr(b, t2)) and expr(b, t2["args"][0]) == sel[1][0]
                       and call_matches(t2, r"::(next|nth|next_back|nth_back|last|skip|step_by|advance_by|find|position|count)$")]
                mine = [(bb2, t2) for bb2, t2 in adv if bb2 in cbs]
                adv = [x for x in adv if mine and (arg_place_(b, x[1]) is None or arg_place_(b, x[1]) == arg_place_(b, mine[0][1]))]
                if not hs:
                    single.append((bb, t, cur))
                    if len(mine) != 1 or len(adv) != 1:
                        shape = "cursor"
                else:
                    h = min(hs, key=lambda x: len(loops[x]))
                    body_ = loops[h]
                    inner = lambda x: min([hh for hh, bd in loops.items() if x in bd], key=lambda y: len(loops[y]), default=None)
                    kid_next = [(bb2, t2) for bb2, t2 in b.calls() if call_matches(t2, r"::next$") and bb2 in body_ and _call_expr(b, t2) in V and "Tree::children(" not in _call_expr(b, t2)]
                    if len(adv) != 1 or len(mine) != 1 or mine[0][0] not in body_ or inner(mine[0][0]) != h or len(kid_next) != 1 or inner(kid_next[0][0]) != h:
                        shape = "lockstep"
                    else:
                        N, M = mine[0][0], kid_next[0][0]
                        first, second = (M, N) if cfg.dominates(M, N) else (N, M)
                        outside = set(range(len(b.blocks))) - set(body_)
                        # every way round the loop from the first cursor's advance passes the second cursor's advance (a `continue` in between would shift the pairing)
                        ok1 = cfg.must_pass([second], start=b.blocks[first]["term"]["t"], exits=[h], removed=outside)[0]
                        kside = _side(_parse(_call_expr(b, kid_next[0][1]))[1][0], own, False)
                        created = [bb2 for bb2, t2 in b.calls() if call_matches(t2, r"Tree::children$")]
                        if not ok1 or any(c in body_ for c in created):
                            shape = "lockstep"
                        elif kside:
                            shape = kside
            form = "indexed" if indexed else ("first-child" if not any(bb in bd for bd in (cfg.loops().values() if cfg else [])) else "lock-step")
            ctx.instance(R, {"fn": b.path, "form": form, "child": V[:100], "layout": L[:140], "ok": shape is None})
            if shape:
                ctx.violation(R, b.path, shape, "a child is rendered with a layout that is not provably the one recorded for it (child %s, layout %s): "
                              "the child paints into the rectangle of another view" % (V[:100], L[:200]), sites=[where])
        if len(single) > 1 and len({expr(b, t["args"][0]) for bb, t, c in single}) > 1 and len({c for bb, t, c in single}) == 1:
            ctx.violation(R, b.path, "same-layout-twice", "several children are rendered with the same (first) child layout", sites=[b.loc])


def _cursor_calls(b, operand, depth=0):
    """blocks of the calls whose result is the operand's value, looking through `?`, payloads, moves and Option -> Result wrappers"""
    from ..flow import origins
    out = set()
    for o in origins(b, operand):
        if o[0] != "call":
            continue
        t2 = b.blocks[o[1]]["term"]
        if (callee_name(t2) or "").split("::")[-1] in _OPT_WRAP and t2["args"] and depth < 6:
            out |= _cursor_calls(b, t2["args"][0], depth + 1)
        else:
            out.add(o[1])
    return out


def arg_place_(body, t):
    from ..flow import arg_place
    try:
        return arg_place(body, t, 0)
    except Exception:
        return None
