"""C14 — streaming base64 codec: RFC 4648 tables, 3<->4 bit regrouping, padding, carry/copy shape,
short-read rule, length error (DESIGN §5 C14 clauses a, b, c-shape, d, e).

Source side (src.json + sa/bitflow.py): alphabet tables, bit provenance of every emitted character
of `Base64Encoder::write`/`finish` and of every byte returned by the decoder's 4->3 function,
padding agreement.  MIR side: carry index discipline, min(available, room) copy, use of the decode
results, the short-read rule and the guards of the length error.
Numeric panic-freedom (clauses c/f BOUNDS, INT) is NOT done here: see `obligations`."""
import json
import os
import re

from .. import bitflow as bf
from ..mir import call_matches, callee_name, op_local, op_const_int, place_str
from ..flow import resolve_place, arg_place, origins, err_return_blocks, ok_return_blocks, writes_to_field, expr as fexpr
from ..src import find_all, lit_int, expr_text, walk

REF = os.path.join(os.path.dirname(os.path.dirname(os.path.abspath(__file__))), "refs", "rfc4648.json")


class Shape(Exception):
    """source construct outside the recognised idioms (reported as an anchor: fail closed)"""


def obligations(ctx):
    """Numeric obligations of clauses (c)/(f): BOUNDS on `[u8;3]`/`[u8;64]`, RANGEIDX, overflow, copy_from_slice lengths — no panic in
    Reach(Base64Decoder::read, Base64Encoder::{write,finish}) — discharged by the abstract interpreter under two inductive struct
    invariants that are themselves proven (sa/structinv.py): encoder carry index in 0..=2, decoder 0 <= buffer_offset <= buffer_size <= 64."""
    from .. import structinv, oblrules
    prog = ctx.prog
    inv_enc = {"fields": {"size": (0, 2)}}
    cap = 64
    for a in prog.adts.get("decoder::Base64Decoder", {}).get("variants", []):
        for f in a["fields"]:
            m = re.match(r"^\[u8; (\d+)\]$", f["ty"]) if f["name"] == "buffer" else None
            if m:
                cap = int(m.group(1))
    inv_dec = {"fields": {"buffer_size": (0, cap), "buffer_offset": (0, cap)}, "diffs": [("buffer_offset", "buffer_size", 0)]}
    ok1, e1 = structinv.establish(ctx, "INV-ENCODER", "encoder::Base64Encoder", inv_enc)
    ok2, e2 = structinv.establish(ctx, "INV-DECODER", "decoder::Base64Decoder", inv_dec)
    ef = {}
    invs = {}
    if ok1:
        ef.update(e1)
        invs["encoder::Base64Encoder"] = inv_enc
    if ok2:
        ef.update(e2)
        invs["decoder::Base64Decoder"] = inv_dec
    entries = [b.path for b in prog.bodies if b.kind == "AssocFn" and re.sub(r"<.*$", "", b.impl_self or "") in ("encoder::Base64Encoder", "decoder::Base64Decoder")]
    ctx.assume("an io::Write/Read call on a Base64 codec object is not repeated after it returned Err (the carry index may then be 3)")
    oblrules.run(ctx, "TOTAL", entries, lossy=False, entry_facts=ef, invariants=invs, floor_bodies=5,
                 scope=lambda b: b.file.endswith(("decoder.rs", "encoder.rs")),
                 desc="no reachable panic/overflow/out-of-bounds/length-mismatch in the base64 encoder and decoder")


# =============================================================================================
# reference data
# =============================================================================================
def load_ref(ctx):
    ref = json.load(open(REF))
    chars = ref["alphabet"]["chars"]
    bits = ref["quantum"]["bits"]
    ok = (len(chars) == 64 and len(set(chars)) == 64 and ref["alphabet"]["pad"] not in chars and len(bits) == 24
          and len({(r["octet"], r["octet_bit"]) for r in bits}) == 24 and len({(r["sextet"], r["sextet_bit"]) for r in bits}) == 24
          and all(r["group_bit"] == 8 * r["octet"] + 7 - r["octet_bit"] == 6 * r["sextet"] + 5 - r["sextet_bit"] for r in bits))
    if not ok:
        ctx.anchor("ALPHABET", "refs/rfc4648.json", "reference table is not self-consistent")
    ref["sx"] = {(r["sextet"], r["sextet_bit"]): (r["octet"], r["octet_bit"]) for r in bits}
    ref["oc"] = {(r["octet"], r["octet_bit"]): (r["sextet"], r["sextet_bit"]) for r in bits}
    ref["padv"] = ord(ref["alphabet"]["pad"])
    return ref


# =============================================================================================
# (a) tables
# =============================================================================================
def table_values(item):
    e = item["expr"]
    while e.get("k") in ("ref", "cast") or (e.get("k") == "un" and e.get("op") == "*"):
        e = e["e"]
    if e.get("k") == "lit" and e.get("t") == "bytestr":
        return list(e["v"])
    if e.get("k") == "array":
        vs = [lit_int(x) for x in e["elems"]]
        return None if any(v is None for v in vs) else vs
    if e.get("k") == "repeat":
        v, n = lit_int(e["e"]), lit_int(e["n"])
        return None if v is None or n is None else [v] * n
    return None


def check_tables(ctx, ref, enc_name, dec_name):
    ctx.rule("ALPHABET", "encoder table row i == RFC 4648 §4 Table 1 row i (64 rows, exhaustive)", floor=64)
    ctx.rule("DECODE-INVERSE", "DECODE[ENCODE[i]] == i for all 64 i; DECODE['='] == 0; DECODE has 256 rows", floor=66)
    enc = dec = None
    ce = ctx.src.const(enc_name) if enc_name else None
    cd = ctx.src.const(dec_name) if dec_name else None
    if ce is None or table_values(ce[1]) is None:
        ctx.anchor("ALPHABET", "encoder-table", "the encoder's alphabet table %r is not a literal const" % enc_name)
    else:
        enc = table_values(ce[1])
        site = ["%s:%d" % (ce[0], ce[1]["line"])]
        if len(enc) != 64:
            ctx.violation("ALPHABET", enc_name, "length", "%s has %d rows, RFC 4648 has 64" % (enc_name, len(enc)), sites=site)
        for i, ch in enumerate(ref["alphabet"]["chars"]):
            ctx.instance("ALPHABET", {"row": i, "rfc": ch, "table": chr(enc[i]) if i < len(enc) else None})
            if i >= len(enc) or enc[i] != ord(ch):
                ctx.violation("ALPHABET", enc_name, "row%d" % i,
                              "%s[%d] is %r, RFC 4648 value %d is %r" % (enc_name, i, chr(enc[i]) if i < len(enc) else None, i, ch), sites=site)
    if cd is None or table_values(cd[1]) is None:
        ctx.anchor("DECODE-INVERSE", "decoder-table", "the decoder's table %r is not a literal const" % dec_name)
    else:
        dec = table_values(cd[1])
        site = ["%s:%d" % (cd[0], cd[1]["line"])]
        ctx.instance("DECODE-INVERSE", {"rows": len(dec)})
        if len(dec) != 256:
            ctx.violation("DECODE-INVERSE", dec_name, "length", "%s has %d rows; it is indexed by an arbitrary byte (256)" % (dec_name, len(dec)), sites=site)
        ctx.instance("DECODE-INVERSE", {"pad": "=", "decodes_to": dec[ref["padv"]] if ref["padv"] < len(dec) else None})
        if ref["padv"] >= len(dec) or dec[ref["padv"]] != 0:
            ctx.violation("DECODE-INVERSE", dec_name, "pad", "%s[b'='] must be 0 (padding contributes zero bits)" % dec_name, sites=site)
        if enc is not None:
            for i in range(min(64, len(enc))):
                c = enc[i]
                got = dec[c] if c < len(dec) else None
                ctx.instance("DECODE-INVERSE", {"i": i, "char": chr(c), "decoded": got})
                if got != i:
                    ctx.violation("DECODE-INVERSE", dec_name, "row%d" % c,
                                  "%s[%s[%d]=%r] is %s, must be %d: the character does not decode to the sextet it encodes" % (dec_name, enc_name, i, chr(c), got, i), sites=site)
    return enc, dec


# =============================================================================================
# (b) encoder: symbolic walk of write / finish over the source tree
# =============================================================================================
class St:
    def __init__(self):
        self.env = {}        # bitflow env
        self.arrays = {}     # name -> list of cells ('lit', v) | ('tab', table, bits, text, line)
        self.iters = {}      # name -> [next position, exhausted]
        self.alias = {}      # local name -> self.<field>
        self.facts = []
        self.emits = []      # (cells, line, receiver key)
        self.noct = 0        # carry octets bound on this path
        self.full = False    # all carry octets bound by a whole-array pattern
        self.ended = False

    def clone(self):
        s = St()
        s.env = dict(self.env)
        s.arrays = {k: list(v) for k, v in self.arrays.items()}
        s.iters = {k: list(v) for k, v in self.iters.items()}
        s.alias = dict(self.alias)
        s.facts = list(self.facts)
        s.emits = list(self.emits)
        s.noct, s.full, s.ended = self.noct, self.full, self.ended
        return s


class EncWalk:
    """Recognised idioms (everything else touching a tracked name raises Shape):
       let Self{..} = self;  let mut dst = [b'='; 4];  let mut it = <carry>[..<size>].iter();
       if let Some(x) = it.next() {..} else {..};  let [a, b, c] = <carry>;  let x = <bit expr>;
       dst[k] = TABLE[<bit expr> as usize];  dst[k] = <byte literal>;  <w>.write_all(&dst)?;
       for b in <buf>.iter().copied() {..};  if <cond> {..} else {..};  carry store / index inc / index reset."""

    def __init__(self, carry, size, inner, ncarry):
        self.carry, self.size, self.inner, self.ncarry = carry, size, inner, ncarry
        self.tables = set()

    # -- keys --
    def key(self, e, st):
        k = bf.key_of(e)
        if k is None:
            return None
        head = k.split(".")[0].split("[")[0]
        if head in st.alias:
            k = st.alias[head] + k[len(head):]
        return k

    def tracked(self, st):
        t = set(st.arrays) | set(st.iters) | set(st.env) | set(st.alias)
        return t

    def mentions(self, node, st):
        names = self.tracked(st)
        hit = []

        def f(n, parents):
            if n.get("k") == "path" and n["p"] in names:
                hit.append(n["p"])
            if n.get("k") == "field" and n["e"].get("k") == "path" and n["e"]["p"] == "self" and n["name"] in (self.carry, self.size):
                hit.append("self." + n["name"])
        walk(node, f)
        return hit

    # -- blocks --
    def run_block(self, stmts, states):
        for stmt in stmts:
            nxt = []
            for s in states:
                if s.ended:
                    nxt.append(s)
                else:
                    nxt += self.step(stmt, s)
            states = nxt
        return states

    def step(self, stmt, st):
        k = stmt.get("k")
        if k == "let":
            return self.let(stmt, st)
        if k == "expr":
            return self.expr(stmt["e"], st)
        if self.mentions(stmt, st):
            raise Shape("statement of kind %s touches %s" % (k, self.mentions(stmt, st)))
        return [st]

    def let(self, stmt, st):
        pat, init = stmt["pat"], stmt.get("init")
        if init is None or stmt.get("else") is not None:
            raise Shape("let without initialiser / let-else")
        pk = pat.get("k")
        if pk == "struct" and init.get("k") == "path" and init["p"] == "self":
            for f in pat["fields"]:
                p = f["pat"]
                if p.get("k") != "ident":
                    raise Shape("nested pattern in destructuring of self")
                st.alias[p["name"]] = "self." + f["name"]
            return [st]
        ikey = self.key(init, st)
        if pk == "ident":
            name = pat["name"]
            if init.get("k") == "repeat" or init.get("k") == "array":
                vs = table_values({"expr": init})
                if vs is None:
                    raise Shape("array initialiser of %s is not literal" % name)
                st.arrays[name] = [("lit", v) for v in vs]
                return [st]
            if init.get("k") == "mcall" and self.is_carry_iter(init, st):
                st.iters[name] = [0, False]
                return [st]
            if ikey is not None and ikey in ("self." + self.carry, "self." + self.size, "self." + self.inner):
                st.alias[name] = ikey
                return [st]
            try:
                bf.bind_let(stmt, st.env)
                return [st]
            except bf.BitflowError as ex:
                if self.mentions(init, st):
                    raise Shape("let %s = %s: %s" % (name, expr_text(init), ex))
                return [st]
        if pk == "slice" and ikey == "self." + self.carry:
            if len(pat["elems"]) != self.ncarry:
                raise Shape("carry pattern has %d elements" % len(pat["elems"]))
            for i, p in enumerate(pat["elems"]):
                if p.get("k") == "wild":
                    continue
                if p.get("k") != "ident":
                    raise Shape("carry pattern element")
                st.env[p["name"]] = bf.sym("oct%d" % i, 8)
            st.noct, st.full = self.ncarry, True
            st.facts.append(("carry-array-pattern", self.ncarry))
            return [st]
        if self.mentions(stmt, st):
            raise Shape("let pattern %s over %s" % (pk, expr_text(init)))
        return [st]

    def is_carry_iter(self, e, st):
        """<carry>[..<size>].iter() (optionally .copied()/.cloned())"""
        if e["m"] in ("copied", "cloned") and e["recv"].get("k") == "mcall":
            e = e["recv"]
        if e["m"] != "iter" or e["args"]:
            return False
        r = e["recv"]
        if r.get("k") != "index" or self.key(r["e"], st) != "self." + self.carry:
            return False
        rg = r["i"]
        if rg.get("k") != "range" or rg.get("incl") or rg.get("hi") is None:
            return False
        if rg.get("lo") is not None and lit_int(rg["lo"]) != 0:
            return False
        if self.key(rg["hi"], st) != "self." + self.size:
            raise Shape("carry iterated up to %s, not the carry index" % expr_text(rg["hi"]))
        return True

    def expr(self, e, st):
        k = e.get("k")
        if k == "if":
            return self.if_(e, st)
        if k in ("block", "unsafe"):
            return self.run_block(e.get("stmts") or e.get("body", {}).get("stmts", []), [st])
        if k == "for":
            st.facts.append(("for", expr_text(e["iter"])))
            if e["pat"].get("k") == "ident":
                st.env.pop(e["pat"]["name"], None)
            out = self.run_block(e["body"]["stmts"], [st])
            return out
        if k == "assign":
            return self.assign(e, st)
        if k == "try" and e["e"].get("k") == "mcall" and e["e"]["m"] == "write_all":
            m = e["e"]
            a = m["args"][0] if len(m["args"]) == 1 else None
            an = bf.key_of(a) if a is not None else None
            if an in st.arrays:
                st.emits.append((list(st.arrays[an]), e["line"], self.key(m["recv"], st)))
                return [st]
        if k == "call" and e["f"].get("k") == "path" and e["f"]["p"] in ("Ok", "Err"):
            st.ended = True
            return [st]
        if k == "return":
            st.ended = True
            return [st]
        if k == "bin" and e["op"].endswith("=") and e["op"] not in ("==", "!=", "<=", ">="):
            if self.key(e["l"], st) == "self." + self.size:
                st.facts.append(("carry-index", e["op"], expr_text(e["r"])))
                return [st]
        if self.mentions(e, st):
            raise Shape("expression `%s` touches %s" % (expr_text(e), sorted(set(self.mentions(e, st)))))
        return [st]

    def if_(self, e, st):
        c = e["cond"]
        then, els = e["then"], e.get("else")

        def run_else(s):
            if els is None:
                return [s]
            return self.expr(els, s)
        if c.get("k") == "letcond":
            src = c["e"]
            if src.get("k") == "mcall" and src["m"] == "next" and bf.key_of(src["recv"]) in st.iters:
                it = bf.key_of(src["recv"])
                pat = c["pat"]
                if not (pat.get("k") == "tstruct" and pat["path"] == "Some" and len(pat["elems"]) == 1):
                    raise Shape("pattern on next() is not Some(x)")
                p = pat["elems"][0]
                while p.get("k") == "ref":
                    p = p["pat"]
                if p.get("k") not in ("ident", "wild"):
                    raise Shape("pattern on next() is not Some(x)")
                out = []
                pos, done = st.iters[it]
                if not done and pos < self.ncarry:
                    s1 = st.clone()
                    if p.get("k") == "ident":
                        s1.env[p["name"]] = bf.sym("oct%d" % pos, 8)
                    s1.iters[it] = [pos + 1, False]
                    s1.noct = pos + 1
                    s1.facts.append(("some", pos))
                    out += self.run_block(then["stmts"], [s1])
                s2 = st.clone()
                s2.iters[it] = [pos, True]
                s2.facts.append(("none", pos))
                out += run_else(s2)
                return out
            if self.mentions(c, st):
                raise Shape("if-let on `%s`" % expr_text(src))
        elif self.mentions(c, st) and not self.only_size(c, st):
            raise Shape("condition `%s` depends on tracked data" % expr_text(c))
        s1, s2 = st.clone(), st.clone()
        s1.facts.append(("cond", self.norm(c, st), True))
        s2.facts.append(("cond", self.norm(c, st), False))
        return self.run_block(then["stmts"], [s1]) + run_else(s2)

    def only_size(self, c, st):
        return all(m == "self." + self.size or st.alias.get(m) == "self." + self.size for m in self.mentions(c, st))

    def norm(self, c, st):
        if c.get("k") == "bin" and c["op"] in ("==", "!=", "<", "<=", ">", ">="):
            l, r = self.key(c["l"], st), self.key(c["r"], st)
            lv, rv = lit_int(c["l"]), lit_int(c["r"])
            if l == "self." + self.size and rv is not None:
                return ("size", c["op"], rv)
            if r == "self." + self.size and lv is not None:
                flip = {"<": ">", ">": "<", "<=": ">=", ">=": "<="}
                return ("size", flip.get(c["op"], c["op"]), lv)
        return ("other", expr_text(c))

    def assign(self, e, st):
        l, r = e["l"], e["r"]
        if l.get("k") == "index" and bf.key_of(l["e"]) in st.arrays:
            arr = st.arrays[bf.key_of(l["e"])]
            i = lit_int(l["i"])
            if i is None or not (0 <= i < len(arr)):
                raise Shape("store to %s at non-literal index" % expr_text(l))
            lv = lit_int(r)
            if lv is not None and r.get("k") == "lit":
                arr[i] = ("lit", lv)
                return [st]
            if r.get("k") == "index" and r["e"].get("k") == "path" and r["e"]["p"] not in self.tracked(st):
                try:
                    bits = bf.provenance(r["i"], st.env, 64)
                except bf.BitflowError as ex:
                    raise Shape("index of %s: %s" % (r["e"]["p"], ex))
                self.tables.add(r["e"]["p"])
                arr[i] = ("tab", r["e"]["p"], bits, expr_text(r["i"]), e["line"])
                return [st]
            raise Shape("value stored to %s not understood: %s" % (expr_text(l), expr_text(r)))
        lk = self.key(l, st)
        if l.get("k") == "index" and self.key(l["e"], st) == "self." + self.carry:
            st.facts.append(("carry-store", expr_text(l["i"])))
            return [st]
        if lk == "self." + self.size:
            st.facts.append(("carry-index", "=", expr_text(r)))
            return [st]
        if self.mentions(l, st):
            raise Shape("assignment to `%s`" % expr_text(l))
        return [st]


def encoder_fields(ctx):
    s = ctx.src.struct("Base64Encoder")
    if s is None:
        return None
    carry = size = inner = None
    n = None
    for f in s[1]["fields"]:
        m = re.fullmatch(r"\[u8;(\d+)\]", f["ty"].replace(" ", ""))
        if m:
            carry, n = f["name"], int(m.group(1))
        elif f["ty"] == "usize":
            size = f["name"]
        else:
            inner = f["name"]
    if None in (carry, size, inner):
        return None
    return carry, size, inner, n


def expected_char(ref, k, noct):
    """expected index bits (LSB first, 64 wide) of output char k when noct octets are present"""
    bits = []
    for j in range(6):
        o, b = ref["sx"][(k, j)]
        bits.append(("oct%d" % o, b) if o < noct else 0)
    return bits + [0] * 58


def check_emit(ctx, ref, fn, shape, cells, noct, line, enc_table):
    """one emitted quantum with noct carry octets: chars, zero fill, padding"""
    case = [c for c in ref["final_quantum"]["cases"] if c["octets"] == noct][0]
    site = ["%s:%d" % (fn[0], line)]
    if len(cells) != 4:
        ctx.violation("ENC-BITS", fn[1], shape + ":width", "emits %d characters per quantum, RFC 4648 has 4" % len(cells), sites=site)
        return
    for k in range(4):
        c = cells[k]
        if k < case["chars"]:
            exp = expected_char(ref, k, noct)
            got = c[2] if c[0] == "tab" else None
            ctx.instance("ENC-BITS", {"fn": fn[1], "shape": shape, "char": k, "index_bits": bf.render(got[:8]) if got else str(c[:2]),
                                      "rfc": bf.render(exp[:8]), "expr": c[3] if c[0] == "tab" else None})
            if c[0] != "tab":
                ctx.violation("ENC-BITS", fn[1], "%s:char%d" % (shape, k),
                              "character %d of a %d-octet quantum is the constant %r, RFC 4648 needs a data character" % (k, noct, chr(c[1])), sites=site)
            elif c[1] != enc_table:
                ctx.violation("ENC-BITS", fn[1], "%s:char%d" % (shape, k), "character %d is looked up in %s, not in the alphabet table %s" % (k, c[1], enc_table), sites=["%s:%d" % (fn[0], c[4])])
            elif got != exp:
                ctx.violation("ENC-BITS", fn[1], "%s:char%d" % (shape, k),
                              "character %d of a %d-octet quantum is indexed by `%s` = bits [%s]; RFC 4648 §4 needs [%s]" % (
                                  k, noct, c[3], bf.render(got[:8]) + (" (high bits set)" if got[8:] != exp[8:] else ""), bf.render(exp[:8])),
                              sites=["%s:%d" % (fn[0], c[4])])
        else:
            ctx.instance("ENC-PAD", {"fn": fn[1], "shape": shape, "char": k, "cell": str(c[:2])})
            if not (c[0] == "lit" and c[1] == ref["padv"]):
                ctx.violation("ENC-PAD", fn[1], "%s:char%d" % (shape, k),
                              "character %d of a %d-octet final quantum must be '=' (RFC 4648: %d pad characters), found %s" % (
                                  k, noct, case["pads"], repr(chr(c[1])) if c[0] == "lit" else "a data character `%s`" % c[3]), sites=site)


def check_encoder(ctx, ref):
    ctx.rule("ENC-BITS", "each data character of write / finish(1,2,3 octets) is ALPHABET[index] with index bits == RFC 4648 regrouping, zero filled", floor=13)
    ctx.rule("ENC-PAD", "pad positions are '=' (1 octet: 2, 2 octets: 1, 3: 0); nothing is emitted for 0 octets / before the carry is full", floor=5)
    fl = encoder_fields(ctx)
    wr = ctx.src.fn("write", impl_self=r"Base64Encoder.*", impl_trait=r".*Write")
    fi = ctx.src.fn("finish", impl_self=r"Base64Encoder.*")
    if fl is None or wr is None or fi is None:
        ctx.anchor("ENC-BITS", "Base64Encoder", "struct Base64Encoder{inner, [u8;N] carry, usize index} / write / finish not found")
        return None, {}
    carry, size, inner, n = fl
    if n != ref["quantum"]["octets"]:
        ctx.violation("ENC-BITS", "encoder::Base64Encoder", "carry-size", "carry buffer holds %d octets, a quantum has 3" % n)
    pads_by_noct = {}
    tables = set()
    for which, fn in (("write", wr), ("finish", fi)):
        path = "encoder::Base64Encoder::" + which
        w = EncWalk(carry, size, inner, n)
        try:
            finals = w.run_block(fn[1]["body"]["stmts"], [St()])
        except Shape as ex:
            ctx.anchor("ENC-BITS", path, "%s: construct outside the recognised encoder idioms: %s" % (path, ex))
            continue
        tables |= w.tables
        seen = {}
        for s in finals:
            if which == "finish":
                somes = [f for f in s.facts if f[0] == "some"]
                if s.full:
                    raise_shape = "finish binds the whole carry array"
                    ctx.anchor("ENC-BITS", path + "/pattern", raise_shape)
                    continue
                noct = len(somes)
                shape = "finish-%d" % noct
            else:
                full_cond = [f for f in s.facts if f[0] == "cond" and f[1] == ("size", "==", n) and f[2] is True]
                noct = n if (s.full and full_cond) else (None if s.full else 0)
                if noct is None:
                    ctx.violation("ENC-BITS", path, "carry-read-unguarded", "the carry array is read as a full quantum on a path not guarded by `%s == %d`" % (size, n), sites=[fn[0]])
                    continue
                shape = "write-full" if noct else "write-partial"
            seen.setdefault(shape, 0)
            seen[shape] += 1
            if noct == 0:
                ctx.instance("ENC-PAD", {"fn": path, "shape": shape, "emits": len(s.emits)})
                if s.emits:
                    ctx.violation("ENC-PAD", path, shape + ":emit", "a quantum is emitted although no complete/partial group is pending", sites=["%s:%d" % (fn[0], s.emits[0][1])])
                continue
            if len(s.emits) != 1:
                ctx.violation("ENC-BITS", path, shape + ":emit-count", "%d quanta emitted for %d pending octets (must be exactly one)" % (len(s.emits), noct), sites=["%s:%d" % (fn[0], fn[1]["line"])])
                continue
            cells, line, recv = s.emits[0]
            if recv != "self." + inner:
                ctx.violation("ENC-BITS", path, shape + ":sink", "quantum written to %s, not to the inner writer" % recv, sites=["%s:%d" % (fn[0], line)])
            check_emit(ctx, ref, (fn[0], path), shape, cells, noct, line, sorted(w.tables)[0] if len(w.tables) == 1 else None)
            pads_by_noct.setdefault(noct, set()).add(sum(1 for c in cells if c[0] == "lit" and c[1] == ref["padv"]))
        want = {"finish": {"finish-0", "finish-1", "finish-2", "finish-3"}, "write": {"write-full", "write-partial"}}[which]
        for m in sorted(want - set(seen)):
            ctx.violation("ENC-BITS", path, m + ":missing", "no path of %s handles the case %s" % (path, m), sites=["%s:%d" % (fn[0], fn[1]["line"])])
    if len(tables) != 1:
        ctx.anchor("ENC-BITS", "alphabet-table", "encoder indexes %s; expected exactly one alphabet table" % sorted(tables))
        return None, pads_by_noct
    return sorted(tables)[0], pads_by_noct


# =============================================================================================
# (b) decoder: 4 -> 3 regrouping and size-from-padding, over the source tree
# =============================================================================================
def param_name(fn):
    ins = [i for i in fn["sig"]["inputs"] if i["name"] != "self"]
    if len(ins) == 1 and ins[0]["ty"].replace(" ", "") == "[u8;4]":
        return ins[0]["name"]
    return None


def check_decode_bits(ctx, ref, fnname):
    ctx.rule("DEC-BITS", "each of the 3 bytes returned by the 4->3 function has the RFC 4648 bit provenance over DECODE[chunk[k]] (24 bits)", floor=3)
    f = ctx.src.fn(fnname, impl_self=r"Base64Decoder.*")
    path = "decoder::Base64Decoder::" + fnname
    if f is None or param_name(f[1]) is None:
        ctx.anchor("DEC-BITS", path, "4->3 function with a single [u8;4] parameter not found")
        return None
    chunk = param_name(f[1])
    env = {"%s[%d]" % (chunk, k): bf.sym("c%d" % k, 8) for k in range(4)}
    tables = set()
    stmts = f[1]["body"]["stmts"]
    result = None
    try:
        for i, st in enumerate(stmts):
            if st["k"] == "let":
                init = st.get("init") or {}
                if st["pat"].get("k") == "ident" and init.get("k") == "index" and init["e"].get("k") == "path" and init["e"]["p"] not in env and init["e"]["p"] != chunk:
                    idx = bf.provenance(init["i"], env, 64)
                    ks = [k for k in range(4) if idx == bf.zext(bf.sym("c%d" % k, 8), 64)]
                    if len(ks) != 1:
                        raise Shape("table index `%s` is not exactly one chunk byte" % expr_text(init["i"]))
                    tables.add(init["e"]["p"])
                    env[st["pat"]["name"]] = bf.sym("sx%d" % ks[0], 8, valbits=6)
                else:
                    bf.bind_let(st, env)
            elif st["k"] == "expr" and i == len(stmts) - 1 and not st.get("semi") and st["e"].get("k") == "array":
                result = [bf.provenance(x, env, 8) for x in st["e"]["elems"]]
            else:
                raise Shape("statement `%s` not understood" % st["k"])
    except (Shape, bf.BitflowError, KeyError) as ex:
        ctx.anchor("DEC-BITS", path, "%s: outside the recognised decoder idioms: %s" % (path, ex))
        return None
    site = ["%s:%d" % (f[0], f[1]["line"])]
    if result is None or len(result) != 3:
        ctx.anchor("DEC-BITS", path + "/result", "the function does not end in a 3-element array expression")
        return None
    for m in range(3):
        exp = [("sx%d" % ref["oc"][(m, b)][0], ref["oc"][(m, b)][1]) for b in range(8)]
        ctx.instance("DEC-BITS", {"fn": path, "byte": m, "bits": bf.render(result[m]), "rfc": bf.render(exp)})
        if result[m] != exp:
            ctx.violation("DEC-BITS", path, "byte%d" % m,
                          "decoded byte %d has bits [%s] (sxK = 6-bit value of character K); RFC 4648 §4 needs [%s]" % (m, bf.render(result[m]), bf.render(exp)), sites=site)
    if len(tables) != 1:
        ctx.anchor("DEC-BITS", "decode-table", "decoder indexes %s; expected exactly one table" % sorted(tables))
        return None
    return sorted(tables)[0]


def eval_size_fn(fn, chunk, ispad, padv):
    """evaluate the size-from-padding function for a chunk whose byte k is '=' iff ispad[k]"""
    names = {}

    def cond(c):
        k = c.get("k")
        if k == "bin" and c["op"] in ("&&", "||"):
            a, b = cond(c["l"]), cond(c["r"])
            return (a and b) if c["op"] == "&&" else (a or b)
        if k == "un" and c["op"] == "!":
            return not cond(c["e"])
        if k == "bin" and c["op"] in ("==", "!="):
            l, r = c["l"], c["r"]
            if lit_int(l) is not None:
                l, r = r, l
            key = bf.key_of(l)
            if lit_int(r) != padv or key not in names:
                raise Shape("condition `%s` is not a comparison of a chunk byte with '='" % expr_text(c))
            v = ispad[names[key]]
            return v if c["op"] == "==" else not v
        raise Shape("condition `%s`" % expr_text(c))

    def val(e):
        k = e.get("k")
        if k == "lit":
            return lit_int(e)
        if k == "if":
            if cond(e["cond"]):
                return block(e["then"]["stmts"])
            if e.get("else") is None:
                raise Shape("if without else in value position")
            return val(e["else"])
        if k == "block":
            return block(e["stmts"])
        if k == "return" and e.get("e") is not None:
            return val(e["e"])
        raise Shape("value `%s`" % expr_text(e))

    def block(stmts):
        for i, st in enumerate(stmts):
            if st["k"] == "let" and st["pat"].get("k") == "slice" and bf.key_of(st.get("init") or {}) == chunk:
                for j, p in enumerate(st["pat"]["elems"]):
                    if p.get("k") == "ident":
                        names[p["name"]] = j
                    elif p.get("k") != "wild":
                        raise Shape("chunk pattern")
            elif st["k"] == "expr" and i == len(stmts) - 1:
                return val(st["e"])
            elif st["k"] == "expr" and st["e"].get("k") == "if" and st["e"].get("else") is None:
                if cond(st["e"]["cond"]):
                    return block(st["e"]["then"]["stmts"])
            else:
                raise Shape("statement `%s`" % st["k"])
        raise Shape("no value")

    for k in range(4):
        names["%s[%d]" % (chunk, k)] = k
    return block(fn["body"]["stmts"])


def check_padding(ctx, ref, pads_by_noct, fnname):
    ctx.rule("PAD-AGREE", "n leftover octets <-> 3-n '=' in finish <-> size-from-padding returns n (n = 1,2,3)", floor=3)
    f = ctx.src.fn(fnname, impl_self=r"Base64Decoder.*")
    path = "decoder::Base64Decoder::" + fnname
    if f is None or param_name(f[1]) is None:
        ctx.anchor("PAD-AGREE", path, "size-from-padding function with a single [u8;4] parameter not found")
        return
    chunk = param_name(f[1])
    for case in ref["final_quantum"]["cases"]:
        n, p = case["octets"], case["pads"]
        ispad = [k >= 4 - p for k in range(4)]
        try:
            got = eval_size_fn(f[1], chunk, ispad, ref["padv"])
        except Shape as ex:
            ctx.anchor("PAD-AGREE", path, "%s: outside the recognised idioms: %s" % (path, ex))
            return
        enc = sorted(pads_by_noct.get(n, []))
        ctx.instance("PAD-AGREE", {"octets": n, "rfc_pads": p, "finish_pads": enc, "decoded_size": got})
        if got != n:
            ctx.violation("PAD-AGREE", path, "pads%d" % p,
                          "a final quantum with %d '=' carries %d octets (RFC 4648 §4), %s returns %s" % (p, n, fnname, got), sites=["%s:%d" % (f[0], f[1]["line"])])
        if enc and enc != [p]:
            ctx.violation("PAD-AGREE", "encoder::Base64Encoder::finish", "pads%d" % p,
                          "finish emits %s '=' for %d leftover octets, RFC 4648 needs %d" % (enc, n, p))


# =============================================================================================
# MIR helpers: small symbolic terms, count values derived from the inner read
# =============================================================================================
def _base_local(o):
    """local of an operand, looking through a `.0` projection of a checked-arithmetic tuple"""
    if o["k"] not in ("copy", "move"):
        return None
    p = o["place"]
    if not p["p"]:
        return p["l"]
    if len(p["p"]) == 1 and p["p"][0]["k"] == "field":
        return p["l"]
    return None


def term(body, o, depth=0):
    """canonical term of an operand: ('c', n) ('var', local) ('arg', n) ('place', str) ('local', l)
    ('add'|'sub', a, b) ('len', place) ('min', a, b) ('call', name, bb)"""
    if o["k"] == "const":
        n = op_const_int(o)
        return ("c", n) if n is not None else ("const", o["c"].get("text"))
    p = o["place"]
    l = p["l"]
    if p["p"] and not (len(p["p"]) == 1 and p["p"][0]["k"] == "field" and body.local_ty(l).startswith("(")):
        return ("place", resolve_place(body, p))
    if 0 < l <= body.arg_count:
        return ("arg", l)
    ds = body.defs_of(l)
    if len(ds) != 1 or depth > 20:
        return ("var", l)
    bb, si, rv = ds[0]
    if si == "term":
        nm = callee_name(rv) or "<indirect>"
        if re.search(r"slice::<impl \[T\]>::len$", nm):
            return ("len", arg_place(body, rv, 0))
        if re.search(r"(^|::)cmp::(Ord::)?min$", nm) and len(rv["args"]) == 2:
            a, b = term(body, rv["args"][0], depth + 1), term(body, rv["args"][1], depth + 1)
            return ("min",) + tuple(sorted([a, b], key=repr))
        return ("call", nm, bb)
    if rv["k"] == "use":
        return term(body, rv["a"], depth + 1)
    if rv["k"] == "bin" and rv["op"] in ("Add", "AddWithOverflow", "Sub", "SubWithOverflow"):
        a, b = term(body, rv["a"], depth + 1), term(body, rv["b"], depth + 1)
        if rv["op"].startswith("Add"):
            return ("add",) + tuple(sorted([a, b], key=repr))
        return ("sub", a, b)
    return ("local", l)


def add_of(a, b):
    return ("add",) + tuple(sorted([a, b], key=repr))


def agg_def(body, o):
    """aggregate rvalue defining a bare-local operand (single def)"""
    l = op_local(o)
    if l is None:
        return None
    ds = body.defs_of(l)
    if len(ds) == 1 and ds[0][1] != "term" and ds[0][2]["k"] == "agg":
        return ds[0][2]
    return None


def call_def(body, o, depth=0):
    """the call terminator whose result the operand (a reference chain) denotes"""
    l = op_local(o)
    while l is not None and depth < 10:
        ds = body.defs_of(l)
        if len(ds) != 1:
            return None
        bb, si, rv = ds[0]
        if si == "term":
            return rv
        if rv["k"] == "use":
            l = op_local(rv["a"])
        elif rv["k"] == "ref":
            p = rv["place"]
            if len(p["p"]) == 1 and p["p"][0]["k"] == "deref":
                l = p["l"]
            else:
                return None
        else:
            return None
        depth += 1
    return None


CMP = {"Eq": lambda a, b: a == b, "Ne": lambda a, b: a != b, "Lt": lambda a, b: a < b, "Le": lambda a, b: a <= b,
       "Gt": lambda a, b: a > b, "Ge": lambda a, b: a >= b}


class Counts:
    """values of one body that are the byte count of an inner `Read::read` call c: `direct` (the result
    itself through moves / `?`) or `acc` (sums of such counts and constants: an accumulator)"""

    def __init__(self, body, c_bb, quantum):
        self.body, self.c_bb, self.q = body, c_bb, quantum
        self.direct = set()
        for l in range(body.arg_count + 1, len(body.locals)):
            og = origins(body, {"k": "copy", "place": {"l": l, "p": []}})
            if og and all(o[0] == "call" and o[1] == c_bb for o in og):
                self.direct.add(l)
        cand = {}
        for l in range(body.arg_count + 1, len(body.locals)):
            if l in self.direct:
                continue
            ds = body.defs_of(l)
            if not ds:
                continue
            ops = set()
            ok = True
            for bb, si, rv in ds:
                if si == "term":
                    ok = False
                    break
                if rv["k"] == "use":
                    srcs = [rv["a"]]
                elif rv["k"] == "bin" and rv["op"] in ("Add", "AddWithOverflow"):
                    srcs = [rv["a"], rv["b"]]
                else:
                    ok = False
                    break
                for s in srcs:
                    if s["k"] == "const":
                        if op_const_int(s) is None:
                            ok = False
                    else:
                        bl = _base_local(s)
                        if bl is None:
                            ok = False
                        else:
                            ops.add(bl)
            if ok:
                cand[l] = ops
        changed = True
        while changed:
            changed = False
            for l in list(cand):
                if any(o not in cand and o not in self.direct for o in cand[l]):
                    del cand[l]
                    changed = True
        dep = set()
        changed = True
        while changed:
            changed = False
            for l, ops in cand.items():
                if l not in dep and any(o in self.direct or o in dep for o in ops):
                    dep.add(l)
                    changed = True
        self.acc = dep
        self.cmps = self._cmps()

    def cls(self, o):
        if o["k"] == "const":
            n = op_const_int(o)
            return ("const", n) if n is not None else None
        l = op_local(o)
        if l is None:
            return None
        if l in self.direct:
            return ("direct",)
        if l in self.acc:
            return ("acc",)
        og = origins(self.body, o)
        if og and all(x[0] == "call" and re.search(r"slice::<impl \[T\]>::len$|::len$", x[2]) for x in og):
            return ("len",)
        return None

    def _cmps(self):
        out = []
        b = self.body
        for bb, si, s in b.assigns():
            rv = s["rv"]
            if rv["k"] != "bin" or rv["op"] not in CMP:
                continue
            ca, cb = self.cls(rv["a"]), self.cls(rv["b"])
            flip = False
            if ca and ca[0] in ("const", "len") and cb and cb[0] in ("direct", "acc"):
                ca, cb, flip = cb, ca, True
            if not (ca and ca[0] in ("direct", "acc") and cb and cb[0] in ("const", "len")):
                continue
            bound = cb[1] if cb[0] == "const" else self.q
            t = b.blocks[bb]["term"]
            sw = t if (t["k"] == "switch" and op_local(t["d"]) == s["place"]["l"] and not s["place"]["p"]) else None
            out.append({"bb": bb, "kind": ca[0], "op": rv["op"], "flip": flip, "bound": bound, "bound_kind": cb[0], "switch": sw, "line": s["line"]})
        # switches directly on a count (match n { 0 => .., 4 => .., _ => .. })
        for bb, t in b.terms():
            if t["k"] == "switch" and t.get("dty") != "bool":
                c = self.cls(t["d"])
                if c and c[0] in ("direct", "acc"):
                    # a match that only singles out 0 is an EOF test (bound 0); otherwise the largest listed
                    # non-zero value plays the role of the requested length
                    nz = [int(v) for v in t["vals"] if int(v) != 0]
                    out.append({"bb": bb, "kind": c[0], "op": "switch", "flip": False, "bound": max(nz) if nz else 0, "bound_kind": "match", "switch": t, "line": t.get("line", 0)})
        return out

    def target(self, cmp, n):
        """successor taken when the count is n (None: the comparison result is not branched on here)"""
        t = cmp["switch"]
        if t is None:
            return None
        if cmp["op"] == "switch":
            v = str(n)
        else:
            a, b = (cmp["bound"], n) if cmp["flip"] else (n, cmp["bound"])
            v = "1" if CMP[cmp["op"]](a, b) else "0"
        if v in t["vals"]:
            return t["targets"][t["vals"].index(v)]
        return t["otherwise"]

    def short_targets(self, cmp):
        hi = cmp["bound"] if cmp["bound"] else self.q
        return {self.target(cmp, n) for n in range(1, max(hi, 2))}


def retry_loop(body, cfg, cnt, errs):
    """innermost natural loop around the read call; ok iff every exit edge is: read returned 0 (EOF),
    the accumulated count reached the requested length (full), or the read's own error (`?`)."""
    loops = [(len(b), h, b) for h, b in cfg.loops().items() if cnt.c_bb in b]
    if not loops:
        return None
    _, h, blocks = min(loops)
    kinds = []
    ok = True
    for x in sorted(blocks):
        for s in cfg.succ[x]:
            if s in blocks or body.blocks[s]["term"]["k"] == "unreachable":
                continue
            kind = "other"
            for c in cnt.cmps:
                if c["bb"] != x or c["switch"] is None:
                    continue
                if c["op"] == "switch":
                    if cnt.target(c, 0) == s and all(cnt.target(c, n) != s for n in (1, 2, 3)):
                        kind = "eof"
                elif c["bound"] == 0:
                    if cnt.target(c, 0) == s and all(cnt.target(c, n) != s for n in (1, 2, 3)):
                        kind = "eof"
                elif c["bound"] == cnt.q and cnt.target(c, c["bound"]) == s and all(cnt.target(c, n) in blocks for n in range(1, c["bound"])):
                    kind = "full"       # only the requested length (one quantum) counts as full
            if kind == "other" and s in errs:
                t = body.blocks[x]["term"]
                if t["k"] == "switch":
                    dl = op_local(t["d"])
                    for bb, si, rv in body.defs_of(dl) if dl is not None else []:
                        if si != "term" and rv["k"] == "discr" and rv["place"]["l"] in cnt.direct:
                            kind = "error"
            kinds.append((x, s, kind))
            if kind == "other":
                ok = False
    return {"ok": ok, "header": h, "blocks": blocks, "exits": kinds}


# =============================================================================================
# (d) short-read rule, (e) length error
# =============================================================================================
def check_reads(ctx, ref, dec4, dsize):
    prog = ctx.prog
    q = ref["quantum"]["sextets"]
    ctx.rule("SHORT-READ", "count of the inner Read::read is not compared with the requested length on the way to an error, unless read sits in a retry-until-full-or-EOF loop", floor=2)
    ctx.rule("LEN-ERROR", "explicit length error exists, is guarded by count != 0 and count < 4, a partial quantum always reaches it, and read() propagates it", floor=5)
    bodies = [b for b in prog.bodies if b.impl_self and re.search(r"(^|::)Base64Decoder\b", b.impl_self)]
    found = 0
    for body in bodies:
        reads = [(bb, t) for bb, t in body.calls() if call_matches(t, r"^std::io::Read::read$") or call_matches(t, r" as std::io::Read>::read$")]
        if not reads:
            continue
        cfg = body.cfg()
        errs = err_return_blocks(body)
        oks = ok_return_blocks(body)
        explicit = set()
        for i, si, s in body.assigns():
            if s["place"]["l"] == 0 and not s["place"]["p"] and s["rv"]["k"] == "agg" and s["rv"].get("variant") == "Err":
                explicit.add(i)
        decode_bbs = {bb for bb, t in body.calls() if call_matches(t, r"Base64Decoder::<R>::(%s|%s)$" % (re.escape(dec4 or "?"), re.escape(dsize or "?")))}
        for c_bb, t in reads:
            found += 1
            site = "%s:%d" % (body.file, t["line"])
            cnt = Counts(body, c_bb, q)
            rl = retry_loop(body, cfg, cnt, errs)
            ctx.instance("SHORT-READ", {"fn": body.path, "read_call": site, "buffer": arg_place(body, t, 1),
                                        "retry_loop": None if rl is None else {"ok": rl["ok"], "exits": [list(e) for e in rl["exits"]]},
                                        "count_locals": sorted(cnt.direct), "accumulators": sorted(cnt.acc)})
            for c in cnt.cmps:
                if c["bound"] == 0:
                    continue
                if c["switch"] is None:
                    ctx.anchor("SHORT-READ", body.path + "/comparison", "a comparison of the read count is not branched on directly (not understood)")
                    continue
                bad = set()
                for tgt in cnt.short_targets(c):
                    if tgt is not None and cfg.reachable_from(tgt, removed={c_bb}) & errs:
                        bad.add(tgt)
                ctx.instance("SHORT-READ", {"fn": body.path, "cmp": "%s %s %s" % (c["kind"], c["op"], c["bound"] if c["bound_kind"] != "len" else "len"),
                                            "line": c["line"], "short_edge_reaches_error": bool(bad)})
                if not bad:
                    continue
                csite = "%s:%d" % (body.file, c["line"])
                if c["kind"] == "direct":
                    ctx.violation("SHORT-READ", body.path, "short-read-is-error",
                                  "the byte count returned by one inner read() is compared with %s and a smaller non-zero count leads to an error return; "
                                  "a reader may legally return fewer bytes than requested (e.g. one byte per read: \"TWFu\" fails to decode). "
                                  "The call is not in a loop that retries until the buffer is full or read returns 0%s" % (
                                      c["bound"] if c["bound_kind"] == "const" else "the buffer length",
                                      "" if rl is None else " (loop exits: %s)" % sorted({k for _, _, k in rl["exits"]})),
                                  sites=[site, csite])
                elif rl is None or not rl["ok"] or c["bb"] in rl["blocks"]:
                    ctx.violation("SHORT-READ", body.path, "partial-count-without-retry-loop",
                                  "an accumulated read count is tested against %s on the way to an error, but the read call is not inside a loop whose only exits are "
                                  "EOF (count 0), buffer full, or the read's own error" % c["bound"], sites=[site, csite])
            # ---- (e)
            ctx.instance("LEN-ERROR", {"fn": body.path, "explicit_error_blocks": sorted(explicit)})
            if not explicit:
                ctx.violation("LEN-ERROR", body.path, "missing", "no explicit error is constructed: text whose length is not a multiple of four would be truncated silently", sites=[site])
                continue
            g0 = g4 = None
            for c in cnt.cmps:
                if c["switch"] is None:
                    continue
                sts = {cnt.target(c, n) for n in range(1, q)}
                if len(sts) != 1:
                    continue
                tgt = next(iter(sts))
                if tgt is None or not all(cfg.edge_dominates(c["bb"], tgt, e) for e in explicit):
                    continue
                if cnt.target(c, 0) != tgt and (c["bound"] == 0 or c["op"] == "switch"):
                    g0 = (c, tgt)
                if cnt.target(c, q) != tgt and (c["bound"] == q or c["op"] == "switch"):
                    g4 = (c, tgt)
            esites = ["%s:%d" % (body.file, max([x.get("line", 0) for x in body.blocks[e]["stmts"]] + [0])) for e in sorted(explicit)]
            ctx.instance("LEN-ERROR", {"fn": body.path, "guard_nonzero": None if g0 is None else "bb%d line %d" % (g0[0]["bb"], g0[0]["line"])})
            if g0 is None:
                ctx.violation("LEN-ERROR", body.path, "not-guarded-by-nonzero", "the length error is not dominated by the outcome `count != 0` of a test of the byte count: a clean EOF could be reported as an error", sites=esites)
            ctx.instance("LEN-ERROR", {"fn": body.path, "guard_partial": None if g4 is None else "bb%d line %d" % (g4[0]["bb"], g4[0]["line"])})
            if g4 is None:
                ctx.violation("LEN-ERROR", body.path, "not-guarded-by-partial", "the length error is not dominated by the outcome `count in 1..3` of a test of the byte count against %d: a trailing partial quantum is not what triggers it" % q, sites=esites)
            else:
                c, tgt = g4
                exits = set(oks) | {c_bb} | decode_bbs
                ok, wit = cfg.must_pass(explicit, exits=exits, start=tgt)
                ctx.instance("LEN-ERROR", {"fn": body.path, "partial_always_errors": ok})
                if not ok:
                    ctx.violation("LEN-ERROR", body.path, "partial-accepted", "with 1..3 bytes obtained a path avoids the error (blocks %s): a trailing partial quantum can be accepted silently" % wit, sites=esites)
    if not found:
        ctx.anchor("SHORT-READ", "inner-read", "no call of the inner reader's Read::read found in Base64Decoder")
        return
    # propagation through Read::read of the decoder
    rds = prog.method(r"(^|::)Base64Decoder\b", "read", r"Read")
    fill_paths = {b.path for b in bodies if any(call_matches(t, r"^std::io::Read::read$") for _, t in b.calls())}
    if len(rds) != 1:
        ctx.anchor("LEN-ERROR", "Base64Decoder::read")
        return
    rd = rds[0]
    prop = False
    ncalls = 0
    for bb, t in rd.calls():
        if callee_name(t) in fill_paths:
            ncalls += 1
    for bb, t in rd.calls():
        if call_matches(t, r"FromResidual.*::from_residual$") and t["dest"]["l"] == 0:
            og = origins(rd, t["args"][0])
            if og and all(o[0] == "call" and o[2] in fill_paths for o in og):
                prop = True
    # path form: once the filling function has returned Err, read() cannot return Ok without asking it again
    rcfg = rd.cfg()
    fill_blocks = [bb for bb, t in rd.calls() if callee_name(t) in fill_paths]
    oks_rd = set(ok_return_blocks(rd))
    swallowed = []
    n_tested = 0
    for x, blk in enumerate(rd.blocks):
        t = blk["term"]
        if t["k"] != "switch":
            continue
        e = fexpr(rd, t["d"])
        m1 = re.fullmatch(r"discr\((.*)\)", e)
        if not m1:
            continue
        inner = m1.group(1)
        via_branch = re.fullmatch(r"Try::branch\((.*)\)", inner)
        src_e = via_branch.group(1) if via_branch else inner
        if not any(src_e == fexpr(rd, {"k": "copy", "place": rd.blocks[fb]["term"]["dest"]}) for fb in fill_blocks):
            continue
        n_tested += 1
        succs = list(zip(t["vals"], t["targets"])) + [(None, t["otherwise"])]
        err_targets = [tg for v, tg in succs if v == "1"] or ([t["otherwise"]] if "0" in t["vals"] and len(t["vals"]) == 1 else [])
        for tg in err_targets:
            reach = rcfg.reachable_from(tg, removed=fill_blocks)
            bad = sorted(reach & oks_rd)
            ctx.instance("LEN-ERROR", {"fn": rd.path, "err_edge": "bb%d->bb%d" % (x, tg), "reaches_ok_return": bad})
            if bad:
                swallowed.append((x, tg, bad))
    if swallowed:
        ctx.violation("LEN-ERROR", rd.path, "error-path-returns-ok", "after the buffer-filling function returned Err, read() can still return Ok (edges %s): "
                      "the length error is consumed and the stream ends as if complete" % ["bb%d->bb%d" % (a, b_) for a, b_, _ in swallowed], sites=[rd.loc])
    ctx.instance("LEN-ERROR", {"fn": rd.path, "fill_calls": ncalls, "error_propagated": prop})
    if ncalls == 0 and rd.path not in fill_paths:
        ctx.anchor("LEN-ERROR", "read/fill-call", "Base64Decoder::read does not call the buffer-filling function")
    elif n_tested == 0 and rd.path not in fill_paths:
        ctx.violation("LEN-ERROR", rd.path, "not-propagated", "the result of the buffer-filling function is not inspected by read() (no Ok/Err test of it): a length error would be swallowed", sites=[rd.loc])


# =============================================================================================
# (c) streaming-state shape on MIR: encoder carry index, decoder copy = min(available, room)
# =============================================================================================
def check_carry(ctx, ref, fields):
    prog = ctx.prog
    ctx.rule("CARRY", "write: byte stored at carry[index], index += 1, reset to 0 exactly on the `index == 3` edge after the quantum is emitted; new(): index 0; Ok(buf.len())", floor=7)
    ws = prog.method(r"(^|::)Base64Encoder\b", "write", r"Write")
    if len(ws) != 1 or fields is None:
        ctx.anchor("CARRY", "Base64Encoder::write")
        return
    carry, size, inner, n = fields
    b = ws[0]
    cfg = b.cfg()
    SZ = "(*_1).%s" % size
    szw = writes_to_field(b, r"^\(\*_1\)\.%s$" % re.escape(size))
    sz_blocks = {i for (i, si, rp, s) in szw}
    # 1. the store
    stores = [(i, si, s) for i, si, s in b.assigns() if re.fullmatch(r"\(\*_1\)\.%s\[_\d+\]" % re.escape(carry), resolve_place(b, s["place"]))]
    if len(stores) != 1:
        ctx.violation("CARRY", b.path, "store-count", "expected exactly one store into the carry buffer per input byte, found %d" % len(stores), sites=[b.loc])
        return
    st_bb, st_si, st = stores[0]
    il = st["place"]["p"][-1]["l"]
    it = term(b, {"k": "copy", "place": {"l": il, "p": []}})
    ds = b.defs_of(il)
    ctx.instance("CARRY", {"fn": b.path, "store_index": it, "line": st["line"]})
    between = cfg.reachable_from(ds[0][0], removed={st_bb}) & sz_blocks if len(ds) == 1 else {-1}
    if it != ("place", SZ) or between:
        ctx.violation("CARRY", b.path, "store-index", "the input byte is not stored at carry[%s] (index term %s%s)" % (size, it, ", index modified before the store" if between else ""), sites=["%s:%d" % (b.file, st["line"])])
    vo = origins(b, st["rv"]["a"]) if st["rv"]["k"] == "use" else set()
    nexts = [b.blocks[o[1]]["term"] for o in vo if o[0] == "call" and re.search(r"Iterator>::next$|Iterator::next$", o[2])]
    src_ok = bool(nexts) and len(nexts) == len(vo)
    for t in nexts:
        og = origins(b, t["args"][0], through=[r"Iterator::(copied|cloned)$", r"IntoIterator>::into_iter$", r"slice::<impl \[T\]>::iter$"])
        if og != {("place", "(*_2)")}:
            src_ok = False
    ctx.instance("CARRY", {"fn": b.path, "stored_value": sorted(map(str, vo)), "iterates_buf": src_ok})
    if not src_ok:
        ctx.violation("CARRY", b.path, "store-value", "the stored byte is not the next element of an in-order iteration of the `buf` argument", sites=["%s:%d" % (b.file, st["line"])])
    # 2. writes of the index
    incs, resets, other = [], [], []
    for (i, si, rp, s) in szw:
        rv = s.get("rv")
        if rv is None:
            other.append((i, s))
        elif rv["k"] == "use" and op_const_int(rv["a"]) == 0:
            resets.append((i, si, s))
        elif rv["k"] == "use" and term(b, rv["a"]) == add_of(("place", SZ), ("c", 1)):
            incs.append((i, si, s))
        else:
            other.append((i, s))
    ctx.instance("CARRY", {"fn": b.path, "index_increments": len(incs), "index_resets": len(resets), "other_index_writes": len(other)})
    if len(incs) != 1 or other or not cfg.dominates(st_bb, incs[0][0] if incs else 0):
        ctx.violation("CARRY", b.path, "increment", "the carry index is not advanced by exactly 1 once after each stored byte (increments %d, other writes %d)" % (len(incs), len(other)), sites=[b.loc])
        return
    inc_bb, inc_si, _ = incs[0]
    # 3. test == n after the increment, reset on that edge only and on every continuing path
    tests = []
    for i, si, s in b.assigns():
        rv = s["rv"]
        if rv["k"] == "bin" and rv["op"] == "Eq":
            ta, tb = term(b, rv["a"]), term(b, rv["b"])
            if {ta, tb} == {("place", SZ), ("c", n)}:
                t = b.blocks[i]["term"]
                if t["k"] == "switch" and op_local(t["d"]) == s["place"]["l"]:
                    true_t = t["targets"][t["vals"].index("1")] if "1" in t["vals"] else t["otherwise"]
                    tests.append((i, si, true_t, s["line"]))
    good = [x for x in tests if (x[0] == inc_bb and x[1] > inc_si) or (x[0] != inc_bb and cfg.dominates(inc_bb, x[0]) and not (cfg.reachable_from(inc_bb, removed={x[0]}) & (sz_blocks - {inc_bb})))]
    ctx.instance("CARRY", {"fn": b.path, "full_test_blocks": [x[0] for x in good]})
    if len(good) != 1:
        ctx.violation("CARRY", b.path, "full-test", "no unique test `%s == %d` right after the increment" % (size, n), sites=[b.loc])
        return
    eq_bb, _, T, eq_line = good[0]
    heads = {h for h, body in cfg.loops().items() if st_bb in body}
    oks = ok_return_blocks(b)
    emits = [bb for bb, t in b.calls() if call_matches(t, r"^std::io::Write::write_all$|Write>::write_all$") and arg_place(b, t, 0) == "(*_1).%s" % inner]
    ctx.instance("CARRY", {"fn": b.path, "reset_blocks": [r[0] for r in resets], "emit_blocks": emits})
    if len(resets) != 1:
        ctx.violation("CARRY", b.path, "reset-missing" if not resets else "reset-count",
                      "the carry index is reset to 0 at %d places; it must be reset exactly where it reaches %d (otherwise the next byte is stored out of bounds / the group is emitted again)" % (len(resets), n),
                      sites=["%s:%d" % (b.file, eq_line)])
    else:
        r_bb = resets[0][0]
        if not cfg.edge_dominates(eq_bb, T, r_bb):
            ctx.violation("CARRY", b.path, "reset-unguarded", "the carry index is reset on a path where it has not reached %d: pending bytes are dropped" % n, sites=["%s:%d" % (b.file, resets[0][2]["line"])])
        ok, wit = cfg.must_pass({r_bb}, exits=heads | oks, start=T)
        if not ok:
            ctx.violation("CARRY", b.path, "reset-skipped", "after the index reached %d a path continues without resetting it (blocks %s)" % (n, wit), sites=["%s:%d" % (b.file, eq_line)])
        if len(emits) != 1 or not cfg.edge_dominates(eq_bb, T, emits[0]) or not cfg.must_pass({emits[0]}, exits={r_bb}, start=T)[0]:
            ctx.violation("CARRY", b.path, "emit", "the quantum is not written to the inner writer exactly once between `index == %d` and the reset" % n, sites=[b.loc])
    # 4. constructor literals
    lits = []
    for bd in prog.bodies:
        for i, si, s in bd.assigns():
            rv = s["rv"]
            if rv["k"] == "agg" and rv["ak"] == "adt" and re.search(r"(^|::)Base64Encoder$", rv["adt"]):
                lits.append((bd, s))
    for bd, s in lits:
        rv = s["rv"]
        v = op_const_int(rv["fields"][rv["fnames"].index(size)]) if size in rv.get("fnames", []) else None
        ctx.instance("CARRY", {"literal_in": bd.path, "initial_index": v})
        if v != 0:
            ctx.violation("CARRY", bd.path, "initial-index", "Base64Encoder constructed with carry index %s, must be 0" % v, sites=["%s:%d" % (bd.file, s["line"])])
    if not lits:
        ctx.anchor("CARRY", "Base64Encoder-literal")
    # 5. all of buf is consumed
    rets = [(i, s) for i, si, s in b.assigns() if i in oks and s["place"]["l"] == 0 and s["rv"]["k"] == "agg"]
    for i, s in rets:
        tv = term(b, s["rv"]["fields"][0])
        ctx.instance("CARRY", {"fn": b.path, "ok_value": tv})
        if tv != ("len", "(*_2)"):
            ctx.violation("CARRY", b.path, "ok-value", "write returns %s, not buf.len(): the caller would re-send or skip bytes" % (tv,), sites=["%s:%d" % (b.file, s["line"])])


def range_def(body, call, argi):
    a = agg_def(body, call["args"][argi])
    if a is None or a.get("ak") != "adt":
        return None
    nm = a["adt"].split("::")[-1]
    return nm, [term(body, f) for f in a["fields"]]


def check_read_min(ctx):
    prog = ctx.prog
    ctx.rule("READ-MIN", "read: copies size = min(buffer().len(), out.len() - out_offset) from buffer()[..size] to out[off..off+size], both offsets advance by size; buffer() = buffer[offset..size]", floor=6)
    rds = prog.method(r"(^|::)Base64Decoder\b", "read", r"Read")
    bufs = prog.method(r"(^|::)Base64Decoder\b", "buffer")
    if len(rds) != 1 or len(bufs) != 1:
        ctx.anchor("READ-MIN", "Base64Decoder::read/buffer")
        return
    b, bufb = rds[0], bufs[0]
    copies = [(bb, t) for bb, t in b.calls() if call_matches(t, r"copy_from_slice$")]
    if len(copies) != 1:
        ctx.anchor("READ-MIN", "read/copy_from_slice", "expected exactly one copy_from_slice in read, found %d" % len(copies))
        return
    bb, cp = copies[0]
    site = ["%s:%d" % (b.file, cp["line"])]
    dcall, scall = call_def(b, cp["args"][0]), call_def(b, cp["args"][1])
    if not (dcall and scall and call_matches(dcall, r"IndexMut<I>.*::index_mut$") and call_matches(scall, r"Index<I>.*::index$")):
        ctx.anchor("READ-MIN", "read/copy-operands", "copy operands are not range-indexed slices")
        return
    srng, drng = range_def(b, scall, 1), range_def(b, dcall, 1)
    if not srng or not drng or srng[0] != "RangeTo" or drng[0] != "Range":
        ctx.anchor("READ-MIN", "read/ranges", "source must be `[..size]`, destination `[off..off + size]` (found %s / %s)" % (srng and srng[0], drng and drng[0]))
        return
    size_t = srng[1][0]
    # source slice is the value of self.buffer()
    sl = call_def(b, scall["args"][0])
    src_ok = sl is not None and callee_name(sl) == bufb.path and arg_place(b, sl, 0) == "(*_1)"
    avail = ("len", "(*_%d)" % sl["dest"]["l"]) if src_ok else None
    ctx.instance("READ-MIN", {"fn": b.path, "source": callee_name(sl) if sl else None})
    if not src_ok:
        ctx.violation("READ-MIN", b.path, "source", "the copied bytes are not taken from self.buffer()", sites=site)
        return
    ctx.instance("READ-MIN", {"fn": b.path, "size": size_t})
    off = drng[1][0]
    room = ("sub", ("len", "(*_2)"), off)
    want = ("min",) + tuple(sorted([avail, room], key=repr))
    if size_t != want:
        ctx.violation("READ-MIN", b.path, "size",
                      "the copy length is %s, not min(available = buffer().len(), room = out.len() - out_offset): copy_from_slice panics or bytes are lost when the caller's buffer is smaller/larger than the decoded data" % (size_t,), sites=site)
    ctx.instance("READ-MIN", {"fn": b.path, "dest_range": drng[1]})
    if off[0] != "var" or drng[1][1] != add_of(off, size_t) or arg_place(b, dcall, 0) != "(*_2)":
        ctx.violation("READ-MIN", b.path, "dest-range", "destination is not out[out_offset .. out_offset + size]: %s" % (drng[1],), sites=site)
    # offsets advance by size
    if off[0] == "var":
        defs = [term(b, rv["a"]) if (si != "term" and rv["k"] == "use") else ("?",) for (_, si, rv) in b.defs_of(off[1])]
        ctx.instance("READ-MIN", {"fn": b.path, "out_offset_defs": defs})
        if sorted(defs, key=repr) != sorted([("c", 0), add_of(off, size_t)], key=repr):
            ctx.violation("READ-MIN", b.path, "out-offset", "out_offset is not (0; += size): %s" % (defs,), sites=site)
        rets = [term(b, s["rv"]["fields"][0]) for i, si, s in b.assigns() if i in ok_return_blocks(b) and s["place"]["l"] == 0 and s["rv"]["k"] == "agg"]
        if rets != [off]:
            ctx.violation("READ-MIN", b.path, "ok-value", "read returns %s, not the number of bytes copied" % (rets,), sites=[b.loc])
    # buffer(): &self.buffer[self.buffer_offset..self.buffer_size]
    ic = [t for _, t in bufb.calls() if call_matches(t, r"Index<I>.*::index$")]
    rg = range_def(bufb, ic[0], 1) if len(ic) == 1 else None
    ctx.instance("READ-MIN", {"fn": bufb.path, "range": rg})
    fld = None
    if not (rg and rg[0] == "Range" and rg[1][0][0] == "place" and rg[1][1][0] == "place" and rg[1][0] != rg[1][1]
            and call_def(bufb, {"k": "copy", "place": {"l": 0, "p": []}}) is ic[0]):
        ctx.violation("READ-MIN", bufb.path, "window", "buffer() is not &self.<buf>[self.<offset>..self.<size>]", sites=[bufb.loc])
    else:
        fld = (rg[1][0][1], rg[1][1][1], arg_place(bufb, ic[0], 0))
        w = writes_to_field(b, "^" + re.escape(fld[0]) + "$")
        ts = [term(b, s["rv"]["a"]) if s.get("rv", {}).get("k") == "use" else ("?",) for (_, _, _, s) in w]
        ctx.instance("READ-MIN", {"fn": b.path, "consumed_offset_writes": ts})
        if ts != [add_of(("place", fld[0]), size_t)]:
            ctx.violation("READ-MIN", b.path, "buffer-offset", "%s is not advanced by exactly the copied size: %s" % (fld[0], ts), sites=site)
    return fld


def check_dec_use(ctx, dec4, dsize, fld):
    prog = ctx.prog
    ctx.rule("DEC-USE", "fill: both decode functions get the bytes read; out[..n] is copied to buffer[size..size+n]; size += n (n = size-from-padding)", floor=4)
    fills = [b for b in prog.bodies if b.impl_self and re.search(r"(^|::)Base64Decoder\b", b.impl_self)
             and any(call_matches(t, r"Base64Decoder::<R>::%s$" % re.escape(dec4 or "?")) for _, t in b.calls())]
    if len(fills) != 1 or fld is None:
        ctx.anchor("DEC-USE", "fill-function", "expected one Base64Decoder function calling %s" % dec4)
        return
    b = fills[0]
    d4 = [(bb, t) for bb, t in b.calls() if call_matches(t, r"Base64Decoder::<R>::%s$" % re.escape(dec4))]
    ds = [(bb, t) for bb, t in b.calls() if call_matches(t, r"Base64Decoder::<R>::%s$" % re.escape(dsize or "?"))]
    rd = [(bb, t) for bb, t in b.calls() if call_matches(t, r"^std::io::Read::read$")]
    cps = [(bb, t) for bb, t in b.calls() if call_matches(t, r"copy_from_slice$")]
    if len(d4) != 1 or len(ds) != 1 or not rd or len(cps) != 1:
        ctx.anchor("DEC-USE", b.path + "/calls", "expected one call each of %s, %s, copy_from_slice and an inner read" % (dec4, dsize))
        return
    thr = [r"IndexMut<I>.*::index_mut$", r"Index<I>.*::index$"]
    o4, os_ = origins(b, d4[0][1]["args"][0]), origins(b, ds[0][1]["args"][0])
    ors = [origins(b, t["args"][1], through=thr) for _, t in rd]
    ctx.instance("DEC-USE", {"fn": b.path, "decode_arg": sorted(map(str, o4)), "size_arg": sorted(map(str, os_)), "read_buffers": [sorted(map(str, o)) for o in ors]})
    if not o4 or o4 != os_ or any(o != o4 for o in ors) or not all(o[0] == "rv" for o in o4):
        ctx.violation("DEC-USE", b.path, "decode-args", "the 4->3 function and the size function are not applied to the very array the inner read filled", sites=["%s:%d" % (b.file, d4[0][1]["line"])])
    nterm = ("call", callee_name(ds[0][1]), ds[0][0])
    cp = cps[0][1]
    site = ["%s:%d" % (b.file, cp["line"])]
    dcall, scall = call_def(b, cp["args"][0]), call_def(b, cp["args"][1])
    srng = range_def(b, scall, 1) if scall and call_matches(scall, r"Index<I>.*::index$") else None
    drng = range_def(b, dcall, 1) if dcall and call_matches(dcall, r"IndexMut<I>.*::index_mut$") else None
    ctx.instance("DEC-USE", {"fn": b.path, "src_range": srng})
    if not (srng and srng[0] == "RangeTo" and srng[1] == [nterm] and arg_place(b, scall, 0) == "_%d" % d4[0][1]["dest"]["l"]):
        ctx.violation("DEC-USE", b.path, "source", "the bytes stored are not <4->3 result>[..<size-from-padding>]: %s" % (srng,), sites=site)
    S = ("place", fld[1])
    ctx.instance("DEC-USE", {"fn": b.path, "dst_range": drng})
    if not (drng and drng[0] == "Range" and drng[1] == [S, add_of(S, nterm)] and arg_place(b, dcall, 0) == fld[2]):
        ctx.violation("DEC-USE", b.path, "dest", "the bytes are not stored at buffer[size .. size + n]: %s" % (drng,), sites=site)
    w = [(i, s) for (i, si, rp, s) in writes_to_field(b, "^" + re.escape(fld[1]) + "$")]
    ts = [term(b, s["rv"]["a"]) if s.get("rv", {}).get("k") == "use" else ("?",) for i, s in w]
    adv = [t for t in ts if t != ("c", 0)]
    ctx.instance("DEC-USE", {"fn": b.path, "size_writes": ts})
    if adv != [add_of(S, nterm)]:
        ctx.violation("DEC-USE", b.path, "size-update", "the buffered size is not advanced by exactly the number of decoded bytes: %s" % (ts,), sites=site)


# =============================================================================================
def find_decoder_fns(ctx):
    d4 = ds = None
    for (f, s, tr, it, t) in ctx.src.fns:
        if t or not s or not re.match(r"Base64Decoder\b", s) or param_name(it) is None:
            continue
        out = (it["sig"].get("output") or "").replace(" ", "")
        if out == "[u8;3]":
            d4 = it["name"] if d4 is None else False
        elif out == "usize":
            ds = it["name"] if ds is None else False
    return d4 or None, ds or None


CLAIM = {
    "text": "Static necessary conditions of the streaming base64 codec, decided from the current source facts: the encoder alphabet equals "
            "RFC 4648 Table 1 and the decode table inverts it ('=' -> 0) for all 64 rows; every character emitted by Base64Encoder::write and by "
            "the 1/2/3-octet shapes of finish, and every byte produced by the decoder's 4->3 function, has exactly the RFC 4648 bit provenance "
            "(24 bits per quantum, zero fill, '=' padding whose count agrees with the decoder's size-from-padding function); on MIR the carry "
            "index is stored-at/advanced/reset exactly at 3 after the quantum is written, read copies min(available, room), fill stores the "
            "decoded prefix at the buffered size, the inner Read::read obeys the short-read rule, and the not-a-multiple-of-four error exists, "
            "is guarded by 0 < count < 4, cannot be avoided by a partial quantum and is propagated; two inductive struct invariants (encoder carry "
            "index in 0..=2; decoder 0 <= buffer_offset <= buffer_size <= 64) are proven by abstract interpretation and under them every "
            "overflow / bounds / range / copy_from_slice-length obligation of the codec is discharged (no panic for any input and any chunking, "
            "assuming inner readers obey the Read contract n <= buf.len()). The equality of decoded and encoded bytes beyond these clauses is not decided.",
    "technique": "exhaustive const-table comparison with an RFC 4648 reference, per-bit provenance (bitflow) over a symbolic walk of the syn tree, "
                 "MIR CFG rules (dominators, natural loops, value origins, edge dominance)",
    "design_ref": "DESIGN.md §5 C14",
}


def run(ctx):
    ctx.explanation = (
        "Decides, from the current source facts: (a) the encoder alphabet is RFC 4648 Table 1 (64 rows), DECODE[ENCODE[i]] = i for all i, "
        "DECODE['='] = 0 (exhaustive over the const initialisers); (b) the index of every character emitted by Base64Encoder::write and by the "
        "1/2/3-octet shapes of finish has exactly the RFC 4648 bit provenance (zero filled), pads are '=' and their number agrees with the "
        "decoder's size-from-padding function; the decoder's 4->3 function has the inverse provenance (24 bits); (c-shape) on MIR: bytes are "
        "stored at carry[index], index += 1, reset to 0 exactly on the index == 3 edge after the quantum is written, write returns buf.len(); "
        "read copies min(available, room) and advances both offsets by it; fill stores out[..n] at buffer[size..size+n]; (d) the short-read "
        "rule for every inner Read::read; (e) an explicit length error exists, is guarded by count != 0 and count < 4, is unavoidable for a "
        "partial quantum, and is propagated by read(). NOT decided here: numeric panic-freedom/bounds (clauses c/f: see obligations()), "
        "behaviour of the inner reader/writer, invalid characters (mapped to 0 by the table; outside the property).")
    ctx.assume("MIR of the dev profile is the semantics of the code; std iterator/slice/min semantics are trusted; unwind paths are out of scope")
    ctx.trust("sa/refs/rfc4648.json", "alphabet and 3<->4 regrouping written from RFC 4648 §4")
    ctx.trust("sa/bitflow.py", "exact per-bit provenance for shifts/masks/ors/casts; fails closed on other operators")
    ref = load_ref(ctx)
    enc_name, pads = check_encoder(ctx, ref)
    dec4, dsize = find_decoder_fns(ctx)
    dec_name = check_decode_bits(ctx, ref, dec4) if dec4 else ctx.anchor("DEC-BITS", "4to3-function", "no Base64Decoder fn([u8;4]) -> [u8;3]") and None
    if dsize:
        check_padding(ctx, ref, pads, dsize)
    else:
        ctx.anchor("PAD-AGREE", "size-function", "no Base64Decoder fn([u8;4]) -> usize")
    check_tables(ctx, ref, enc_name, dec_name)
    ctx.exhaustive = {"ALPHABET": "all 64 rows", "DECODE-INVERSE": "all 64 alphabet characters + pad", "ENC-BITS/DEC-BITS": "all 24 bits of every shape"}
    check_carry(ctx, ref, encoder_fields(ctx))
    fld = check_read_min(ctx)
    check_dec_use(ctx, dec4, dsize, fld)
    check_reads(ctx, ref, dec4, dsize)
    obligations(ctx)
