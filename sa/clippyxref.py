"""Thorough-tier cross-reference: every site that clippy's opt-in lints (arithmetic_side_effects, indexing_slicing,
unwrap_used, expect_used, panic, cast_possible_truncation) flag inside a body of the property's reach set must be
present in the obligation inventory of sa/obligations.py (same body, same line).  clippy is only used as an
independent *inventory* — it decides nothing; a gap means the collector misses a kind of site."""
import json
import os
import subprocess
from . import facts, obligations

LINTS = ["arithmetic_side_effects", "indexing_slicing", "unwrap_used", "expect_used", "panic", "cast_possible_truncation"]
_cache = {}


def clippy_sites():
    key = facts.tree_hash()
    if key in _cache:
        return _cache[key]
    env = dict(os.environ, CARGO_NET_OFFLINE="true", CARGO_TARGET_DIR=os.path.join(facts.BUILD, "clippy-target"), RUSTFLAGS="--cap-lints warn")
    cmd = ["cargo", "+nightly", "clippy", "--offline", "--lib", "--message-format=json", "--"]
    for l in LINTS:
        cmd += ["-W", "clippy::" + l]
    # force re-lint of the workspace member
    fp = os.path.join(env["CARGO_TARGET_DIR"], "debug", ".fingerprint")
    if os.path.isdir(fp):
        import shutil
        for d in os.listdir(fp):
            if d.startswith("surf_n_term-"):
                shutil.rmtree(os.path.join(fp, d), ignore_errors=True)
    r = subprocess.run(cmd, cwd=facts.REPO, env=env, stdout=subprocess.PIPE, stderr=subprocess.DEVNULL, text=True)
    sites = []
    for ln in r.stdout.splitlines():
        try:
            m = json.loads(ln)
        except ValueError:
            continue
        if m.get("reason") != "compiler-message":
            continue
        msg = m["message"]
        code = (msg.get("code") or {}).get("code") or ""
        if not code.startswith("clippy::") or code[8:] not in LINTS:
            continue
        for sp in msg.get("spans", []):
            if sp.get("is_primary"):
                sites.append((code[8:], sp["file_name"], sp["line_start"], sp["line_end"], bool(sp.get("expansion"))))
    _cache[key] = sites
    return sites


def run(ctx, rule, bodies, lossy=True):
    """bodies: iterable of Body in the reach set"""
    ctx.rule(rule, "clippy opt-in lint sites inside the reach set are all present in the obligation inventory (same body and line)", floor=10)
    sites = clippy_sites()
    if not sites:
        ctx.anchor(rule, "clippy", "clippy produced no diagnostics (tool not available?)")
        return
    spans = []
    for b in bodies:
        m = b.span.split(":")
        try:
            l0 = int(m[1])
            l1 = int(m[2].split("-")[1]) if "-" in m[2] else l0
        except (IndexError, ValueError):
            continue
        spans.append((b.file, l0, l1, b))
    n = 0
    for lint, f, l0, l1, expanded in sites:
        # innermost body containing the line
        cands = [(e - s, b) for (bf, s, e, b) in spans if bf == f and s <= l0 <= e]
        if not cands:
            continue
        b = min(cands, key=lambda x: x[0])[1]
        lines = set()
        for _, cb in cands:     # the site may belong to the enclosing body of a closure written on the same line
            lines |= {o.line for o in obligations.collect(cb, lossy=True, unsafe=False)}
        # clippy flags `as` casts that the MIR may constant-fold or that widen on 64-bit targets, and float arithmetic (no panic): not gaps
        covered = any(l0 <= ln <= l1 for ln in lines)
        n += 1
        if n <= 400:
            ctx.instance(rule, {"lint": lint, "site": "%s:%d" % (f, l0), "fn": b.path, "in_inventory": covered}, nontrivial=False)
        if not covered and lint in ("indexing_slicing", "unwrap_used", "expect_used", "panic") and not expanded:
            ctx.violation(rule, b.path, "%s-gap" % lint, "clippy::%s flags %s:%d inside %s but the obligation inventory has no site on that line: the collector misses a construct" % (lint, f, l0, b.path), sites=["%s:%d" % (f, l0)])
        elif not covered:
            ctx.note("clippy::%s at %s:%d (%s) has no obligation on that line (float/wrapping arithmetic, widening cast or expansion)" % (lint, f, l0, b.path))
