// mirdump: rustc_private driver used as RUSTC_WORKSPACE_WRAPPER.
// For the primary crate it serialises type-checked MIR (dev profile, mir-opt-level=0)
// of every fn-like body to one JSON file ($MIRDUMP_OUT). No judgement happens here.
#![feature(rustc_private)]
#![allow(clippy::all)]

extern crate rustc_abi;
extern crate rustc_driver;
extern crate rustc_hir;
extern crate rustc_interface;
extern crate rustc_middle;
extern crate rustc_session;
extern crate rustc_span;

use rustc_driver::{Callbacks, Compilation};
use rustc_hir::def::DefKind;
use rustc_hir::def_id::{DefId, LOCAL_CRATE};
use rustc_middle::mir::{
    AggregateKind, AssertKind, BinOp, Body, BorrowKind, CastKind, Const, ConstValue, Operand,
    Place, PlaceRef, ProjectionElem, Rvalue, StatementKind, TerminatorKind, UnOp,
    VarDebugInfoContents,
};
use rustc_middle::ty::{self, Instance, Ty, TyCtxt, TyKind, TypingEnv};
use rustc_span::Span;
use std::fmt::Write as _;

struct Dump;

fn esc(s: &str) -> String {
    let mut o = String::with_capacity(s.len() + 2);
    o.push('"');
    for c in s.chars() {
        match c {
            '"' => o.push_str("\\\""),
            '\\' => o.push_str("\\\\"),
            '\n' => o.push_str("\\n"),
            '\r' => o.push_str("\\r"),
            '\t' => o.push_str("\\t"),
            c if (c as u32) < 0x20 => {
                let _ = write!(o, "\\u{:04x}", c as u32);
            }
            c => o.push(c),
        }
    }
    o.push('"');
    o
}

struct Cx<'tcx, 'a> {
    tcx: TyCtxt<'tcx>,
    body: &'a Body<'tcx>,
    did: DefId,
    tenv: TypingEnv<'tcx>,
}

fn span_str(tcx: TyCtxt<'_>, sp: Span) -> String {
    let sm = tcx.sess.source_map();
    let lo = sm.lookup_char_pos(sp.lo());
    let hi = sm.lookup_char_pos(sp.hi());
    let name = match &lo.file.name {
        rustc_span::FileName::Real(r) => r
            .local_path()
            .map(|p| p.display().to_string())
            .unwrap_or_else(|| format!("{:?}", lo.file.name)),
        other => format!("{:?}", other),
    };
    format!("{}:{}:{}-{}:{}", name, lo.line, lo.col.0 + 1, hi.line, hi.col.0 + 1)
}

fn def_path(tcx: TyCtxt<'_>, did: DefId) -> String {
    tcx.def_path_str(did)
}

fn ty_str(t: Ty<'_>) -> String {
    format!("{}", t)
}

impl<'tcx, 'a> Cx<'tcx, 'a> {
    fn place(&self, p: &Place<'tcx>) -> String {
        let mut o = String::new();
        let _ = write!(o, "{{\"l\":{},\"p\":[", p.local.as_u32());
        let mut first = true;
        for (base, elem) in p.iter_projections() {
            if !first {
                o.push(',');
            }
            first = false;
            o.push_str(&self.proj(base, elem));
        }
        o.push_str("]}");
        o
    }

    fn proj(&self, base: PlaceRef<'tcx>, elem: ProjectionElem<rustc_middle::mir::Local, Ty<'tcx>>) -> String {
        match elem {
            ProjectionElem::Deref => {
                let bt = base.ty(self.body, self.tcx).ty;
                let raw = matches!(bt.kind(), TyKind::RawPtr(..));
                format!("{{\"k\":\"deref\",\"raw\":{}}}", raw)
            }
            ProjectionElem::Field(f, fty) => {
                let pt = base.ty(self.body, self.tcx);
                let mut name = format!("{}", f.as_u32());
                let mut adt = String::new();
                if let TyKind::Adt(def, _) = pt.ty.kind() {
                    adt = def_path(self.tcx, def.did());
                    let v = match pt.variant_index {
                        Some(v) => Some(def.variant(v)),
                        None => {
                            if def.is_struct() || def.is_union() {
                                Some(def.non_enum_variant())
                            } else {
                                None
                            }
                        }
                    };
                    if let Some(v) = v {
                        if let Some(fd) = v.fields.get(f) {
                            name = fd.name.to_string();
                        }
                    }
                }
                format!(
                    "{{\"k\":\"field\",\"i\":{},\"name\":{},\"adt\":{},\"ty\":{}}}",
                    f.as_u32(),
                    esc(&name),
                    esc(&adt),
                    esc(&ty_str(fty))
                )
            }
            ProjectionElem::Index(l) => format!("{{\"k\":\"index\",\"l\":{}}}", l.as_u32()),
            ProjectionElem::ConstantIndex { offset, min_length, from_end } => format!(
                "{{\"k\":\"cindex\",\"offset\":{},\"min_length\":{},\"from_end\":{}}}",
                offset, min_length, from_end
            ),
            ProjectionElem::Subslice { from, to, from_end } => format!(
                "{{\"k\":\"subslice\",\"from\":{},\"to\":{},\"from_end\":{}}}",
                from, to, from_end
            ),
            ProjectionElem::Downcast(sym, v) => {
                let mut name = sym.map(|s| s.to_string()).unwrap_or_default();
                if name.is_empty() {
                    let bt = base.ty(self.body, self.tcx).ty;
                    if let TyKind::Adt(def, _) = bt.kind() {
                        name = def.variant(v).name.to_string();
                    }
                }
                format!("{{\"k\":\"downcast\",\"variant\":{},\"vi\":{}}}", esc(&name), v.as_u32())
            }
            ProjectionElem::OpaqueCast(_) => "{\"k\":\"opaquecast\"}".to_string(),
            ProjectionElem::UnwrapUnsafeBinder(_) => "{\"k\":\"unwrapbinder\"}".to_string(),
        }
    }

    fn konst(&self, c: &Const<'tcx>, sp: Span) -> String {
        let t = c.ty();
        let mut o = String::new();
        let _ = write!(o, "{{\"ty\":{}", esc(&ty_str(t)));
        match t.kind() {
            TyKind::FnDef(did, args) => {
                let _ = write!(o, ",\"fn\":{}", self.fnref(*did, args));
            }
            TyKind::Int(_) | TyKind::Uint(_) | TyKind::Bool | TyKind::Char => {
                if let Some(si) = c.try_eval_scalar_int(self.tcx, self.tenv) {
                    let size = si.size();
                    let bits = si.to_bits(size);
                    let v: i128 = match t.kind() {
                        TyKind::Int(_) => size.sign_extend(bits) as i128,
                        _ => bits as i128,
                    };
                    let _ = write!(o, ",\"int\":\"{}\"", v);
                }
            }
            TyKind::Float(fk) => {
                if let Some(si) = c.try_eval_scalar_int(self.tcx, self.tenv) {
                    let size = si.size();
                    let bits = si.to_bits(size);
                    let f = match fk {
                        ty::FloatTy::F32 => f32::from_bits(bits as u32) as f64,
                        ty::FloatTy::F64 => f64::from_bits(bits as u64),
                        _ => f64::NAN,
                    };
                    let _ = write!(o, ",\"float\":\"{:?}\"", f);
                }
            }
            TyKind::Ref(_, inner, _) => {
                let is_bytes = match inner.kind() {
                    TyKind::Str => true,
                    TyKind::Slice(e) => matches!(e.kind(), TyKind::Uint(ty::UintTy::U8)),
                    _ => false,
                };
                if is_bytes {
                    if let Ok(v) = c.eval(self.tcx, self.tenv, sp) {
                        match v {
                            ConstValue::Slice { .. } | ConstValue::Indirect { .. } => {
                                if let Some(bytes) = v.try_get_slice_bytes_for_diagnostics(self.tcx) {
                                    o.push_str(",\"bytes\":[");
                                    for (i, b) in bytes.iter().enumerate() {
                                        if i > 0 {
                                            o.push(',');
                                        }
                                        let _ = write!(o, "{}", b);
                                    }
                                    o.push(']');
                                }
                            }
                            _ => {}
                        }
                    }
                }
            }
            _ => {}
        }
        if matches!(t.kind(), TyKind::Ref(..) | TyKind::RawPtr(..)) {
            if let Const::Val(ConstValue::Scalar(rustc_middle::mir::interpret::Scalar::Ptr(ptr, _)), _) = c {
                let (prov, _off) = ptr.prov_and_relative_offset();
                if let Some(rustc_middle::mir::interpret::GlobalAlloc::Static(sd)) = self.tcx.try_get_global_alloc(prov.alloc_id()) {
                    let _ = write!(o, ",\"static\":{}", esc(&def_path(self.tcx, sd)));
                }
            }
        }
        if let Const::Unevaluated(u, _) = c {
            let _ = write!(o, ",\"def\":{}", esc(&def_path(self.tcx, u.def)));
            if u.promoted.is_some() {
                o.push_str(",\"promoted\":true");
            }
        }
        let _ = write!(o, ",\"text\":{}}}", esc(&format!("{}", c)));
        o
    }

    fn fnref(&self, did: DefId, args: ty::GenericArgsRef<'tcx>) -> String {
        let tcx = self.tcx;
        let mut o = String::new();
        let _ = write!(o, "{{\"path\":{}", esc(&def_path(tcx, did)));
        let _ = write!(o, ",\"local\":{}", did.is_local());
        let _ = write!(o, ",\"krate\":{}", esc(tcx.crate_name(did.krate).as_str()));
        let gs: Vec<String> = args.iter().map(|a| esc(&format!("{}", a))).collect();
        let _ = write!(o, ",\"generics\":[{}]", gs.join(","));
        let dk = tcx.def_kind(did);
        if matches!(dk, DefKind::Fn | DefKind::AssocFn) {
            let sig = tcx.fn_sig(did).skip_binder();
            let unsafe_ = !sig.safety().is_safe();
            let _ = write!(o, ",\"unsafe\":{}", unsafe_);
        }
        if let Some(tr) = tcx.trait_of_assoc(did) {
            let _ = write!(o, ",\"trait\":{}", esc(&def_path(tcx, tr)));
        }
        // resolution
        let resolved = std::panic::catch_unwind(std::panic::AssertUnwindSafe(|| {
            Instance::try_resolve(tcx, self.tenv, did, args)
        }));
        match resolved {
            Ok(Ok(Some(inst))) => {
                let rd = inst.def_id();
                let _ = write!(o, ",\"resolved\":{}", esc(&def_path(tcx, rd)));
                let _ = write!(o, ",\"resolved_local\":{}", rd.is_local());
                let _ = write!(o, ",\"resolved_krate\":{}", esc(tcx.crate_name(rd.krate).as_str()));
                let _ = write!(o, ",\"inst\":{}", esc(&format!("{:?}", inst.def).chars().take(60).collect::<String>()));
                let rargs: Vec<String> = inst.args.iter().map(|a| esc(&format!("{}", a))).collect();
                let _ = write!(o, ",\"resolved_generics\":[{}]", rargs.join(","));
            }
            _ => {
                o.push_str(",\"resolved\":null");
            }
        }
        o.push('}');
        o
    }

    fn operand(&self, op: &Operand<'tcx>, sp: Span) -> String {
        match op {
            Operand::Copy(p) => format!("{{\"k\":\"copy\",\"place\":{}}}", self.place(p)),
            Operand::Move(p) => format!("{{\"k\":\"move\",\"place\":{}}}", self.place(p)),
            Operand::Constant(c) => format!("{{\"k\":\"const\",\"c\":{}}}", self.konst(&c.const_, sp)),
            #[allow(unreachable_patterns)]
            _ => format!("{{\"k\":\"other\",\"text\":{}}}", esc(&format!("{:?}", op))),
        }
    }

    fn rvalue(&self, rv: &Rvalue<'tcx>, sp: Span) -> String {
        match rv {
            Rvalue::Use(op, _) => format!("{{\"k\":\"use\",\"a\":{}}}", self.operand(op, sp)),
            Rvalue::Repeat(op, n) => format!(
                "{{\"k\":\"repeat\",\"a\":{},\"n\":{}}}",
                self.operand(op, sp),
                esc(&format!("{}", n))
            ),
            Rvalue::Ref(_, bk, p) => {
                let m = matches!(bk, BorrowKind::Mut { .. });
                format!("{{\"k\":\"ref\",\"mut\":{},\"place\":{}}}", m, self.place(p))
            }
            Rvalue::ThreadLocalRef(d) => format!("{{\"k\":\"tls\",\"def\":{}}}", esc(&def_path(self.tcx, *d))),
            Rvalue::RawPtr(k, p) => format!(
                "{{\"k\":\"rawptr\",\"mut\":{},\"place\":{}}}",
                matches!(k, rustc_middle::mir::RawPtrKind::Mut),
                self.place(p)
            ),
            Rvalue::Cast(ck, op, t) => {
                let ckn = match ck {
                    CastKind::IntToInt => "IntToInt".to_string(),
                    CastKind::FloatToInt => "FloatToInt".to_string(),
                    CastKind::IntToFloat => "IntToFloat".to_string(),
                    CastKind::FloatToFloat => "FloatToFloat".to_string(),
                    CastKind::PtrToPtr => "PtrToPtr".to_string(),
                    CastKind::Transmute => "Transmute".to_string(),
                    other => format!("{:?}", other),
                };
                let from = op.ty(self.body, self.tcx);
                format!(
                    "{{\"k\":\"cast\",\"ck\":{},\"a\":{},\"from\":{},\"ty\":{}}}",
                    esc(&ckn),
                    self.operand(op, sp),
                    esc(&ty_str(from)),
                    esc(&ty_str(*t))
                )
            }
            Rvalue::BinaryOp(op, ab) => {
                let (a, b) = &**ab;
                format!(
                    "{{\"k\":\"bin\",\"op\":{},\"a\":{},\"b\":{}}}",
                    esc(&binop(*op)),
                    self.operand(a, sp),
                    self.operand(b, sp)
                )
            }
            Rvalue::UnaryOp(op, a) => {
                let on = match op {
                    UnOp::Not => "Not",
                    UnOp::Neg => "Neg",
                    UnOp::PtrMetadata => "PtrMetadata",
                };
                format!("{{\"k\":\"un\",\"op\":\"{}\",\"a\":{}}}", on, self.operand(a, sp))
            }
            Rvalue::Discriminant(p) => {
                let pt = p.ty(self.body, self.tcx).ty;
                format!("{{\"k\":\"discr\",\"place\":{},\"of\":{}}}", self.place(p), esc(&ty_str(pt)))
            }
            Rvalue::Aggregate(ak, fields) => {
                let fs: Vec<String> = fields.iter().map(|f| self.operand(f, sp)).collect();
                let head = match &**ak {
                    AggregateKind::Array(t) => format!("\"ak\":\"array\",\"elem\":{}", esc(&ty_str(*t))),
                    AggregateKind::Tuple => "\"ak\":\"tuple\"".to_string(),
                    AggregateKind::Adt(did, vi, _args, _, active) => {
                        let def = self.tcx.adt_def(*did);
                        let v = def.variant(*vi);
                        let fnames: Vec<String> = v.fields.iter().map(|f| esc(f.name.as_str())).collect();
                        format!(
                            "\"ak\":\"adt\",\"adt\":{},\"variant\":{},\"vi\":{},\"is_enum\":{},\"fnames\":[{}],\"active\":{}",
                            esc(&def_path(self.tcx, *did)),
                            esc(v.name.as_str()),
                            vi.as_u32(),
                            def.is_enum(),
                            fnames.join(","),
                            active.map(|a| a.as_u32() as i64).unwrap_or(-1)
                        )
                    }
                    AggregateKind::Closure(did, _) => {
                        format!("\"ak\":\"closure\",\"def\":{}", esc(&def_path(self.tcx, *did)))
                    }
                    AggregateKind::Coroutine(did, _) | AggregateKind::CoroutineClosure(did, _) => {
                        format!("\"ak\":\"coroutine\",\"def\":{}", esc(&def_path(self.tcx, *did)))
                    }
                    AggregateKind::RawPtr(t, _) => format!("\"ak\":\"rawptr\",\"elem\":{}", esc(&ty_str(*t))),
                };
                format!("{{\"k\":\"agg\",{},\"fields\":[{}]}}", head, fs.join(","))
            }
            Rvalue::CopyForDeref(p) => format!("{{\"k\":\"use\",\"a\":{{\"k\":\"copy\",\"place\":{}}}}}", self.place(p)),
            other => format!("{{\"k\":\"other\",\"text\":{}}}", esc(&format!("{:?}", other))),
        }
    }
}

fn binop(op: BinOp) -> String {
    format!("{:?}", op)
}

fn dump_body<'tcx>(tcx: TyCtxt<'tcx>, did: DefId, out: &mut String) {
    let dk = tcx.def_kind(did);
    let body: &Body<'tcx> = if matches!(dk, DefKind::Static { .. }) { tcx.mir_for_ctfe(did) } else { tcx.optimized_mir(did) };
    let tenv = TypingEnv::post_analysis(tcx, did);
    let cx = Cx { tcx, body, did, tenv };
    let _ = cx.did;
    let _ = write!(out, "{{\"path\":{}", esc(&def_path(tcx, did)));
    let _ = write!(out, ",\"kind\":{}", esc(&format!("{:?}", dk)));
    let _ = write!(out, ",\"span\":{}", esc(&span_str(tcx, body.span)));
    if matches!(dk, DefKind::Fn | DefKind::AssocFn) {
        let vis = tcx.visibility(did);
        let _ = write!(out, ",\"vis\":{}", esc(&format!("{:?}", vis)));
        let sig = tcx.fn_sig(did).skip_binder();
        let _ = write!(out, ",\"unsafe\":{}", !sig.safety().is_safe());
    }
    // parent impl info
    let parent = tcx.parent(did);
    if matches!(tcx.def_kind(parent), DefKind::Impl { .. }) {
        let self_ty = tcx.type_of(parent).skip_binder();
        let _ = write!(out, ",\"impl_self\":{}", esc(&ty_str(self_ty)));
        if let Some(tr) = tcx.impl_opt_trait_ref(parent) {
            let tr = tr.skip_binder();
            let _ = write!(out, ",\"impl_trait\":{}", esc(&def_path(tcx, tr.def_id)));
            let _ = write!(out, ",\"impl_trait_full\":{}", esc(&format!("{}", tr)));
        }
        let _ = write!(out, ",\"impl_path\":{}", esc(&def_path(tcx, parent)));
    }
    if matches!(dk, DefKind::Closure) {
        let p = tcx.typeck_root_def_id(did);
        let _ = write!(out, ",\"closure_root\":{}", esc(&def_path(tcx, p)));
        let _ = write!(out, ",\"closure_parent\":{}", esc(&def_path(tcx, parent)));
    }
    let _ = write!(out, ",\"name\":{}", esc(tcx.item_name(if matches!(dk, DefKind::Closure) { tcx.typeck_root_def_id(did) } else { did }).as_str()));
    let _ = write!(out, ",\"arg_count\":{}", body.arg_count);
    // locals
    out.push_str(",\"locals\":[");
    for (i, (_l, d)) in body.local_decls.iter_enumerated().enumerate() {
        if i > 0 {
            out.push(',');
        }
        let _ = write!(
            out,
            "{{\"ty\":{},\"mut\":{}}}",
            esc(&ty_str(d.ty)),
            d.mutability.is_mut()
        );
    }
    out.push(']');
    // debug names
    out.push_str(",\"vars\":[");
    let mut first = true;
    for v in &body.var_debug_info {
        if let VarDebugInfoContents::Place(p) = &v.value {
            if !first {
                out.push(',');
            }
            first = false;
            let _ = write!(out, "{{\"name\":{},\"place\":{}}}", esc(v.name.as_str()), cx.place(p));
        }
    }
    out.push(']');
    dump_blocks(&cx, out);
    // promoted constants of this body (needed to read `&CONST` operands of comparisons/fills)
    out.push_str(",\"promoted\":[");
    let proms = tcx.promoted_mir(did);
    for (pi, pb) in proms.iter().enumerate() {
        if pi > 0 {
            out.push(',');
        }
        let pcx = Cx { tcx, body: pb, did, tenv };
        out.push_str("{\"locals\":[");
        for (i, (_l, d)) in pb.local_decls.iter_enumerated().enumerate() {
            if i > 0 {
                out.push(',');
            }
            let _ = write!(out, "{{\"ty\":{},\"mut\":{}}}", esc(&ty_str(d.ty)), d.mutability.is_mut());
        }
        out.push(']');
        dump_blocks(&pcx, out);
        out.push('}');
    }
    out.push_str("]}");
}

fn dump_blocks<'tcx, 'a>(cx: &Cx<'tcx, 'a>, out: &mut String) {
    let tcx = cx.tcx;
    let body = cx.body;
    // blocks
    out.push_str(",\"blocks\":[");
    for (bi, (_bb, data)) in body.basic_blocks.iter_enumerated().enumerate() {
        if bi > 0 {
            out.push(',');
        }
        let _ = write!(out, "{{\"cleanup\":{},\"stmts\":[", data.is_cleanup);
        let mut firsts = true;
        for st in &data.statements {
            let sp = st.source_info.span;
            let s = match &st.kind {
                StatementKind::Assign(b) => {
                    let (p, rv) = &**b;
                    Some(format!(
                        "{{\"k\":\"assign\",\"place\":{},\"rv\":{},\"line\":{},\"exp\":{},\"expk\":{}}}",
                        cx.place(p),
                        cx.rvalue(rv, sp),
                        line_of(tcx, sp),
                        sp.from_expansion(),
                        esc(&expk(sp))
                    ))
                }
                StatementKind::SetDiscriminant { place, variant_index } => Some(format!(
                    "{{\"k\":\"setdiscr\",\"place\":{},\"vi\":{},\"line\":{}}}",
                    cx.place(place),
                    variant_index.as_u32(),
                    line_of(tcx, sp)
                )),
                StatementKind::Intrinsic(i) => Some(format!(
                    "{{\"k\":\"intrinsic\",\"text\":{},\"line\":{}}}",
                    esc(&format!("{:?}", i)),
                    line_of(tcx, sp)
                )),
                StatementKind::StorageDead(l) => Some(format!("{{\"k\":\"dead\",\"l\":{}}}", l.as_u32())),
                _ => None,
            };
            if let Some(s) = s {
                if !firsts {
                    out.push(',');
                }
                firsts = false;
                out.push_str(&s);
            }
        }
        out.push_str("],\"term\":");
        let term = data.terminator();
        let sp = term.source_info.span;
        let line = line_of(tcx, sp);
        let exp = sp.from_expansion();
        let t = match &term.kind {
            TerminatorKind::Goto { target } => format!("{{\"k\":\"goto\",\"t\":{}}}", target.as_u32()),
            TerminatorKind::SwitchInt { discr, targets } => {
                let mut vals = Vec::new();
                let mut tgts = Vec::new();
                for (v, t) in targets.iter() {
                    vals.push(format!("\"{}\"", v));
                    tgts.push(format!("{}", t.as_u32()));
                }
                let dty = discr.ty(body, tcx);
                format!(
                    "{{\"k\":\"switch\",\"d\":{},\"dty\":{},\"vals\":[{}],\"targets\":[{}],\"otherwise\":{},\"line\":{},\"exp\":{}}}",
                    cx.operand(discr, sp),
                    esc(&ty_str(dty)),
                    vals.join(","),
                    tgts.join(","),
                    targets.otherwise().as_u32(),
                    line,
                    exp
                )
            }
            TerminatorKind::UnwindResume => "{\"k\":\"resume\"}".to_string(),
            TerminatorKind::UnwindTerminate(_) => "{\"k\":\"abort\"}".to_string(),
            TerminatorKind::Return => "{\"k\":\"return\"}".to_string(),
            TerminatorKind::Unreachable => "{\"k\":\"unreachable\"}".to_string(),
            TerminatorKind::Drop { place, target, unwind, .. } => format!(
                "{{\"k\":\"drop\",\"place\":{},\"t\":{},\"unwind\":{},\"ty\":{}}}",
                cx.place(place),
                target.as_u32(),
                unwind_str(unwind),
                esc(&ty_str(place.ty(body, tcx).ty))
            ),
            TerminatorKind::Call { func, args, destination, target, unwind, .. } => {
                let fty = func.ty(body, tcx);
                let f = match fty.kind() {
                    TyKind::FnDef(d, a) => cx.fnref(*d, a),
                    _ => format!("{{\"path\":null,\"indirect\":{},\"ty\":{}}}", cx.operand(func, sp), esc(&ty_str(fty))),
                };
                let as_: Vec<String> = args.iter().map(|a| cx.operand(&a.node, sp)).collect();
                let atys: Vec<String> = args.iter().map(|a| esc(&ty_str(a.node.ty(body, tcx)))).collect();
                format!(
                    "{{\"k\":\"call\",\"fn\":{},\"args\":[{}],\"arg_tys\":[{}],\"dest\":{},\"t\":{},\"unwind\":{},\"line\":{},\"exp\":{},\"span\":{},\"expk\":{}}}",
                    f,
                    as_.join(","),
                    atys.join(","),
                    cx.place(destination),
                    target.map(|t| t.as_u32() as i64).unwrap_or(-1),
                    unwind_str(unwind),
                    line,
                    exp,
                    esc(&span_str(tcx, sp)),
                    esc(&expk(sp))
                )
            }
            TerminatorKind::Assert { cond, expected, msg, target, unwind } => {
                let m = match &**msg {
                    AssertKind::BoundsCheck { len, index } => format!(
                        "{{\"kind\":\"BoundsCheck\",\"len\":{},\"index\":{}}}",
                        cx.operand(len, sp),
                        cx.operand(index, sp)
                    ),
                    AssertKind::Overflow(op, a, b) => format!(
                        "{{\"kind\":\"Overflow\",\"op\":{},\"a\":{},\"b\":{}}}",
                        esc(&binop(*op)),
                        cx.operand(a, sp),
                        cx.operand(b, sp)
                    ),
                    AssertKind::OverflowNeg(a) => format!("{{\"kind\":\"OverflowNeg\",\"a\":{}}}", cx.operand(a, sp)),
                    AssertKind::DivisionByZero(a) => format!("{{\"kind\":\"DivisionByZero\",\"a\":{}}}", cx.operand(a, sp)),
                    AssertKind::RemainderByZero(a) => format!("{{\"kind\":\"RemainderByZero\",\"a\":{}}}", cx.operand(a, sp)),
                    other => format!("{{\"kind\":\"Other\",\"text\":{}}}", esc(&format!("{:?}", other))),
                };
                format!(
                    "{{\"k\":\"assert\",\"cond\":{},\"expected\":{},\"msg\":{},\"t\":{},\"unwind\":{},\"line\":{},\"exp\":{},\"span\":{},\"expk\":{}}}",
                    cx.operand(cond, sp),
                    expected,
                    m,
                    target.as_u32(),
                    unwind_str(unwind),
                    line,
                    exp,
                    esc(&span_str(tcx, sp)),
                    esc(&expk(sp))
                )
            }
            TerminatorKind::FalseEdge { real_target, .. } => format!("{{\"k\":\"goto\",\"t\":{}}}", real_target.as_u32()),
            TerminatorKind::FalseUnwind { real_target, .. } => format!("{{\"k\":\"goto\",\"t\":{}}}", real_target.as_u32()),
            other => format!("{{\"k\":\"other\",\"text\":{}}}", esc(&format!("{:?}", other))),
        };
        out.push_str(&t);
        out.push('}');
    }
    out.push(']');
}

fn unwind_str(u: &rustc_middle::mir::UnwindAction) -> String {
    match u {
        rustc_middle::mir::UnwindAction::Cleanup(b) => format!("{}", b.as_u32()),
        _ => "-1".to_string(),
    }
}

/// outermost macro expansion the span comes from: "" (plain code), "bang:name:local|ext", "derive:Name", "attr:name", "desugar:Kind"
fn expk(sp: Span) -> String {
    if !sp.from_expansion() {
        return String::new();
    }
    let mut last = None;
    for e in sp.macro_backtrace() {
        // code of a `debug_assert!` is debug-only wherever the macro is written, also inside a local macro_rules! expansion
        if let rustc_span::ExpnKind::Macro(rustc_span::MacroKind::Bang, name) = e.kind {
            let local = matches!(e.macro_def_id, Some(d) if d.is_local());
            if !local && name.as_str().starts_with("debug_assert") {
                return format!("bang:{}:ext", name);
            }
        }
        last = Some(e);
    }
    let e = match last {
        Some(e) => e,
        None => sp.ctxt().outer_expn_data(),
    };
    match e.kind {
        rustc_span::ExpnKind::Macro(mk, name) => {
            let k = match mk {
                rustc_span::MacroKind::Bang => "bang",
                rustc_span::MacroKind::Derive => "derive",
                rustc_span::MacroKind::Attr => "attr",
            };
            let loc = match e.macro_def_id {
                Some(d) if d.is_local() => "local",
                _ => "ext",
            };
            format!("{}:{}:{}", k, name, loc)
        }
        rustc_span::ExpnKind::Desugaring(d) => format!("desugar:{:?}", d),
        other => format!("other:{:?}", other).chars().take(40).collect(),
    }
}

fn line_of(tcx: TyCtxt<'_>, sp: Span) -> usize {
    // line in the *call site* file for expanded spans
    let sp = sp.source_callsite();
    tcx.sess.source_map().lookup_char_pos(sp.lo()).line
}

fn dump_types<'tcx>(tcx: TyCtxt<'tcx>, out: &mut String) {
    // ADTs
    out.push_str("\"adts\":[");
    let mut first = true;
    for id in tcx.hir_free_items() {
        let did = id.owner_id.to_def_id();
        let dk = tcx.def_kind(did);
        if !matches!(dk, DefKind::Struct | DefKind::Enum | DefKind::Union) {
            continue;
        }
        let def = tcx.adt_def(did);
        if !first {
            out.push(',');
        }
        first = false;
        let _ = write!(
            out,
            "{{\"path\":{},\"kind\":{},\"span\":{},\"variants\":[",
            esc(&def_path(tcx, did)),
            esc(&format!("{:?}", dk)),
            esc(&span_str(tcx, tcx.def_span(did)))
        );
        let discrs: Vec<(rustc_abi::VariantIdx, ty::util::Discr<'tcx>)> =
            if def.is_enum() { def.discriminants(tcx).collect() } else { Vec::new() };
        for (i, (vi, v)) in def.variants().iter_enumerated().enumerate() {
            if i > 0 {
                out.push(',');
            }
            let d = discrs.iter().find(|(x, _)| *x == vi).map(|(_, d)| d.val as i128);
            let fs: Vec<String> = v
                .fields
                .iter()
                .map(|f| {
                    format!(
                        "{{\"name\":{},\"ty\":{},\"vis\":{}}}",
                        esc(f.name.as_str()),
                        esc(&ty_str(tcx.type_of(f.did).skip_binder())),
                        esc(&format!("{:?}", f.vis))
                    )
                })
                .collect();
            let _ = write!(
                out,
                "{{\"name\":{},\"discr\":{},\"fields\":[{}]}}",
                esc(v.name.as_str()),
                d.map(|d| format!("\"{}\"", d)).unwrap_or("null".to_string()),
                fs.join(",")
            );
        }
        out.push_str("]}");
    }
    out.push_str("],");
    // impls
    out.push_str("\"impls\":[");
    let mut first = true;
    for id in tcx.hir_free_items() {
        let did = id.owner_id.to_def_id();
        if !matches!(tcx.def_kind(did), DefKind::Impl { .. }) {
            continue;
        }
        if !first {
            out.push(',');
        }
        first = false;
        let self_ty = tcx.type_of(did).skip_binder();
        let tr = tcx.impl_opt_trait_ref(did).map(|t| t.skip_binder());
        let items: Vec<String> = tcx
            .associated_items(did)
            .in_definition_order()
            .map(|it| {
                format!(
                    "{{\"name\":{},\"path\":{},\"kind\":{}}}",
                    esc(it.name().as_str()),
                    esc(&def_path(tcx, it.def_id)),
                    esc(&format!("{:?}", it.kind).chars().take(12).collect::<String>())
                )
            })
            .collect();
        let _ = write!(
            out,
            "{{\"path\":{},\"self\":{},\"trait\":{},\"trait_full\":{},\"span\":{},\"items\":[{}]}}",
            esc(&def_path(tcx, did)),
            esc(&ty_str(self_ty)),
            tr.map(|t| esc(&def_path(tcx, t.def_id))).unwrap_or("null".into()),
            tr.map(|t| esc(&format!("{}", t))).unwrap_or("null".into()),
            esc(&span_str(tcx, tcx.def_span(did))),
            items.join(",")
        );
    }
    out.push_str("],");
    // consts / statics with evaluated scalar values
    out.push_str("\"consts\":[");
    let mut first = true;
    for ldid in tcx.hir_body_owners() {
        let did = ldid.to_def_id();
        let dk = tcx.def_kind(did);
        if !matches!(dk, DefKind::Const { .. } | DefKind::AssocConst { .. } | DefKind::Static { .. }) {
            continue;
        }
        if !first {
            out.push(',');
        }
        first = false;
        let t = tcx.type_of(did).skip_binder();
        let _ = write!(
            out,
            "{{\"path\":{},\"kind\":{},\"ty\":{},\"span\":{}",
            esc(&def_path(tcx, did)),
            esc(&format!("{:?}", dk).chars().take(12).collect::<String>()),
            esc(&ty_str(t)),
            esc(&span_str(tcx, tcx.def_span(did)))
        );
        if matches!(t.kind(), TyKind::Int(_) | TyKind::Uint(_) | TyKind::Bool | TyKind::Char) {
            let generics = tcx.generics_of(did);
            if generics.count() == 0 && generics.parent.map(|p| tcx.generics_of(p).count() == 0).unwrap_or(true) {
                if let Ok(v) = tcx.const_eval_poly(did) {
                    if let Some(s) = v.try_to_scalar_int() {
                        let size = s.size();
                        let bits = s.to_bits(size);
                        let val: i128 = match t.kind() {
                            TyKind::Int(_) => size.sign_extend(bits) as i128,
                            _ => bits as i128,
                        };
                        let _ = write!(out, ",\"int\":\"{}\"", val);
                    }
                }
            }
        }
        out.push('}');
    }
    out.push(']');
}

impl Callbacks for Dump {
    fn after_analysis<'tcx>(&mut self, _c: &rustc_interface::interface::Compiler, tcx: TyCtxt<'tcx>) -> Compilation {
        let out_path = match std::env::var("MIRDUMP_OUT") {
            Ok(p) => p,
            Err(_) => return Compilation::Continue,
        };
        let want = std::env::var("MIRDUMP_CRATE").unwrap_or_else(|_| "surf_n_term".into());
        let name = tcx.crate_name(LOCAL_CRATE).to_string();
        if name != want {
            return Compilation::Continue;
        }
        let mut out = String::with_capacity(64 << 20);
        let _ = write!(out, "{{\"crate\":{},\"bodies\":[", esc(&name));
        let mut n = 0usize;
        for ldid in tcx.hir_body_owners() {
            let did = ldid.to_def_id();
            let dk = tcx.def_kind(did);
            if !matches!(dk, DefKind::Fn | DefKind::AssocFn | DefKind::Closure | DefKind::Static { .. }) {
                continue;
            }
            if !matches!(dk, DefKind::Static { .. }) && !tcx.is_mir_available(did) {
                continue;
            }
            if n > 0 {
                out.push(',');
            }
            n += 1;
            dump_body(tcx, did, &mut out);
        }
        out.push_str("],");
        dump_types(tcx, &mut out);
        let _ = write!(out, ",\"n_bodies\":{}}}", n);
        let tmp = format!("{}.tmp.{}", out_path, std::process::id());
        std::fs::write(&tmp, out.as_bytes()).expect("mirdump: write");
        std::fs::rename(&tmp, &out_path).expect("mirdump: rename");
        Compilation::Continue
    }
}

fn main() {
    let mut args: Vec<String> = std::env::args().collect();
    // RUSTC_WORKSPACE_WRAPPER: argv[1] is the path of the real rustc
    if args.len() > 1 && (args[1].ends_with("rustc") || args[1].contains("/rustc")) {
        args.remove(1);
    }
    let mut cb = Dump;
    rustc_driver::run_compiler(&args, &mut cb);
}
