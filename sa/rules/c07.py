"""C07 — surface views are exact, non-aliasing windows: memory-safety and containment clauses."""
import re
from ..mir import call_matches, callee_name, callee_names, op_local
from ..flow import expr, place_expr, origins, resolve_place
from ..discharge import Engine
from .. import obligations

CLAIM = {
    "text": "Memory-safety and containment clauses of C07 decided on MIR: the single unsafe dereference is guarded by `offset < len` of the same "
            "slice; get/get_mut/set reach the data only behind row<height and col<width guards that exist in release builds; Shape values are "
            "built only by three audited constructors whose field templates are checked (stride inheritance, cols<->width / rows<->height pairing, "
            "transpose swapping both pairs); Shape::nth returns in-window positions (abstract interpretation); all data[shape.offset(..)] loops run "
            "over 0..height x 0..width; the mutable iterator always advances; U8 the two coordinate spaces are not interchanged: the backing slice is "
            "accessed only at Shape::offset(..) terms, counts that position a view iterator (nth/skip) or feed Shape::nth are never derived from "
            "Shape::offset/start/end/strides, and the provided methods (insert) position their iterator at exactly pos.row * width + pos.col of the "
            "receiver (Shape::index formula checked). Relies on the stated lemma SHAPE-INV. Equality with a matrix model "
            "for every chain of views is not decided.",
    "technique": "MIR template matching via symbolic def-chasing, dominator guard analysis, literal-site (who-constructs) rule, abstract interpretation for the nth postcondition",
    "design_ref": "DESIGN.md §5 C07",
}

SHAPE_FIELDS = ["start", "end", "width", "height", "row_stride", "col_stride"]
# the audited routines the rules name are never expanded into their callers
KEEP7 = r"^surface::Shape::(offset|index|nth|view|size)$|^terminal::Position::new$"


# ============================================================================================================
# Meaning-level helpers shared by the rules below (and imported by c08/c10): they make the rules independent of
# which syntactic construct produced a guard, an index or a loop.
# ============================================================================================================
def split_call(e):
    """('Name', [args]) for a canonical term Name(a, b, ..) whose brackets span the whole term; None otherwise"""
    m = re.match(r"^([A-Za-z_][\w:]*)\(", e)
    if not m or not e.endswith(")"):
        return None
    depth = 0
    args, cur = [], ""
    body = e[m.end() - 1:]
    for i, ch in enumerate(body):
        if ch in "([{":
            depth += 1
            if depth == 1:
                continue
        elif ch in ")]}":
            depth -= 1
            if depth == 0:
                if i != len(body) - 1:
                    return None
                if cur.strip():
                    args.append(cur.strip())
                return m.group(1), args
        if ch == "," and depth == 1:
            args.append(cur.strip())
            cur = ""
        else:
            cur += ch
    return None


def flat_sum(e):
    """sorted addends of a (nested) Add term: Add(a, Add(b, 1)) and Add(Add(1, b), a) give the same list"""
    tc = split_call(e)
    if tc and tc[0] == "Add" and len(tc[1]) == 2:
        return sorted(flat_sum(tc[1][0]) + flat_sum(tc[1][1]))
    return [e]


def flat_prod(e):
    tc = split_call(e)
    if tc and tc[0] == "Mul" and len(tc[1]) == 2:
        return sorted(flat_prod(tc[1][0]) + flat_prod(tc[1][1]))
    return [e]


def _rewrite_checked(e, name, op):
    """name(a, b)@Some.0  ->  op(a, b): the payload of a successful checked operation is the plain result"""
    start = 0
    while True:
        i = e.find(name + "(", start)
        if i < 0:
            return e
        depth, j = 0, i + len(name)
        for j in range(i + len(name), len(e)):
            if e[j] in "([{":
                depth += 1
            elif e[j] in ")]}":
                depth -= 1
                if depth == 0:
                    break
        if depth == 0 and e.startswith("@Some.0", j + 1):
            e = e[:i] + op + e[i + len(name):j + 1] + e[j + 1 + len("@Some.0"):]
            start = i + len(op)
        else:
            start = i + len(name)


def canon_arith(e):
    """unsigned euclidean / operator-trait / checked spellings of the integer operators"""
    if "num::checked_" in e:
        for nm, op in (("num::checked_sub", "Sub"), ("num::checked_add", "Add"), ("num::checked_mul", "Mul"), ("num::checked_div", "Div"), ("num::checked_rem", "Rem")):
            e = _rewrite_checked(e, nm, op)
    e = re.sub(r"\bnum::div_euclid\(", "Div(", e)
    e = re.sub(r"\bnum::rem_euclid\(", "Rem(", e)
    e = re.sub(r"\bDiv::div\(", "Div(", e)
    e = re.sub(r"\bRem::rem\(", "Rem(", e)
    e = re.sub(r"\bAdd::add\(", "Add(", e)
    e = re.sub(r"\bSub::sub\(", "Sub(", e)
    e = re.sub(r"\bMul::mul\(", "Mul(", e)
    return e


# ---- inlining of private helpers (any number of callers) ------------------------------------------------------
_INL_ANY = {}


def would_inline(prog, callee, root):
    """is `callee` expanded by inlined_private inside the body rooted at `root`?"""
    from .. import inline
    if callee is None or callee.kind not in ("Fn", "AssocFn") or callee.impl_trait or callee.path == root:
        return False
    if len(callee.blocks) > inline.MAX_BLOCKS or not callee.file.startswith("src/"):
        return False
    for bb, t in callee.calls():
        if (t["fn"].get("resolved") or t["fn"].get("path")) == callee.path:
            return False
    if (callee.j.get("vis") or "Public").startswith("Restricted"):
        return True
    return inline.inlinable(prog, callee, root)


def expanded_copies(prog, path, keep=None):
    """bodies (with private helpers expanded) that together contain a copy of helper `path` for each of its call sites:
    the helper's callers, or their callers when those are helpers themselves.  None when some call site is not expanded
    (public function, recursion, too deep): the helper then has contexts this view does not show."""
    hb = prog.body(path)
    if hb is None or hb.kind not in ("Fn", "AssocFn") or hb.impl_trait:
        return None          # trait methods are also reached by dynamic dispatch: their call sites are not all visible
    cg = prog.callgraph()
    roots, todo, seen = [], [path], set()
    while todo:
        p = todo.pop()
        callers = [c for c in cg.callers(p) if c != p]
        if not callers:
            return None
        for c in callers:
            if c in seen:
                continue
            seen.add(c)
            cb = prog.body(c)
            if cb is None:
                return None
            up = [x for x in cg.callers(c) if x != c]
            if cb.kind != "Closure" and up and all(would_inline(prog, cb, (prog.body(x).closure_root or x) if prog.body(x) is not None else x) for x in up):
                todo.append(c)
            else:
                roots.append(c)
    out = []
    for r in roots:
        ib = inlined_private(prog, r, keep=keep)
        if ib is None or any(path in callee_names(t) for bb, t in ib.calls()) or not any(blk.get("inl_from") == path for blk in ib.blocks):
            return None      # a call site that was not expanded / a caller that shows no copy of the helper
        out.append(ib)
    return out or None


def inlined_private(prog, path, depth=3, keep=None):
    """the body with every small *non-public* crate-local helper fn (and every helper sa/inline.py would expand) expanded in
    place, whatever the number of its callers: `get` and `get_mut` sharing one extracted `is_outside` are the typical case.
    Public functions (Shape::offset, Position::new, the trait's own methods ..) keep their calls: the rules name them."""
    from .. import inline
    from ..mir import Body
    import copy
    key = (id(prog), path, keep)
    if key in _INL_ANY:
        return _INL_ANY[key]
    base = prog.body(path)
    if base is None:
        return None
    root = base.closure_root or base.path

    def ok(callee):
        return would_inline(prog, callee, root) and not (keep and re.search(keep, callee.path))

    j = None
    blocks, locals_, vars_ = base.blocks, base.locals, base.j["vars"]
    work = list(range(len(blocks)))
    level = {i: 0 for i in work}
    stack = {i: () for i in work}
    while work:
        bb = work.pop(0)
        blk = blocks[bb]
        t = blk["term"]
        if t["k"] != "call" or level.get(bb, 0) >= depth or blk["cleanup"]:
            continue
        f = t["fn"]
        cpath = f.get("resolved") if f.get("resolved_local") else (f.get("path") if f.get("local") else None)
        callee = prog.body(cpath) if cpath else None
        if callee is None or len(t["args"]) != callee.arg_count or cpath in stack.get(bb, ()) or not ok(callee):
            continue
        if j is None:
            j = copy.deepcopy(base.j)
            blocks, locals_, vars_ = j["blocks"], j["locals"], j["vars"]
            blk = blocks[bb]
            t = blk["term"]
        lo, bo = len(locals_), len(blocks)
        locals_.extend(copy.deepcopy(callee.locals))
        for v in callee.j["vars"]:
            vars_.append({"name": v["name"], "place": inline._shift(v["place"], lo, 0)})
        for k, a in enumerate(t["args"]):
            blk["stmts"].append({"k": "assign", "place": {"l": lo + 1 + k, "p": []}, "rv": {"k": "use", "a": a}, "line": t.get("line", 0), "exp": False, "expk": "", "inl_arg": callee.path})
        dest, target, line = t["dest"], t["t"], t.get("line", 0)
        blk["term"] = {"k": "goto", "t": bo, "inl_call": callee.path, "line": line}
        for i, cb in enumerate(callee.blocks):
            nb = inline._shift(cb, lo, bo)
            nb["inl_from"] = cb.get("inl_from") or callee.path
            if nb["term"]["k"] == "return":
                nb["stmts"].append({"k": "assign", "place": dest, "rv": {"k": "use", "a": {"k": "move", "place": {"l": lo, "p": []}}}, "line": line, "exp": False, "expk": "", "inl_ret": callee.path})
                nb["term"] = {"k": "goto", "t": target} if target >= 0 else {"k": "unreachable"}
            blocks.append(nb)
            level[bo + i] = level.get(bb, 0) + 1
            stack[bo + i] = stack.get(bb, ()) + (cpath,)
            work.append(bo + i)
    out = base if j is None else Body(j, prog)
    _INL_ANY[key] = out
    return out


# ---- path conditions: which comparisons hold on every way to a block ------------------------------------------
_CMPS = ("Lt", "Le", "Gt", "Ge", "Eq", "Ne")


def _strip_succ(e):
    """x when e is x + 1 (either order), else None"""
    tc = split_call(e)
    if tc and tc[0] == "Add" and len(tc[1]) == 2:
        if tc[1][1] == "1":
            return tc[1][0]
        if tc[1][0] == "1":
            return tc[1][1]
    return None


def cmp_facts(op, a, b, truth):
    """canonical facts (x, '<' | '<=' | '==' | '!=', y) carried by `op(a, b) == truth`"""
    if op in ("Gt", "Ge"):
        op, a, b = {"Gt": "Lt", "Ge": "Le"}[op], b, a
    if op in ("Lt", "Le"):
        if not truth:   # !(a < b) == b <= a ; !(a <= b) == b < a
            op, a, b = {"Lt": "Le", "Le": "Lt"}[op], b, a
        rel = "<" if op == "Lt" else "<="
        if rel == "<" and _strip_succ(b) is not None:     # a < b' + 1  implies  a <= b'  (also when b' + 1 wraps: then nothing is < 0)
            b, rel = _strip_succ(b), "<="
        return [(a, rel, b)]
    if op in ("Eq", "Ne"):
        eq = (op == "Eq") == bool(truth)
        x, y = sorted((a, b))
        return [(x, "==" if eq else "!=", y)]
    return []


def implied(f, truth):
    """facts that must hold when boolean formula f evaluates to `truth` (conjunctive part only: sound, not complete)"""
    if f is None:
        return []
    k = f[0]
    if k == "cmp":
        return cmp_facts(f[1], f[2], f[3], truth)
    if k == "pred":
        return [(f[1], "is", "true" if truth else "false")]
    if k == "not":
        return implied(f[1], not truth)
    if k == "and":
        return implied(f[1], True) + implied(f[2], True) if truth else []
    if k == "or":
        return implied(f[1], False) + implied(f[2], False) if not truth else []
    return []       # constants, debug-only comparisons


def _is_debug_stmt(s):
    return (s.get("expk") or "").startswith("bang:debug_assert")


class PathBody:
    """a Body in which the locals assigned several times have the one definition that a given path executed last: canonical terms
    (flow.expr) computed on it are the terms of the values on that path"""

    def __init__(self, body, chosen):
        self._b = body
        self._chosen = chosen

    def __getattr__(self, n):
        return getattr(self._b, n)

    def defs_of(self, l):
        d = self._chosen.get(l)
        if d is not None:
            return [d]
        return self._b.defs_of(l)


def norm_payload(e):
    """Some(x)@Some.0, Some(x)@Continue.0 (through `?`), Ok(x)@Ok.0 / @Continue.0  ->  x"""
    for _ in range(8):
        m = re.search(r"\b(?:Option::Some|Result::Ok)\(", e)
        found = False
        while m:
            depth, i = 0, m.end() - 1
            for j in range(i, len(e)):
                if e[j] in "([{":
                    depth += 1
                elif e[j] in ")]}":
                    depth -= 1
                    if depth == 0:
                        break
            tail = re.match(r"@(?:Some|Ok|Continue)\.0", e[j + 1:])
            if depth == 0 and tail:
                e = e[:m.start()] + e[i + 1:j] + e[j + 1 + tail.end():]
                found = True
                break
            m = re.compile(r"\b(?:Option::Some|Result::Ok)\(").search(e, m.end())
        if not found:
            break
    return e


class PathEval:
    """Enumerates the acyclic paths of a body with a tiny symbolic evaluation of boolean locals (constants, comparisons of canonical
    terms, !, &, |, tuples of those, Range::contains, integer PartialOrd calls).  Switches on a known constant follow one edge; switches
    on a formula add the facts the taken edge implies.  `at(bb)` gives, for every feasible path that reaches the terminator of bb,
    (facts, env).  Comparisons written inside debug_assert! carry no fact (absent from release builds)."""
    LIMIT = 60000

    def __init__(self, body):
        self.body = body
        self.steps = 0
        cnt = {}
        for i, blk in enumerate(body.blocks):
            for st in blk["stmts"]:
                if st["k"] == "assign" and not st["place"]["p"]:
                    cnt[st["place"]["l"]] = cnt.get(st["place"]["l"], 0) + 1
            t = blk["term"]
            if t["k"] == "call" and not t["dest"]["p"]:
                cnt[t["dest"]["l"]] = cnt.get(t["dest"]["l"], 0) + 1
        self.multi = {l for l, n in cnt.items() if n > 1}
        self._tok = {}
        self._loop_tok = None

    # ---- writes: a fact about a place that is written afterwards no longer holds -------------------------------------
    def _place_token(self, place):
        l = place["l"]
        if not place["p"]:
            if l not in self.multi:
                return None          # a temporary with one definition never changes
            nm = self.body.varnames.get(l)
            return "var:%s" % nm if nm else "_%d" % l
        return place_expr(self.body, place)

    def _tokens(self, bb):
        """(terms of the places the statements of bb write, terms of the places its terminator writes)"""
        if bb not in self._tok:
            b = self.body
            blk = b.blocks[bb]
            st, tt = set(), set()
            for s in blk["stmts"]:
                if s["k"] == "assign" and not s.get("inl_arg") and not s.get("inl_ret"):
                    st.add(self._place_token(s["place"]))
                elif s["k"] == "setdiscr":
                    st.add(self._place_token(s["place"]))
            t = blk["term"]
            if t["k"] == "call":
                tt.add(self._place_token(t["dest"]))
                tys = t.get("arg_tys") or []
                for i, a in enumerate(t["args"]):
                    if a["k"] == "const":
                        continue
                    ty = tys[i] if i < len(tys) else ""
                    lt = b.local_ty(a["place"]["l"]) if not a["place"]["p"] else ""
                    if ty.startswith(("&mut", "*mut")) or lt.startswith(("&mut", "*mut")):
                        # what a mutable reference argument points to may be written by the callee; through `&mut [T]` / `&mut str` only the
                        # elements, never the length
                        elems = re.match(r"^&mut ('\w+ )?(\[|str\b)", ty or lt) is not None
                        tt.add(expr(b, a) + ("\0elems" if elems else ""))
            st.discard(None)
            tt.discard(None)
            self._tok[bb] = (st, tt)
        return self._tok[bb]

    def _loop_tokens(self, head):
        if self._loop_tok is None:
            self._loop_tok = {}
            for h, blocks in self.body.cfg().loops().items():
                ws = set()
                for x in blocks:
                    if not self.body.blocks[x]["cleanup"]:
                        a, b_ = self._tokens(x)
                        ws |= a | b_
                self._loop_tok[h] = ws
        return self._loop_tok.get(head, ())

    @staticmethod
    def _kill(facts, toks):
        if not toks or not facts:
            return facts
        # a whole `&mut argN` handed to a callee may change what is *read through* it (argN.field, argN[..]); a term that merely passes the
        # reference on (shape(arg1)) is the value of an earlier evaluation held in a temporary
        rx = re.compile("|".join(r"(?<![\w.:])%s%s" % (re.escape(t.split("\0")[0]), r"(?=\[)" if t.endswith("\0elems") else r"(?=[.\[])" if re.fullmatch(r"arg\d+", t) else r"(?![\w])")
                                 for t in sorted(toks, key=len, reverse=True)))
        return frozenset(f for f in facts if not rx.search(f[0]) and not rx.search(f[2]))

    def term(self, env, operand):
        """canonical term of the operand's value on the path that produced env"""
        chosen = {k[1]: v for k, v in env.items() if isinstance(k, tuple) and k[0] == "def"}
        return norm_payload(canon_arith(expr(PathBody(self.body, chosen) if chosen else self.body, operand)))

    def terms(self, bb, operand):
        """set of terms of the operand over all feasible paths to bb (None: not enumerable)"""
        r = self.at(bb)
        if r is None:
            return None
        return {self.term(env, operand) for facts, env in r}

    def _val(self, env, o):
        if o["k"] == "const":
            c = o["c"]
            return ("c", int(c["int"])) if "int" in c and re.match(r"^-?\d+$", str(c["int"])) else None
        p = o["place"]
        if not p["p"]:
            v = env.get(p["l"])
            if v is None and p["l"] not in self.multi:
                ds = self.body.defs_of(p["l"])
                if len(ds) == 1 and ds[0][1] != "term" and ds[0][2]["k"] == "ref" and not ds[0][2]["place"]["p"]:
                    return env.get(ds[0][2]["place"]["l"])     # a shared reference to a tracked local
            return v
        if len(p["p"]) == 1 and p["p"][0]["k"] == "field":
            return env.get((p["l"], p["p"][0]["i"]))
        return None

    def _assign(self, env, s):
        pl, rv = s["place"], s["rv"]
        if pl["p"]:
            if len(pl["p"]) == 1 and pl["p"][0]["k"] == "field" and rv["k"] == "use":
                v = self._val(env, rv["a"])
                env[(pl["l"], pl["p"][0]["i"])] = v
            return
        l = pl["l"]
        for k in [k for k in env if isinstance(k, tuple) and k[0] == l]:
            del env[k]
        if l in self.multi and "_site" in s:
            env[("def", l)] = s["_site"]
        v = None
        k = rv["k"]
        if k == "agg" and rv.get("ak") == "adt" and rv.get("is_enum"):
            env[l] = ("var", rv.get("adt"), rv.get("variant"), rv.get("vi"))
            return
        if k == "discr" and not rv["place"]["p"]:
            x = env.get(rv["place"]["l"])
            env[l] = ("c", x[3]) if x is not None and x[0] == "var" and x[3] is not None else None
            return
        if k == "use":
            v = self._val(env, rv["a"])
            a = rv["a"]
            if a["k"] == "const" and _is_debug_stmt(s):
                v = None      # cfg!(debug_assertions): true in the dev-profile MIR, false in release builds: both edges are possible
            if a["k"] != "const" and not a["place"]["p"]:
                for kk in [kk for kk in env if isinstance(kk, tuple) and kk[0] == a["place"]["l"]]:
                    env[(l, kk[1])] = env[kk]
        elif k == "bin":
            op = rv["op"].replace("WithOverflow", "")
            if op in _CMPS:
                v = ("cmp", op, canon_arith(expr(self.body, rv["a"])), canon_arith(expr(self.body, rv["b"])))
                if _is_debug_stmt(s):
                    v = ("dbg", v)
            elif op in ("BitAnd", "BitOr") and self.body.local_ty(l) == "bool":
                x, y = self._val(env, rv["a"]), self._val(env, rv["b"])
                if x is not None and y is not None:
                    v = ("and" if op == "BitAnd" else "or", x, y)
        elif k == "un" and rv["op"] == "Not" and self.body.local_ty(l) == "bool":
            x = self._val(env, rv["a"])
            if x is not None:
                v = ("c", 0 if x[1] else 1) if x[0] == "c" else ("not", x)
        elif k == "agg" and rv.get("ak") == "tuple":
            for i, f in enumerate(rv["fields"]):
                env[(l, i)] = self._val(env, f)
        env[l] = v

    def _call_val(self, env, t):
        b = self.body
        nm = callee_name(t) or ""
        a0 = self._val(env, t["args"][0]) if t["args"] and t["args"][0]["k"] != "const" else None
        if a0 is not None and a0[0] == "var":
            if re.search(r"ops::Try>::branch$|ops::Try::branch$", nm):
                cont = a0[2] in ("Some", "Ok")
                return ("var", "std::ops::ControlFlow", "Continue" if cont else "Break", 0 if cont else 1)
            m = re.search(r"Option::<T>::(is_some|is_none)$|Result::<T, E>::(is_ok|is_err)$", nm)
            if m:
                want = {"is_some": "Some", "is_none": "None", "is_ok": "Ok", "is_err": "Err"}[m.group(1) or m.group(2)]
                return ("c", 1 if a0[2] == want else 0)
        if re.search(r"Range(Inclusive)?<\w+>( as std::ops::RangeBounds<\w+>)?>?::contains$|ops::Range(Inclusive)?::<\w+>::contains$", nm) and len(t["args"]) == 2:
            r, x = expr(b, t["args"][0]), canon_arith(expr(b, t["args"][1]))
            m = re.match(r"^Range\{start: (.*), end: (.*)\}$", r)
            if m:
                lo, hi = m.group(1), m.group(2)
                if hi.count("(") == hi.count(")") and lo.count("(") == lo.count(")"):
                    return ("and", ("cmp", "Le", lo, x), ("cmp", "Lt", x, canon_arith(hi)))
            return None
        m = re.search(r"(?:PartialOrd|PartialEq)(?:<[^<>]*>)?(?: for [^>]*)?>?::(lt|le|gt|ge|eq|ne)$", nm)
        if m and len(t["args"]) == 2 and all(re.match(r"^&?(u|i)(8|16|32|64|128|size)$", re.sub(r"^&('\w+ )?", "&", x)) for x in (t.get("arg_tys") or ["?"])):
            return ("cmp", m.group(1).capitalize(), canon_arith(expr(b, t["args"][0])), canon_arith(expr(b, t["args"][1])))
        if not t["dest"]["p"] and b.local_ty(t["dest"]["l"]) == "bool":
            # any other predicate: an opaque atom named by its canonical call term; the fact is (term, "is", "true" | "false")
            from ..flow import _short_path
            full = t["fn"].get("resolved") or t["fn"].get("path") or "?"
            return ("pred", "%s(%s)" % (_short_path(full), ", ".join(expr(b, a) for a in t["args"])))
        return None

    def at(self, target, with_blocks=False, at_entry=False):
        """list of (frozenset(facts), env) over the feasible acyclic paths from entry to the terminator of `target`; None = too many paths.
        `target` may be a set of blocks: one walk, {block: list} (paths then continue past a target block).
        with_blocks: triples (facts, env, set of blocks on the path); at_entry: the facts on entry to `target`, before its own statements' writes"""
        many = not isinstance(target, int)
        targets = set(target) if many else {target}
        out = {t_: [] for t_ in targets}
        self.steps = 0
        body = self.body
        stack = [(0, {}, frozenset(), frozenset())]
        while stack:
            bb, env, facts, seen = stack.pop()
            self.steps += 1
            if self.steps > self.LIMIT:
                return None
            blk = body.blocks[bb]
            if blk["cleanup"]:
                continue
            env = dict(env)
            for si, s in enumerate(blk["stmts"]):
                if s["k"] == "assign":
                    if not s["place"]["p"] and s["place"]["l"] in self.multi:
                        s = dict(s, _site=(bb, si, s["rv"]))
                    self._assign(env, s)
            # facts about places that this block (or, at a loop head, any block of the loop) writes are dropped
            stoks, ttoks = self._tokens(bb)
            if bb in targets:
                f0 = self._kill(facts, (set() if at_entry else stoks) | set(self._loop_tokens(bb)))
                out[bb].append((f0, env, seen | {bb}) if with_blocks else (f0, env))
                if not many:
                    continue
            facts = self._kill(facts, stoks | set(self._loop_tokens(bb)))
            facts = self._kill(facts, ttoks)
            seen = seen | {bb}
            t = blk["term"]
            k = t["k"]
            nxt = []
            if k == "switch":
                v = self._val(env, t["d"]) if t["d"]["k"] != "const" else None
                edges = [(val, tg) for val, tg in zip(t["vals"], t["targets"])] + [(None, t["otherwise"])]
                is_bool = t["d"]["k"] != "const" and not t["d"]["place"]["p"] and body.local_ty(t["d"]["place"]["l"]) == "bool" or (v is not None)
                for val, tg in edges:
                    if val is not None:
                        truth = val != "0"
                    else:
                        truth = True if t["vals"] == ["0"] else (False if t["vals"] == ["1"] else None)
                    if v is not None and v[0] == "c":
                        if (val is not None and int(val) != v[1]) or (val is None and str(v[1]) in t["vals"]):
                            continue
                        nxt.append((tg, facts))
                    elif v is not None and is_bool and truth is not None:
                        nxt.append((tg, facts | frozenset(implied(v, truth))))
                    else:
                        nxt.append((tg, facts))
            elif k == "call":
                if not t["dest"]["p"]:
                    cv = self._call_val(env, t)
                    self._assign(env, {"place": t["dest"], "rv": {"k": "opaque"}, "_site": (bb, "term", t)})
                    env[t["dest"]["l"]] = cv
                if t["t"] >= 0:
                    nxt.append((t["t"], facts))
            elif k in ("goto", "assert", "drop"):
                if t["t"] >= 0:
                    nxt.append((t["t"], facts))
            for tg, f2 in nxt:
                if tg not in seen:
                    stack.append((tg, env, f2, seen))
        return out if many else out[target]

    def always(self, target, pred):
        """does every feasible path to `target` carry a fact satisfying pred(lhs, rel, rhs)?  (vacuously true when unreachable)"""
        r = self.at(target)
        if r is None:
            return False
        return all(any(pred(*f) for f in facts) for facts, env in r)


# ---- U8: two coordinate spaces ----------------------------------------------------------------------------
# storage offsets (Shape::offset, shape.start/end, strides) index the backing slice; window indices
# (row-major pos.row * width + pos.col, Shape::index) position a view iterator / feed Shape::nth.
_top_call = split_call


STORAGE_FIELD = re.compile(r"(?:[Ss]hape(?:\([^()]*\))?|arg1)\.(start|end|row_stride|col_stride)$")


def space_of(e):
    """'storage' | 'window' | 'mixed' | 'other' for a canonical integer term"""
    e = e.strip()
    m = re.match(r"^\((.*) as [iu]\w+\)$", e)
    if m:
        return space_of(m.group(1))
    if STORAGE_FIELD.search(e) and _top_call(e) is None:
        return "storage"
    tc = _top_call(e)
    if tc is None:
        return "other"
    nm, args = tc
    if nm == "Shape::offset":
        return "storage"
    if nm == "Shape::index":
        return "window"
    if nm in ("Add", "Sub", "Mul", "Div", "Rem", "cmp::min", "cmp::max") and len(args) == 2:
        a, b = space_of(args[0]), space_of(args[1])
        ks = {a, b} - {"other"}
        if not ks:
            return "window" if (nm == "Add" and _row_major(e) is not None) else "other"
        if len(ks) > 1 or "mixed" in ks:
            return "mixed"
        return ks.pop()
    return "other"


def _row_major(e):
    """(pos, width) when the term is pos.row * width + pos.col (either operand order), else None"""
    tc = _top_call(e)
    if tc is None or tc[0] != "Add" or len(tc[1]) != 2:
        return None
    for mul, col in (tc[1], tc[1][::-1]):
        mc = re.match(r"^(.*)\.col$", col)
        tm = _top_call(mul)
        if not mc or tm is None or tm[0] != "Mul" or len(tm[1]) != 2:
            continue
        for row, w in (tm[1], tm[1][::-1]):
            if row == mc.group(1) + ".row":
                return mc.group(1), w
    return None


def window_index_of(e):
    """(pos, shape-width term) for Shape::index(S, P) / row-major sums"""
    tc = _top_call(e)
    if tc and tc[0] == "Shape::index" and len(tc[1]) == 2:
        return tc[1][1], tc[1][0] + ".width"
    return _row_major(e)


def switches(body):
    for bb, t in body.terms():
        if t["k"] == "switch":
            yield bb, t, expr(body, t["d"])


def false_edge(t):
    """target taken when a bool discriminant is false"""
    if t["vals"] == ["0"]:
        return t["targets"][0], t["otherwise"]
    return None, None


def closure_upvars(prog, b, parent=None):
    """{'arg1.K': term of the K-th captured value in the creating body} for a closure body"""
    up = {}
    if b.kind == "Closure":
        cands = [parent] if parent is not None else []
        cands += [prog.body(b.j.get("closure_parent") or ""), prog.body(b.closure_root or "")]
        for par in cands:
            if par is None:
                continue
            for i, si, s_ in par.assigns():
                rv = s_["rv"]
                if rv["k"] == "agg" and rv["ak"] == "closure" and rv["def"] == b.path:
                    for k, f in enumerate(rv["fields"]):
                        up["arg1.%d" % k] = expr(par, f)
            if up:
                break
    return up


ITER_CONSUMERS = r"Iterator(<[^>]*>)?>?::(for_each|try_for_each|map|filter_map|fold|try_fold|all|any|find|find_map|position|inspect)$"


def closure_consumer(prog, cb):
    """(creating body, bb, call terminator, name of the closure parameter that receives the element) for a closure that is handed
    to exactly one call in the body that creates it; None otherwise"""
    if cb.kind != "Closure":
        return None
    for par in (prog.body(cb.j.get("closure_parent") or ""), prog.body(cb.closure_root or "")):
        if par is None:
            continue
        for i, si, s_ in par.assigns():
            rv = s_["rv"]
            if rv["k"] == "agg" and rv.get("ak") == "closure" and rv.get("def") == cb.path and not s_["place"]["p"]:
                cl = s_["place"]["l"]
                users = [(bb, t) for bb, t in par.calls() if any(a.get("k") in ("copy", "move") and a["place"]["l"] == cl and not a["place"]["p"] for a in t["args"])]
                if len(users) != 1:
                    return None
                bb, t = users[0]
                elem = "arg3" if call_matches(t, r"::(fold|try_fold)$") else "arg2"
                return par, bb, t, elem
    return None


def closure_context(prog, cb, depth=0):
    """{parameter / capture name of closure cb: term in the function that (transitively) creates it}: captures are what was captured,
    the element parameter of a closure handed to an iterator adaptor is the element term of that iterator (iter_elem); closures nested
    in closures are resolved outwards"""
    cons = closure_consumer(prog, cb)
    if cons is None or depth > 4:
        return closure_upvars(prog, cb)
    par, bb, t, elem_arg = cons
    mp = dict(closure_upvars(prog, cb, par))
    if call_matches(t, ITER_CONSUMERS) and t["args"]:
        el = iter_elem(prog, par.path, expr(par, t["args"][0]))
        if el is not None:
            mp[elem_arg] = el
    if par.kind == "Closure":
        pm = closure_context(prog, par, depth + 1)
        mp = {k: sub_terms(v, pm) for k, v in mp.items()}
    return mp


LAZY_CONSUMERS = r"(bool::<impl bool>::then|(option::Option|result::Result)::<.*>::(map|and_then|map_or|map_or_else|unwrap_or_else|or_else|filter|is_some_and|is_ok_and|ok_or_else|map_err|inspect|inspect_err|is_none_or|get_or_insert_with))$"


def closure_entry_facts(prog, root, cb, depth=0):
    """what is known whenever closure `cb` (created, directly or through enclosing closures, in the function whose body with helpers
    expanded is `root`) starts to run: one fact set (in root's terms) per feasible way to the call that runs it.  The closure must be
    handed to exactly one call that runs it at once and at most when reached (bool::then - which adds that the receiver is true -,
    Option/Result combinators, iterator consumers); None when the call is of another kind (the closure is then judged on its own)."""
    cons = closure_consumer(prog, cb)
    if cons is None or depth > 3:
        return None
    par, bb, t, _el = cons
    if not (call_matches(t, LAZY_CONSUMERS) or call_matches(t, ITER_CONSUMERS)):
        return None
    if par.kind == "Closure":
        outer = closure_entry_facts(prog, root, par, depth + 1)
        if outer is None:
            return None
        pm = closure_context(prog, par)
        pbody = par
    else:
        if par.path != root.path or bb >= len(par.blocks):
            return None
        outer, pm, pbody = [frozenset()], {}, root      # blocks of the function itself keep their numbers in the expanded body
    pe = PathEval(pbody)
    ps = pe.at(bb)
    if ps is None:
        return None
    out = []
    for facts, env in ps:
        extra = set()
        if call_matches(t, r"bool::<impl bool>::then$") and t["args"]:
            v = pe._val(env, t["args"][0])
            if v is not None and v[0] == "c":
                if v[1] == 0:
                    continue        # receiver known false on this way: the closure does not run
            elif v is not None:
                extra = set(implied(v, True))
        here = frozenset((sub_terms(x, pm), rel, sub_terms(y, pm)) for (x, rel, y) in set(facts) | extra)
        for o in outer:
            out.append(o | here)
    return out


def _closure_of_term(prog, owner, term):
    """(closure Body, [capture terms]) for a term `closure:{closure#k}[c0, c1]` computed inside body `owner`"""
    m = re.match(r"^closure:(\{closure#\d+\})\[(.*)\]$", term)
    if not m:
        return None
    cb = prog.body(owner + "::" + m.group(1))
    if cb is None:
        return None
    tc = split_call("f(%s)" % m.group(2))
    return cb, (tc[1] if tc else [])


def iter_elem(prog, owner, it, depth=0):
    """canonical term of the elements an iterator term yields, spelled like the induction variable of the equivalent `for` loop:
    a range gives range::next(IntoIterator::into_iter(Range{..}))@Some.0, map/flat_map substitute it into what their closure returns,
    adaptors that only drop or reorder elements are transparent.  `owner` = path of the body the term was computed in.  None = unknown."""
    if depth > 6:
        return None
    it = it.strip()
    if re.match(r"^Range\{start: .*, end: .*\}$", it):
        return "range::next(IntoIterator::into_iter(%s))@Some.0" % it
    tc = split_call(it)
    if tc is None:
        return None
    nm, args = tc
    if nm == "IntoIterator::into_iter" and len(args) == 1:
        return iter_elem(prog, owner, args[0], depth + 1)
    if nm in ("Iterator::filter", "Iterator::take", "Iterator::skip", "Iterator::rev", "Iterator::take_while", "Iterator::skip_while", "Iterator::inspect", "Iterator::fuse", "Iterator::peekable") and args:
        return iter_elem(prog, owner, args[0], depth + 1)
    if nm in ("Iterator::map", "Iterator::flat_map") and len(args) == 2:
        inner = iter_elem(prog, owner, args[0], depth + 1)
        cl = _closure_of_term(prog, owner, args[1])
        if inner is None or cl is None:
            return None
        cb, caps = cl
        mp = {"arg1.%d" % k: c for k, c in enumerate(caps)}
        mp["arg2"] = inner
        ret = sub_terms(expr(cb, {"k": "copy", "place": {"l": 0, "p": []}}), mp)
        return ret if nm == "Iterator::map" else iter_elem(prog, cb.path, ret, depth + 1)
    return None


def loop_elem(prog, owner, e):
    """the induction variable of a `for` loop over an iterator chain (`for o in (0..h).flat_map(..).map(|p| shape.offset(p))`), spelled as
    the element term of the chain (iter_elem) so that it reads like the variable of the equivalent nested range loops; other terms
    (and plain range loops, which already are in that spelling) are returned unchanged"""
    m = re.match(r"^(.*)@Some\.0$", e.strip())
    tc = split_call(m.group(1)) if m else None
    if tc is None or not re.search(r"(^|::)next$", tc[0]) or len(tc[1]) != 1:
        return e
    src = tc[1][0]
    ti = split_call(src)
    if ti is not None and ti[0] == "IntoIterator::into_iter" and len(ti[1]) == 1:
        src = ti[1][0]
    if re.match(r"^Range\{", src):
        return e
    el = iter_elem(prog, owner, src)
    return el if el is not None else e


def sub_terms(e, mp):
    """simultaneous substitution of whole sub-terms (longest keys first, word-bounded)"""
    if not mp:
        return e
    keys = sorted(mp, key=len, reverse=True)
    rx = re.compile("|".join(r"(?<![\w.])%s(?![\w])" % re.escape(k) for k in keys))
    return rx.sub(lambda m: mp[m.group(0)], e)


def _pos_terms(body, operand, up):
    """(row term, col term) of a Position-valued operand: struct literal or Position::new(row, col)"""
    if operand["k"] == "const":
        return None, None
    pl = operand["place"]
    out = []
    for i, nm in enumerate(("row", "col")):
        e = place_expr(body, {"l": pl["l"], "p": pl["p"] + [{"k": "field", "i": i, "name": nm, "adt": "", "ty": "usize"}]})
        m = re.match(r"^(Position::new\(.*\))\.(row|col)$", e)
        if m:
            tc = split_call(m.group(1))
            e = tc[1][i] if tc and len(tc[1]) == 2 else e
        out.append(sub_terms(e, up))
    return out[0], out[1]


def _nth_col_absint(prog, nb, bb):
    """fallback: the abstract interpreter proves col < width at the then_some call"""
    try:
        an = Engine(prog).analyze(nb.path)
        st = an.call_args.get(bb)
        t = nb.blocks[bb]["term"]
        pk = an.pkey(st, t["args"][1]["place"])
        colv = st.vals.get(pk + ".col")
        wt = st.term(st.vals.get(an.pkey(st, {"l": 1, "p": [{"k": "deref"}, {"k": "field", "i": 2, "name": "width", "adt": "", "ty": "usize"}]})))
        ct = st.term(colv) if colv is not None else None
        return ct is not None and wt is not None and bool(st.le(ct, wt, True))
    except Exception:
        return False


def run(ctx):
    prog = ctx.prog
    ctx.explanation = (
        "Decides from MIR the memory-safety and containment clauses of C07: U1 the only unsafe dereference (SurfaceMutIter::nth) is guarded by "
        "`offset < data.len()` on the same offset and the same slice; U2 get/get_mut reach the data only after both `row < height` and `col < width`; "
        "U3 Shape values are constructed only by From<Size>, Shape::view (2 literals) and Surface::transpose, with the expected field templates "
        "(strides inherited by view, width/height differences of the resolved bounds paired cols<->width and rows<->height, transpose swaps "
        "width<->height together with row_stride<->col_stride); U4 Shape::nth returns row < height and col < width (abstract interpretation); U5 every "
        "loop that indexes data[shape.offset(Position::new(row, col))] iterates row in 0..height and col in 0..width; U6 the mutable iterator's index "
        "is only ever increased by n+1 before an item is produced and starts at 0; U8 window (row-major) indices and storage offsets are kept apart: "
        "every access to the backing slice in surface.rs (7 indexings, get/get_mut, the raw ptr.add) uses a Shape::offset(..) term, every count handed to "
        "nth/skip of a surface iterator or to Shape::nth (8 sites crate-wide) is free of Shape::offset/start/end/stride terms, SurfaceMut::insert skips "
        "exactly pos.row * self.width() + pos.col (minus one for nth) cells of its own iter_mut(), Shape::index is pos.row * width + pos.col "
        "(floor 21 = 2 anchors + 8 positioning counts + 11 data accesses, counted by hand). With U3 (trusted lemma SHAPE-INV: in-window positions of such a "
        "Shape map to distinct in-bounds offsets) these imply no write outside the window and no two &mut to one cell. NOT decided: equality with a "
        "matrix model for every chain of view/transpose (value-level).")
    ctx.trust("SHAPE-INV", "for a Shape built only by From<Size>/view/transpose (U3) distinct in-window positions map to distinct offsets inside the parent's data")

    # ---------------- U1 unsafe deref ---------------------------------------------------------------
    ctx.rule("U1-UNSAFE", "every unsafe operation in surface.rs: raw deref guarded by offset < len of the same slice", floor=2)
    n_unsafe = 0
    NTH = "<surface::SurfaceMutIter<'a, T> as std::iter::Iterator>::nth"
    nth_inl = inlined_private(prog, NTH, keep=KEEP7)
    nth_parts = {NTH} | ({blk.get("inl_from") for blk in nth_inl.blocks} - {None} if nth_inl is not None else set())
    u1 = None

    def _u1():
        """(guarded?, why): the single ptr.add(off) on as_mut_ptr(D) is reached only with off < len(D) (any spelling of the test, any helper)"""
        ib = nth_inl
        adds = [(bb, t) for bb, t in ib.calls() if call_matches(t, r"mut_ptr::<impl \*mut T>::add$")]
        if len(adds) != 1:
            return False, "expected exactly one ptr.add in SurfaceMutIter::nth, found %d" % len(adds)
        abb, at = adds[0]
        ptr_e = expr(ib, at["args"][0])
        off_e = canon_arith(expr(ib, at["args"][1]))
        mm = re.match(r"^slice::as_mut_ptr\((.*)\)$", ptr_e)
        if not mm:
            return False, "pointer does not come from as_mut_ptr of a slice field: %s" % ptr_e
        data_e = mm.group(1)
        lens = ("slice::len(%s)" % data_e, "PtrMetadata(%s)" % data_e)
        if PathEval(ib).always(abb, lambda x, rel, y: rel == "<" and x == off_e and y in lens):
            return True, ""
        return False, "ptr.add(%s) on %s is not dominated by the branch `%s < len(%s)`" % (off_e[:60], data_e, off_e[:60], data_e)
    for b in prog.bodies:
        if not b.file.endswith("surface.rs"):
            continue
        obs = [o for o in obligations.collect(b, unsafe=True) if o.kind == "UNSAFE" and not o.exp]
        for o in obs:
            n_unsafe += 1
            ok = False
            why = "unsafe operation outside the single accepted site"
            if b.path in nth_parts and nth_inl is not None:
                if u1 is None:
                    u1 = _u1()
                ok, why = u1
            ctx.instance("U1-UNSAFE", {"fn": b.path, "op": o.sub, "site": o.site, "guarded": ok})
            if not ok:
                ctx.violation("U1-UNSAFE", b.path, o.sub, "unsafe %s at %s: %s" % (o.sub, o.site, why), sites=[o.site])
    # ---------------- U2 get / get_mut ------------------------------------------------------------------
    ctx.rule("U2-GET", "Surface::get / SurfaceMut::get_mut / SurfaceMut::set: data access dominated by row < height and col < width (debug-only guards do not count)", floor=3)
    for path, getter in (("surface::Surface::get", r"slice::<impl \[T\]>::get$"), ("surface::SurfaceMut::get_mut", r"slice::<impl \[T\]>::get_mut$"), ("surface::SurfaceMut::set", r"^\$never")):
        b0 = prog.body(path)
        if b0 is None:
            ctx.anchor("U2-GET", path)
            continue
        # private helpers (a shared `is_outside`, a checked-offset routine, ..) are looked through
        b = inlined_private(prog, path, keep=KEEP7)
        # the access may sit in the function itself or in a closure it runs (`inside.then(|| data.get_mut(..))`, `opt.and_then(|o| ..)`):
        # (body, term map into the function's terms, what is known on entry) per subject
        def _accs(x):
            out = [(bb, t) for bb, t in x.calls() if call_matches(t, getter) or call_matches(t, r"Index(Mut)?.*::index(_mut)?$")]
            for bb, t in x.terms():
                if t["k"] == "assert" and t["msg"]["kind"] == "BoundsCheck":
                    out.append((bb, t))
            return out
        subjects = [(b, {}, [frozenset()], _accs(b))]
        for cb in prog.bodies:
            if cb.kind == "Closure" and cb.closure_root == path and _accs(cb):
                ef = closure_entry_facts(prog, b, cb)
                subjects.append((cb, closure_context(prog, cb), ef if ef is not None else [frozenset()], _accs(cb)))
        if not any(a for _x, _mp, _ef, a in subjects):
            ctx.anchor("U2-GET", path + "/access")
            continue
        for sb, mp, entry, acc in subjects:
            pe = PathEval(sb)
            res = pe.at({abb for abb, at in acc}) if acc else {}
            for abb, at in acc:
                # on every way to the access: pos.row < <own shape>.height and pos.col < <own shape>.width, whatever spelled the test
                # (>=/< either operand order, !, &&, ||, early returns, match, a bool local, Range::contains, a helper predicate,
                # the receiver of bool::then when the access is in its closure)
                inner = None if res is None else [frozenset((sub_terms(x, mp), rel, sub_terms(y, mp)) for (x, rel, y) in facts) for facts, env in (res.get(abb) or [])]
                need = {}
                for ax, dim in (("row", "height"), ("col", "width")):
                    good = lambda fs, ax=ax, dim=dim: any(rel == "<" and x == "arg2." + ax and y.endswith("." + dim) and "shape(arg1)" in y[:-len(dim) - 1] for (x, rel, y) in fs)
                    # every (way to the closure, way inside it) pair knows the bound <=> all ways outside know it or all ways inside do
                    need[ax] = inner is not None and (all(good(fs) for fs in entry) or all(good(fs) for fs in inner))
                # the offset must be shape.offset(pos)
                off_ok = True
                oop = at["args"][1] if (at["k"] == "call" and len(at["args"]) > 1) else at["msg"]["index"] if at["k"] == "assert" else None
                if oop is not None:
                    # on every way to the access (e.g. out of a helper that returns Some(offset) / None)
                    oes = pe.terms(abb, oop)
                    off_ok = oes is not None and all(re.match(r"^Shape::offset\(.*shape\(arg1\), arg2\)$", sub_terms(oe, mp)) for oe in oes)
                ctx.instance("U2-GET", {"fn": path, "in": sb.path, "row_guard": need["row"], "col_guard": need["col"], "offset_is_shape_offset": off_ok})
                for ax in ("row", "col"):
                    if not need[ax]:
                        ctx.violation("U2-GET", path, "missing-%s-guard" % ax,
                                      "%s reaches the data without checking pos.%s against the view's %s: positions outside the window would alias other cells of the parent" % (path, ax, "height" if ax == "row" else "width"),
                                      sites=[b.loc])
                if not off_ok:
                    ctx.violation("U2-GET", path, "offset", "the accessed index is not shape.offset(pos)", sites=[b.loc])

    # ---------------- U3 Shape literal sites ---------------------------------------------------------------
    ctx.rule("U3-SHAPE", "Shape literals only in From<Size>::from, Shape::view (2) and Surface::transpose, with the expected field templates", floor=4)
    lits = []
    allowed = {"<surface::Shape as std::convert::From<terminal::Size>>::from", "surface::Shape::view", "surface::Surface::transpose"}
    part_of = {}       # private helper -> audited constructors it is expanded in (its literals are judged there, in the constructor's terms)
    for path in sorted(allowed):
        ib = inlined_private(prog, path, keep=KEEP7)
        if ib is None:
            continue
        for blk in ib.blocks:
            if blk.get("inl_from"):
                part_of.setdefault(blk["inl_from"], set()).add(path)
    for b in prog.bodies:
        if b.path in part_of:
            ctxs = expanded_copies(prog, b.path, keep=KEEP7)
            if ctxs and all(c.path in allowed for c in ctxs):
                continue
        b = inlined_private(prog, b.path, keep=KEEP7) if b.path in allowed else b
        for i, si, s in b.assigns():
            rv = s["rv"]
            if rv["k"] == "agg" and rv["ak"] == "adt" and rv["adt"] == "surface::Shape":
                lits.append((b, s, {n: expr(b, f) for n, f in zip(rv["fnames"], rv["fields"])}))
    vb = r"ViewBounds::view_bounds\((arg[23]), arg1\.(width|height)\)@Some\.0\.([01])"
    for b, s, f in lits:
        site = "%s:%d" % (b.file, s["line"])
        if b.path not in allowed:
            ctx.instance("U3-SHAPE", {"fn": b.path, "site": site, "allowed": False})
            ctx.violation("U3-SHAPE", b.path, "literal", "Shape constructed outside the audited constructors (the SHAPE-INV lemma covers only From<Size>, Shape::view and Surface::transpose)", sites=[site])
            continue
        ok = True
        why = []
        if b.path.endswith("::from"):
            exp = {"start": "0", "end": "Mul(arg1.height, arg1.width)", "width": "arg1.width", "height": "arg1.height", "row_stride": "arg1.width", "col_stride": "1"}
            for k, v in exp.items():
                if k == "end":
                    if f[k] not in ("Mul(arg1.height, arg1.width)", "Mul(arg1.width, arg1.height)"):
                        ok = False
                        why.append("end = %s" % f[k])
                elif f[k] != v:
                    ok = False
                    why.append("%s = %s (expected %s)" % (k, f[k], v))
        elif b.path == "surface::Shape::view":
            if all(f[k] == "0" for k in SHAPE_FIELDS):
                pass   # the empty window
            else:
                mw = re.match(r"^Sub\(%s, %s\)$" % (vb, vb), f["width"])
                mh = re.match(r"^Sub\(%s, %s\)$" % (vb, vb), f["height"])
                if not (mw and mw.group(1) == mw.group(4) and mw.group(2) == mw.group(5) == "width" and mw.group(3) == "1" and mw.group(6) == "0"):
                    ok = False
                    why.append("width = %s" % f["width"])
                if not (mh and mh.group(1) == mh.group(4) and mh.group(2) == mh.group(5) == "height" and mh.group(3) == "1" and mh.group(6) == "0"):
                    ok = False
                    why.append("height = %s" % f["height"])
                if mw and mh and not (mw.group(1) == "arg3" and mh.group(1) == "arg2"):
                    ok = False
                    why.append("width must be resolved from the `cols` selector (3rd parameter) and height from `rows` (2nd): got %s / %s" % (mw.group(1), mh.group(1)))
                if mw and mh:
                    ms = re.match(r"^Shape::offset\(arg1, Position::new\(%s, %s\)\)$" % (vb, vb), f["start"])
                    if not (ms and ms.group(1) == mh.group(1) and ms.group(2) == "height" and ms.group(3) == "0" and ms.group(4) == mw.group(1) and ms.group(5) == "width" and ms.group(6) == "0"):
                        ok = False
                        why.append("start = %s" % f["start"])
                if f["row_stride"] != "arg1.row_stride" or f["col_stride"] != "arg1.col_stride":
                    ok = False
                    why.append("strides not inherited: %s / %s" % (f["row_stride"], f["col_stride"]))
        elif b.path == "surface::Surface::transpose":
            sh = r"Surface::shape\(arg1\)"
            exp = {"start": "start", "end": "end", "width": "height", "height": "width", "row_stride": "col_stride", "col_stride": "row_stride"}
            for k, v in exp.items():
                if not re.match(r"^%s\.%s$" % (sh, v), f[k]):
                    ok = False
                    why.append("%s = %s (expected shape.%s)" % (k, f[k], v))
        ctx.instance("U3-SHAPE", {"fn": b.path, "site": site, "template_ok": ok, "fields": f})
        if not ok:
            ctx.violation("U3-SHAPE", b.path, "template", "Shape literal deviates from the constructor template: %s" % "; ".join(why), sites=[site])
    # Shape::offset itself
    ob = prog.body("surface::Shape::offset")
    if ob is None:
        ctx.anchor("U3-SHAPE", "Shape::offset")
    else:
        e = expr(ob, {"k": "copy", "place": {"l": 0, "p": []}})
        # start + row * row_stride + col * col_stride, in any association and operand order
        okf = sorted(tuple(flat_prod(x)) for x in flat_sum(canon_arith(e))) == sorted([("arg1.start",), ("arg1.row_stride", "arg2.row"), ("arg1.col_stride", "arg2.col")])
        ctx.instance("U3-SHAPE", {"fn": ob.path, "formula": e, "ok": okf})
        if not okf:
            ctx.violation("U3-SHAPE", ob.path, "formula", "Shape::offset is not start + row*row_stride + col*col_stride: %s" % e, sites=[ob.loc])

    # ---------------- U4 POST(Shape::nth) ----------------------------------------------------------------------
    ctx.rule("U4-NTH", "Shape::nth: Some(Position{row, col}) has row < height and col < width", floor=1)
    nb0 = prog.body("surface::Shape::nth")
    if nb0 is None:
        ctx.anchor("U4-NTH", "Shape::nth")
    else:
        nb = inlined_private(prog, nb0.path, keep=KEEP7)
        pe = PathEval(nb)
        N, W, H = "arg2", "arg1.width", "arg1.height"
        # every place where a Some(position) is made: cond.then_some(pos), cond.then(|| pos), Some(pos) under a branch
        sites = []
        for bb, t in nb.calls():
            if call_matches(t, r"bool::<impl bool>::then_some$|bool::then_some$") and re.search(r"Position", nb.local_ty(t["dest"]["l"])):
                sites.append((bb, t["args"][0], _pos_terms(nb, t["args"][1], {}), "then_some"))
            elif call_matches(t, r"bool::<impl bool>::then$|bool::then$") and re.search(r"Position", nb.local_ty(t["dest"]["l"])):
                cl = expr(nb, t["args"][1])
                cb = next((c for c in prog.closures_of(nb0) if cl.startswith("closure:%s[" % c.path.split("::")[-1])), None)
                if cb is not None:
                    up = closure_upvars(prog, cb, nb)
                    sites.append((bb, t["args"][0], _pos_terms(cb, {"k": "copy", "place": {"l": 0, "p": []}}, up), "then"))
        for i, si, s_ in nb.assigns():
            rv = s_["rv"]
            if rv["k"] == "agg" and rv.get("ak") == "adt" and rv.get("variant") == "Some" and re.search(r"Option<terminal::Position>", nb.local_ty(s_["place"]["l"])) and not s_.get("inl_ret"):
                sites.append((i, None, _pos_terms(nb, rv["fields"][0], {}), "Some"))
        for bb, cond, (row_e, col_e), kind in sites:
            paths = pe.at(bb)
            allf = []
            for facts, env in paths or []:
                f2 = set(facts)
                if cond is not None:
                    f2 |= set(implied(pe._val(env, cond), True))
                allf.append(f2)
            row_e, col_e = canon_arith(row_e or "?"), canon_arith(col_e or "?")
            quot = "Div(%s, %s)" % (N, W)
            ok_row = paths is not None and row_e == quot and all((row_e, "<", H) in f for f in allf)
            # col < width: the remainder of n by width in any spelling, or an explicit test
            tc = split_call(col_e)
            ok_col = col_e == "Rem(%s, %s)" % (N, W) \
                or bool(tc and tc[0] == "Sub" and len(tc[1]) == 2 and tc[1][0] == N and flat_prod(tc[1][1]) == sorted([quot, W])) \
                or (paths is not None and all((col_e, "<", W) in f for f in allf))
            if not ok_col and kind == "then_some" and nb is nb0:
                ok_col = _nth_col_absint(prog, nb0, bb)
            ctx.instance("U4-NTH", {"site": kind, "row": row_e, "col": col_e, "row_is_quotient_and_tested": ok_row, "col_lt_width": ok_col})
            ctx.oblig(ok_row and ok_col, "POST")
            if not ok_row:
                ctx.violation("U4-NTH", nb0.path, "row", "Shape::nth does not guard the returned row (%s) with row < height, or the row is not n / width" % row_e[:80], sites=[nb0.loc])
            if not ok_col:
                ctx.violation("U4-NTH", nb0.path, "col", "Shape::nth: returned col (%s) is not provably < width (expected n %% width or n - (n / width) * width)" % col_e[:80], sites=[nb0.loc])
        if not sites:
            ctx.anchor("U4-NTH", "nth/Some-sites")

    # ---------------- U5 loops over the window --------------------------------------------------------------------
    ctx.rule("U5-LOOPS", "data[shape.offset(Position::new(row, col))] with row from 0..shape.height and col from 0..shape.width", floor=5)
    pat = re.compile(r"Shape::offset\((?P<sh>.*?), Position::new\(range::next\(IntoIterator::into_iter\(Range\{start: 0, end: (?P<h>.*?)\}\)\)@Some\.0, range::next\(IntoIterator::into_iter\(Range\{start: 0, end: (?P<w>.*?)\}\)\)@Some\.0\)\)")
    n_loops = 0
    for b in prog.bodies:
        if not b.file.endswith(("surface.rs",)):
            continue
        for bb, t in b.terms():
            idx_e = None
            if t["k"] == "assert" and t["msg"]["kind"] == "BoundsCheck":
                idx_e = expr(b, t["msg"]["index"])
            if idx_e is None:
                continue
            if b.kind == "Closure":
                # a closure driven by an iterator chain (`(0..h).flat_map(|r| (0..w).map(move |c| Position::new(r, c))).for_each(|pos| ..)`) is the
                # same loop: the element term of the chain is substituted for the closure's parameter (the offset itself may have been
                # computed by an earlier stage: `.map(|p| shape.offset(p)).for_each(|o| data[o] = ..)`); closures handed to new_with get
                # their position from new_with(shape.size(), ..) (checked below)
                cons = closure_consumer(prog, b)
                if cons is None or not call_matches(cons[2], ITER_CONSUMERS):
                    continue
                idx_e = sub_terms(idx_e, closure_context(prog, b))
            else:
                idx_e = loop_elem(prog, b.path, idx_e)
            if "Shape::offset" not in idx_e:
                continue
            if b.path == "surface::SurfaceMut::set":
                continue   # caller-supplied position: covered by the guard rule U2
            n_loops += 1
            m = pat.search(idx_e)
            ok = bool(m) and m.group("h") == m.group("sh") + ".height" and m.group("w") == m.group("sh") + ".width"
            ctx.instance("U5-LOOPS", {"fn": b.path, "line": t["line"], "index": idx_e[:160], "ok": ok})
            if not ok:
                ctx.violation("U5-LOOPS", b.path, "index", "an indexing of the backing data through shape.offset(..) is not driven by row in 0..shape.height and col in 0..shape.width: %s" % idx_e[:200],
                              sites=["%s:%d" % (b.file, t["line"])])
    # closures of map / to_owned_surf: position comes from SurfaceOwned::new_with(shape.size(), ..) which iterates the same size
    for path in ("surface::Surface::map", "surface::Surface::to_owned_surf"):
        b = prog.body(path)
        if b is None:
            ctx.anchor("U5-LOOPS", path)
            continue
        nw = [(bb, t) for bb, t in b.calls() if call_matches(t, r"^surface::SurfaceOwned::<T>::new_with$")]
        ok = len(nw) == 1 and re.match(r"^Shape::size\(Surface::shape\(arg1\)\)$", expr(b, nw[0][1]["args"][0])) is not None
        n_loops += 1
        ctx.instance("U5-LOOPS", {"fn": path, "new_with_size": expr(b, nw[0][1]["args"][0]) if nw else None, "ok": ok})
        if not ok:
            ctx.violation("U5-LOOPS", path, "size", "the closure indexing data[shape.offset(pos)] is driven by a size other than shape.size()", sites=[b.loc])
    nwb = prog.body("surface::SurfaceOwned::<T>::new_with")
    if nwb is None:
        ctx.anchor("U5-LOOPS", "SurfaceOwned::new_with")

    # ---------------- U7 element-wise access to the backing data -------------------------------------------------
    ctx.rule("U7-ELEMENTWISE", "the backing slice (data()/data_mut()) is only indexed element-wise, handed to get/get_mut/len/as_mut_ptr, or stored in a view/iterator struct", floor=7)
    DATA_RX = r"^(Surface::data|SurfaceMut::data_mut)\((arg1|Surface::shape\(arg1\)|.*)\)$"
    OK_CALLEES = r"(slice::<impl \[T\]>::(get|get_mut|len|as_mut_ptr|as_ptr|is_empty)|Surface::data|SurfaceMut::data_mut|Surface>::data|SurfaceMut>::data_mut)$"
    n_uses = 0
    for b in prog.bodies:
        if not b.file.endswith("surface.rs"):
            continue
        if b.name in ("data", "data_mut"):
            continue
        # inside a closure the slice is a captured value: name it by what was captured
        up7 = closure_context(prog, b) if b.kind == "Closure" else {}

        def ex7(o, b=b, up7=up7):
            return sub_terms(expr(b, o), up7)
        for bb, t in b.calls():
            if call_matches(t, OK_CALLEES):
                for a in t["args"][:1]:
                    if re.match(DATA_RX, ex7(a)):
                        n_uses += 1
                        ctx.instance("U7-ELEMENTWISE", {"fn": b.path, "use": callee_name(t).split("::")[-1], "ok": True}, nontrivial=False)
                continue
            for a in t["args"]:
                e = ex7(a)
                if re.match(DATA_RX, e) and not e.startswith("Surface::data(Surface::as_ref") :
                    n_uses += 1
                    ctx.instance("U7-ELEMENTWISE", {"fn": b.path, "use": callee_name(t), "ok": False})
                    ctx.violation("U7-ELEMENTWISE", b.path, callee_name(t).split("::")[-1],
                                  "the backing data slice is handed to %s: bulk/slice operations ignore the view's strides and window (only element-wise access through shape.offset is audited)" % callee_name(t),
                                  sites=["%s:%d" % (b.file, t["line"])])
        for bb, t in b.terms():
            if t["k"] == "assert" and t["msg"]["kind"] == "BoundsCheck" and re.search(r"PtrMetadata\((Surface::data|SurfaceMut::data_mut)\(", ex7(t["msg"]["len"])):
                n_uses += 1
                ctx.instance("U7-ELEMENTWISE", {"fn": b.path, "use": "index", "ok": True}, nontrivial=False)
    if n_uses == 0:
        ctx.anchor("U7-ELEMENTWISE", "data-uses")

    # ---------------- U8 window indices vs storage offsets ----------------------------------------------------------
    ctx.rule("U8-INDEX", "row-major window indices position view iterators / feed Shape::nth, storage offsets (Shape::offset) index the backing slice: never interchanged; "
             "provided Surface/SurfaceMut methods position their iterator at pos.row * width + pos.col of the receiver", floor=21)
    POS_CALL = r"Iterator>?::(nth|skip|advance_by|nth_back|step_by)$"
    SURF_ITER_TY = r"surface::Surface(Pos)?(Mut)?(Pos)?Iter\b"
    DATA_TERM = r"^(PtrMetadata\()?(slice::as_mut_ptr\(|slice::as_ptr\()?(Surface::data\(|SurfaceMut::data_mut\(|arg1(\.\w+)*\.data\b)"
    SLICE_ACC = r"slice::<impl \[T\]>::(get|get_mut|get_unchecked|get_unchecked_mut)$|mut_ptr::<impl \*mut T>::add$|const_ptr::<impl \*const T>::add$"

    def _upvars(b):
        return closure_context(prog, b) if b.kind == "Closure" else {}

    def _sub_up(e, up):
        return sub_terms(e, up)

    # anchors: the two conversion routines and the width accessor
    ib = prog.body("surface::Shape::index")
    if ib is None:
        ctx.anchor("U8-INDEX", "Shape::index")
    else:
        e = expr(ib, {"k": "copy", "place": {"l": 0, "p": []}})
        wi = _row_major(e)
        okf = wi == ("arg2", "arg1.width")
        ctx.instance("U8-INDEX", {"fn": ib.path, "formula": e, "ok": okf})
        if not okf:
            ctx.violation("U8-INDEX", ib.path, "formula", "Shape::index is not pos.row * width + pos.col: %s" % e, sites=[ib.loc])
    wbody = prog.body("surface::Surface::width")
    okw = wbody is not None and expr(wbody, {"k": "copy", "place": {"l": 0, "p": []}}) == "Surface::shape(arg1).width"
    ctx.instance("U8-INDEX", {"fn": "surface::Surface::width", "is_shape_width": okw})
    if not okw:
        ctx.anchor("U8-INDEX", "Surface::width")
    WIDTHS = ("Surface::width(arg1)", "Surface::shape(arg1).width", "Surface::size(arg1).width", "Shape::size(Surface::shape(arg1)).width")
    def ix_terms(b, bb, operand):
        """candidate terms of an index operand at block bb: the static term when it already is an offset term, otherwise the terms
        on every feasible path (an offset that comes out of a helper returning Some(offset) / None, a phi of two offsets ..)"""
        ie = canon_arith(expr(b, operand))
        if ie.startswith("Shape::offset("):
            return [ie]
        ts = PathEval(b).terms(bb, operand)
        ts = sorted(ts) if ts else [ie]
        if b.kind == "Closure":
            # the index may be (or contain) the closure's element parameter / a capture: an offset computed by an earlier stage of the
            # iterator chain (`.map(|p| shape.offset(p)).for_each(|o| data[o] = v)`) or hoisted into a captured local is the same
            # offset; the parameter is replaced by the element term of the chain, captures by what was captured
            cm = _upvars(b)
            ts = sorted({canon_arith(sub_terms(x, cm)) for x in ts})
        else:
            ts = sorted({canon_arith(loop_elem(prog, b.path, x)) for x in ts})    # `for offset in <chain of offsets>`
        return ts
    for b in prog.bodies:
        in_surface = b.file.endswith("surface.rs")
        if in_surface and b.kind != "Closure":
            b = inlined_private(prog, b.path, keep=KEEP7) or b      # private helpers of the surface routines are part of them
        up = None
        for bb, t in b.calls():
            site = "%s:%d" % (b.file, t["line"])
            nm = callee_name(t) or ""
            short = nm.split("::")[-1]
            # A. positioning counts
            is_pos = False
            if call_matches(t, POS_CALL) and len(t["args"]) == 2:
                rl = t["args"][0].get("place", {}).get("l")
                rty = b.local_ty(rl) if rl is not None else ""
                re0 = expr(b, t["args"][0])
                is_pos = bool(re.search(SURF_ITER_TY, nm) or re.search(SURF_ITER_TY, rty) or re.search(r"(Surface::iter|SurfaceMut::iter_mut)\(", re0))
            if call_matches(t, r"^surface::Shape::nth$") and len(t["args"]) == 2:
                is_pos = True
            if is_pos:
                cnt = canon_arith(expr(b, t["args"][1]))
                sp = space_of(cnt)
                ok = sp in ("window", "other")
                why = "the count handed to %s is a %s value (%s): a storage offset differs from the row-major index for every view with start != 0 or strides != (width, 1)" % (short, sp, cnt[:160])
                if ok and re.match(r"^surface::Surface(Mut)?::\w+$", b.path) and not re.match(r"^\d+$", cnt) and short != "step_by" and not call_matches(t, r"Shape::nth$"):
                    # provided trait method positioning its own iterator at a caller-supplied position
                    core = cnt
                    if short in ("nth", "nth_back"):
                        tc = _top_call(cnt)
                        core = tc[1][0] if (tc and tc[0] == "Sub" and len(tc[1]) == 2 and tc[1][1] == "1") else None
                    wi = window_index_of(core) if core else None
                    ok = wi is not None and re.match(r"^arg[2-9]$", wi[0]) is not None and wi[1] in WIDTHS and re.search(r"(Surface::iter|SurfaceMut::iter_mut)\(arg1\)", expr(b, t["args"][0])) is not None
                    why = "%s(%s) does not skip exactly the pos.row * self.width() + pos.col cells that precede `pos` in the row-major order of this view" % (short, cnt[:160])
                ctx.instance("U8-INDEX", {"fn": b.path, "positioning": short, "count": cnt[:120], "space": sp, "ok": ok})
                if not ok:
                    ctx.violation("U8-INDEX", b.path, "%s-count" % short, why, sites=[site])
                continue
            if not in_surface:
                # B'. outside surface.rs the backing store of a surface / image is reached through data()/data_mut() (or the `data` field of
                # Image / SurfaceOwned inside their own impls); whatever indexes it — element or range — must be a Shape::offset(..) term
                if b.file.startswith("src/") and call_matches(t, r"ops::Index(Mut)?<I>( for [^>]*(<[^>]*>)?)?>::index(_mut)?$|::get(_mut)?$|::get_unchecked(_mut)?$") and len(t["args"]) == 2:
                    re0 = expr(b, t["args"][0])
                    own_field = re.search(r"(^|\()arg1\.data\b", re0) and re.sub(r"<.*$", "", b.impl_self or "") in ("image::Image", "surface::SurfaceOwned")
                    if re.search(r"(Surface::data|SurfaceMut::data_mut|Image::data)\(", re0) or own_field:
                        ie = _sub_up(expr(b, t["args"][1]), _upvars(b))
                        ok = ie.startswith("Shape::offset(")
                        ctx.instance("U8-INDEX", {"fn": b.path, "data_access_outside_surface_rs": short, "index": ie[:120], "ok": ok})
                        if not ok:
                            ctx.violation("U8-INDEX", b.path, "%s-index" % short, "the backing store of a surface/image is accessed at %s, which is not a Shape::offset(..) of the view: "
                                          "cropped, strided and transposed views (shape.start != 0, strides != (width, 1)) address other cells" % ie[:160], sites=[site])
                continue
            if up is None:
                up = _upvars(b)
            # B. element access to the backing data
            if call_matches(t, SLICE_ACC) and len(t["args"]) == 2 and re.match(DATA_TERM, _sub_up(expr(b, t["args"][0]), up)):
                ies = ix_terms(b, bb, t["args"][1])
                ok = all(space_of(x) == "storage" and x.startswith("Shape::offset(") for x in ies)
                ie = " | ".join(ies)
                ctx.instance("U8-INDEX", {"fn": b.path, "data_access": short, "index": ie[:120], "ok": ok})
                if not ok:
                    ctx.violation("U8-INDEX", b.path, "%s-index" % short, "the backing slice is accessed at %s, which is not a Shape::offset(..) of the view (a row-major index addresses the parent's cells only for an untransposed full-width view at the origin)" % ie[:160], sites=[site])
                continue
            # C. a storage offset handed to anything else
            if call_matches(t, r"^surface::Shape::(offset|index)$"):
                continue
            for a in t["args"]:
                e = expr(b, a)
                if space_of(e) in ("storage", "mixed") and _top_call(e) is not None:
                    ctx.violation("U8-INDEX", b.path, "offset-to-%s" % short, "a storage offset (%s) is handed to %s; offsets are only meaningful as indices of the backing slice" % (e[:160], nm), sites=[site])
        if not in_surface:
            if b.file.startswith("src/"):
                for bb, t in b.terms():
                    if t["k"] == "assert" and t["msg"]["kind"] == "BoundsCheck":
                        le = expr(b, t["msg"]["len"])
                        if not re.search(r"(Surface::data|SurfaceMut::data_mut|Image::data)\(", le):
                            continue
                        ie = _sub_up(expr(b, t["msg"]["index"]), _upvars(b))
                        ok = ie.startswith("Shape::offset(")
                        ctx.instance("U8-INDEX", {"fn": b.path, "data_access_outside_surface_rs": "index", "index": ie[:120], "ok": ok})
                        if not ok:
                            ctx.violation("U8-INDEX", b.path, "data-index", "the backing store of a surface/image is indexed with %s, which is not a Shape::offset(..) of the view" % ie[:160],
                                          sites=["%s:%d" % (b.file, t["line"])])
            continue
        for bb, t in b.terms():
            if t["k"] == "assert" and t["msg"]["kind"] == "BoundsCheck":
                if up is None:
                    up = _upvars(b)
                le = _sub_up(expr(b, t["msg"]["len"]), up)
                if not re.match(DATA_TERM, le):
                    continue
                ies = ix_terms(b, bb, t["msg"]["index"])
                ok = all(space_of(x) == "storage" and x.startswith("Shape::offset(") for x in ies)
                ie = " | ".join(ies)
                ctx.instance("U8-INDEX", {"fn": b.path, "data_access": "index", "index": ie[:120], "ok": ok})
                if not ok:
                    ctx.violation("U8-INDEX", b.path, "data-index", "the backing slice is indexed with %s, which is not a Shape::offset(..) of the view" % ie[:160], sites=["%s:%d" % (b.file, t["line"])])

    # ---------------- U6 iterator progress -------------------------------------------------------------------------
    ctx.rule("U6-PROGRESS", "SurfaceMutIter: index written only as index += n + 1 before producing an item; constructed with index 0", floor=2)
    it = prog.body("<surface::SurfaceMutIter<'a, T> as std::iter::Iterator>::nth")
    if it is None:
        ctx.anchor("U6-PROGRESS", "SurfaceMutIter::nth")
    else:
        ws = []
        for i, si, s in it.assigns():
            pe = resolve_place(it, s["place"])
            if pe == "(*_1).index":
                ws.append((i, s, expr_rv(it, s)))
        okw = len(ws) == 1 and flat_sum(canon_arith(ws[0][2])) == sorted(["arg1.index", "arg2", "1"])
        cfg = it.cfg()
        adds = [bb for bb, t in it.calls() if call_matches(t, r"mut_ptr::<impl \*mut T>::add$")]
        dom = okw and all(cfg.dominates(ws[0][0], a) for a in adds)
        ctx.instance("U6-PROGRESS", {"index_writes": [w[2] for w in ws], "dominates_item": dom})
        if not (okw and dom):
            ctx.violation("U6-PROGRESS", it.path, "index", "the mutable iterator's index is not advanced by n + 1 before an item is produced: two calls could return the same cell", sites=[it.loc])
    n_lit = 0
    for b in prog.bodies:
        for i, si, s in b.assigns():
            rv = s["rv"]
            if rv["k"] == "agg" and rv["ak"] == "adt" and rv["adt"] == "surface::SurfaceMutIter":
                n_lit += 1
                f = {n: expr(b, o) for n, o in zip(rv["fnames"], rv["fields"])}
                ok = f.get("index") == "0"
                ctx.instance("U6-PROGRESS", {"literal_in": b.path, "index": f.get("index"), "ok": ok})
                if not ok:
                    ctx.violation("U6-PROGRESS", b.path, "literal-index", "SurfaceMutIter constructed with a non-zero index", sites=["%s:%d" % (b.file, s["line"])])
    if n_lit == 0:
        ctx.anchor("U6-PROGRESS", "SurfaceMutIter-literal")
    if ctx.tier == "thorough":
        thorough(ctx)


def _debug_only(body, t):
    """the switch consumes a comparison written inside debug_assert!: absent from release builds"""
    l = op_local(t["d"])
    seen = set()
    while l is not None and l not in seen:
        seen.add(l)
        ds = body.defs_of(l)
        if len(ds) != 1 or ds[0][1] == "term":
            return False
        bb, si, rv = ds[0]
        st = body.blocks[bb]["stmts"][si]
        if (st.get("expk") or "").startswith("bang:debug_assert"):
            return True
        if rv["k"] == "un" and rv["op"] == "Not":
            l = op_local(rv["a"])
            continue
        if rv["k"] == "use":
            l = op_local(rv["a"])
            continue
        return False
    return False


def thorough(ctx):
    from .. import witness
    witness.run(ctx, "WITNESS")


def expr_rv(body, s):
    rv = s["rv"]
    if rv["k"] == "use":
        return expr(body, rv["a"])
    if rv["k"] == "bin":
        return "%s(%s, %s)" % (rv["op"].replace("WithOverflow", ""), expr(body, rv["a"]), expr(body, rv["b"]))
    return rv["k"]
