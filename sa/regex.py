"""Small self-contained automata library for the grammar engine E2 (DESIGN.md §3) — python3 stdlib only.

Byte classes
    A byte class is a 256-bit python int (bit b set <=> byte b is in the class).
    cls(iterable) / cls_range(lo, hi) / cls_bytes(mask) / cls_text(mask) / ALL / NONE.

Expression trees  (class Rx; immutable, shared by `.clone()` in the extracted grammars)
    Rx(op, args=(), data=None, site=None) with op in
        'lit'  data=bytes           'pred' data=mask          'empty' (ε)      'nothing' (∅)
        'seq'  args=operands        'choice' args=operands
        'some' (one or more)        'many' (zero or more)     'optional'
        'tag'  args=(e,) data=tag   (tag put on the stop state, language unchanged)
        'tagmap' args=(e,) data=callable(tag)->tag
    site = Site(fn, comb, ordinal, file, line) — where the combinator application is written.
    rx_text(rx) renders a compact regex-like text.

Two semantics (both return an ε-NFA fragment `NFA` with .start/.stop)
    build_regex(rx)              documented meaning; every operator allocates fresh states (direct textbook code,
                                 written independently of the template machinery below)
    build_asbuilt(rx, wiring)    mirrors the repository: `wiring` maps combinator name -> Template (see below) as READ
                                 from /repo/src/automata.rs by sa.grammar.read_wiring(src); nothing about
                                 the repository's wiring is hard-coded here.
    Template(name, arity, reserve, new_states, eps, start, stop, on_empty, byte_edges)
        arity 'leaf' | 'unary' | 'nary'; reserve = number of state ids kept free in front of the operands (merge offset);
        new_states = fresh roles actually inserted ('N0','N1'); eps = frozenset of (scope, from_role, to_role) with
        scope 'once' | 'each' (for every operand i) | 'adjacent' (for every i >= 1, roles 'Sp','Tp' = operand i-1);
        operand roles 'S','T' (current/only operand), 'S0','T0' (first), 'Sn','Tn' (last); result (start, stop) roles.
    THOMPSON[name] = {'fresh': Template|None, 'inplace': Template|None}  textbook templates; classify(t) -> 'fresh'|'inplace'|None
    apply_template(t, operands, mask=None, data=None) builds the fragment.
    start_has_in(nfa) / stop_has_out(nfa)  the two shape flags of DESIGN §11.

DFAs
    determinize(nfa) -> DFA (power set, tags = union of member tags);  minimize(dfa) -> trimmed minimal DFA
    compile_rx(rx, wiring=None) -> minimal DFA (regex semantics if wiring is None)
    DFA fields: n, start, atom_of[256], reps[atom], masks[atom], trans[state][atom] (-1 = dead), acc[state], tags[state]
    accepts(d, data) · is_empty(d) · accepts_empty(d) · minlen(d) (None if empty) · maxlen(d) (None if infinite, -1 if empty)
    common_prefix(d) / common_suffix(d) -> bytes shared by all words
    distinguish(d1, d2) -> None | (word, in1, in2)   shortest distinguishing string (equivalence test)
    distinguish_tagged(d1, d2) -> None | (word, (acc1, tags1), (acc2, tags2))   same, accepted words must also carry equal tag sets
    equivalent(d1, d2) -> bool · subset_witness(d1, d2) -> shortest word of L1 \\ L2 or None
    intersect_witness(d1, d2) -> shortest common word or None
    tagged_union({name: nfa}) -> minimal DFA whose accepting states carry frozenset of names
    accepting_extendable(d) -> [{'word','tags','extension','ext_tags'}] accepting states with a live continuation
    prefix_conflicts(d) (same thing, just the (word, tags) pairs)
    run_parity_witness(d, mask) -> word with an odd-length maximal run of bytes from `mask`, or None
    run_min_length(d, mask, skip_first=False) -> (min length of a maximal run, witness) over all words
    split_piece_min_len(d, sep_mask, skip=0, cap=64) -> (min length of a piece of word.split(sep) with index >= skip, witness)
    slice_dfa(d, front, back) -> (DFA of the payloads w[front:len(w)-back], complete(payload) -> full word or None)
    words_upto(d, k) -> sorted list of all words of length <= k (small alphabets only)
    lang_upto(rx, k, alphabet) -> set of words by the denotational definition (no automata; used to validate the above)
"""
from collections import deque, namedtuple

ALL = (1 << 256) - 1
NONE = 0


# ------------------------------------------------------------------------------------------------
# byte classes
# ------------------------------------------------------------------------------------------------
def cls(it):
    m = 0
    for b in it:
        m |= 1 << b
    return m


def cls_range(lo, hi):
    """inclusive range"""
    if hi < lo:
        return 0
    return ((1 << (hi - lo + 1)) - 1) << lo


def cls_bytes(mask):
    out = []
    b = 0
    while mask:
        if mask & 0xFFFFFFFFFFFFFFFF == 0:
            mask >>= 64
            b += 64
            continue
        if mask & 1:
            out.append(b)
        mask >>= 1
        b += 1
    return out


def _btxt(b):
    if b == 0x1b:
        return "ESC"
    if 33 <= b < 127 and chr(b) not in "[]-^\\":
        return chr(b)
    return "\\x%02x" % b


def cls_text(mask):
    if mask == ALL:
        return "."
    neg = False
    bs = cls_bytes(mask)
    if len(bs) > 128:
        neg = True
        bs = cls_bytes(ALL & ~mask)
    parts = []
    i = 0
    while i < len(bs):
        j = i
        while j + 1 < len(bs) and bs[j + 1] == bs[j] + 1:
            j += 1
        if j - i >= 2:
            parts.append("%s-%s" % (_btxt(bs[i]), _btxt(bs[j])))
        else:
            parts.extend(_btxt(b) for b in bs[i:j + 1])
        i = j + 1
    if len(bs) == 1 and not neg:
        return parts[0]
    return "[%s%s]" % ("^" if neg else "", "".join(parts))


def bytes_text(bs):
    """readable rendering of a byte string for messages (ESC shown as ESC)"""
    out = []
    for b in bs:
        if b == 0x1b:
            out.append("ESC")
        elif 32 < b < 127:
            out.append(chr(b))
        else:
            out.append("\\x%02x" % b)
    return " ".join(out) if out else "<empty>"


# ------------------------------------------------------------------------------------------------
# expression trees
# ------------------------------------------------------------------------------------------------
Site = namedtuple("Site", "fn comb ordinal file line")


class Rx:
    __slots__ = ("op", "args", "data", "site")

    def __init__(self, op, args=(), data=None, site=None):
        self.op = op
        self.args = tuple(args)
        self.data = data
        self.site = site

    def __repr__(self):
        return "Rx<%s>" % rx_text(self)


def rx_text(rx, limit=400):
    def go(r, prec):
        op = r.op
        if op == "lit":
            return '"%s"' % "".join("\\e" if b == 0x1b else (chr(b) if 32 <= b < 127 and b not in (0x22, 0x5c) else "\\x%02x" % b) for b in r.data)
        if op == "pred":
            return cls_text(r.data)
        if op == "empty":
            return "ε"
        if op == "nothing":
            return "∅"
        if op in ("tag", "tagmap"):
            return go(r.args[0], prec)
        if op == "seq":
            s = " ".join(go(a, 1) for a in r.args) or "ε"
            return "(%s)" % s if prec > 1 else s
        if op == "choice":
            if len(r.args) > 8:
                s = "|".join(go(a, 1) for a in r.args[:4]) + "|…%d more" % (len(r.args) - 4)
            else:
                s = "|".join(go(a, 1) for a in r.args) or "∅"
            return "(%s)" % s if prec > 0 else s
        suf = {"some": "+", "many": "*", "optional": "?"}[op]
        return go(r.args[0], 2) + suf
    t = go(rx, 0)
    return t if len(t) <= limit else t[:limit] + "…"


def rx_nodes(rx, seen=None):
    """distinct nodes (by identity) in post-order"""
    if seen is None:
        seen = {}
    out = []

    def go(r):
        if id(r) in seen:
            return
        seen[id(r)] = r
        for a in r.args:
            go(a)
        out.append(r)
    go(rx)
    return out


# ------------------------------------------------------------------------------------------------
# ε-NFA fragments
# ------------------------------------------------------------------------------------------------
class NFA:
    """ε-NFA fragment. States are 0..n-1. sym[s] = [(mask, target)], eps[s] = set(targets), tag = {state: tag}."""
    __slots__ = ("n", "start", "stop", "sym", "eps", "tag")

    def __init__(self, n=0):
        self.n = n
        self.start = 0
        self.stop = 0
        self.sym = [[] for _ in range(n)]
        self.eps = [set() for _ in range(n)]
        self.tag = {}

    def new_state(self):
        self.sym.append([])
        self.eps.append(set())
        self.n += 1
        return self.n - 1

    def absorb(self, other):
        """copy `other` into self with fresh ids; returns the offset"""
        off = self.n
        for s in range(other.n):
            self.sym.append([(m, t + off) for (m, t) in other.sym[s]])
            self.eps.append({t + off for t in other.eps[s]})
        for s, tg in other.tag.items():
            self.tag[s + off] = tg
        self.n += other.n
        return off

    def edge_count(self):
        return sum(len(x) for x in self.sym) + sum(len(x) for x in self.eps)


def start_has_in(nfa):
    s = nfa.start
    for q in range(nfa.n):
        if s in nfa.eps[q]:
            return True
        for (_, t) in nfa.sym[q]:
            if t == s:
                return True
    return False


def stop_has_out(nfa):
    return bool(nfa.eps[nfa.stop]) or bool(nfa.sym[nfa.stop])


# ---- regex semantics: direct textbook constructions, all fresh --------------------------------
def _rx_leaf_lit(data):
    a = NFA(len(data) + 1)
    for i, b in enumerate(data):
        a.sym[i].append((1 << b, i + 1))
    a.start, a.stop = 0, len(data)
    return a


def _rx_pred(mask):
    a = NFA(2)
    if mask:
        a.sym[0].append((mask, 1))
    a.start, a.stop = 0, 1
    return a


def _wrap(parts_builder):
    a = NFA(2)
    a.start, a.stop = 0, 1
    parts_builder(a)
    return a


def build_regex(rx, _memo=None):
    """documented meaning of the expression; each operator allocates a fresh start and stop"""
    memo = {} if _memo is None else _memo
    k = id(rx)
    if k in memo:
        return memo[k][1]
    op = rx.op
    if op == "lit":
        r = _rx_leaf_lit(rx.data)
    elif op == "pred":
        r = _rx_pred(rx.data)
    elif op == "empty":
        r = NFA(2)
        r.start, r.stop = 0, 1
        r.eps[0].add(1)
    elif op == "nothing":
        r = NFA(2)
        r.start, r.stop = 0, 1
    elif op == "tag":
        sub = build_regex(rx.args[0], memo)
        r = NFA(0)
        off = r.absorb(sub)
        r.start, r.stop = sub.start + off, sub.stop + off
        r.tag[r.stop] = rx.data
    elif op == "tagmap":
        sub = build_regex(rx.args[0], memo)
        r = NFA(0)
        off = r.absorb(sub)
        r.start, r.stop = sub.start + off, sub.stop + off
        r.tag = {s: rx.data(t) for s, t in r.tag.items()}
    elif op == "seq":
        r = NFA(2)
        r.start, r.stop = 0, 1
        prev = 0
        for a in rx.args:
            sub = build_regex(a, memo)
            off = r.absorb(sub)
            r.eps[prev].add(sub.start + off)
            prev = sub.stop + off
        r.eps[prev].add(1)
    elif op == "choice":
        r = NFA(2)
        r.start, r.stop = 0, 1
        for a in rx.args:
            sub = build_regex(a, memo)
            off = r.absorb(sub)
            r.eps[0].add(sub.start + off)
            r.eps[sub.stop + off].add(1)
    elif op in ("some", "many", "optional"):
        sub = build_regex(rx.args[0], memo)
        r = NFA(2)
        r.start, r.stop = 0, 1
        off = r.absorb(sub)
        s, t = sub.start + off, sub.stop + off
        r.eps[0].add(s)
        r.eps[t].add(1)
        if op in ("many", "optional"):
            r.eps[0].add(1)
        if op in ("some", "many"):
            # back edge on the private copy of the operand; safe for any operand (DESIGN §11 (i)) and the copy is wrapped in
            # a fresh start/stop anyway
            r.eps[t].add(s)
    else:
        raise ValueError("build_regex: unknown op %r" % op)
    memo[k] = (rx, r)
    return r


# ---- templates ----------------------------------------------------------------------------------
class Template:
    __slots__ = ("name", "arity", "reserve", "new_states", "eps", "start", "stop", "on_empty", "byte_edges", "sites", "extra")

    def __init__(self, name, arity, reserve=0, new_states=(), eps=(), start=None, stop=None, on_empty=None,
                 byte_edges=(), sites=(), extra=None):
        self.name = name
        self.arity = arity
        self.reserve = reserve
        self.new_states = frozenset(new_states)
        self.eps = frozenset(eps)
        self.start = start
        self.stop = stop
        self.on_empty = on_empty
        self.byte_edges = frozenset(byte_edges)
        self.sites = tuple(sites)
        self.extra = extra or {}

    def key(self):
        return (self.arity, self.reserve, self.new_states, self.eps, self.start, self.stop, self.on_empty, self.byte_edges)

    def same_wiring(self, other):
        return other is not None and self.key() == other.key()

    def describe(self):
        e = ", ".join("%s:%s->%s" % x for x in sorted(self.eps))
        b = ", ".join("%s=[c]=>%s" % x for x in sorted(self.byte_edges))
        return "arity=%s reserve=%d new=%s eps={%s}%s start=%s stop=%s%s" % (
            self.arity, self.reserve, sorted(self.new_states), e, (" bytes={%s}" % b) if b else "", self.start, self.stop,
            (" on_empty=%s" % self.on_empty) if self.on_empty else "")

    def inplace_forward(self):
        """True if the template adds an ε-edge from an operand's own start to its own stop without fresh states
        (the S->T shape of DESIGN §11 (ii))"""
        return any(f in ("S", "S0") and t in ("T", "Tn", "T0") and sc == "once" for (sc, f, t) in self.eps) or \
            any(f == "S" and t == "T" and sc == "each" for (sc, f, t) in self.eps)


def _T(*a, **k):
    return Template(*a, **k)


THOMPSON = {
    "predicate": {"fresh": _T("predicate", "leaf", 0, ("N0", "N1"), (), "N0", "N1", None, (("N0", "N1"),)), "inplace": None},
    "empty": {"fresh": _T("empty", "leaf", 0, ("N0",), (), "N0", "N0"), "inplace": None},
    "nothing": {"fresh": _T("nothing", "leaf", 0, ("N0", "N1"), (), "N0", "N1"), "inplace": None},
    "from": {"fresh": _T("from", "leaf", 0, ("chain",), (), "C0", "Cn", None, (("Ci", "Ci+1"),)), "inplace": None},
    "sequence": {
        "fresh": _T("sequence", "nary", 2, ("N0", "N1"), (("once", "N0", "S0"), ("adjacent", "Tp", "S"), ("once", "Tn", "N1")), "N0", "N1", "empty"),
        "inplace": _T("sequence", "nary", 0, (), (("adjacent", "Tp", "S"),), "S0", "Tn", "empty"),
    },
    "choice": {
        "fresh": _T("choice", "nary", 2, ("N0", "N1"), (("each", "N0", "S"), ("each", "T", "N1")), "N0", "N1", "nothing"),
        "inplace": None,
    },
    "some": {
        "fresh": _T("some", "unary", 2, ("N0", "N1"), (("once", "N0", "S"), ("once", "T", "N1"), ("once", "T", "S")), "N0", "N1"),
        "inplace": _T("some", "unary", 0, (), (("once", "T", "S"),), "S", "T"),
    },
    "optional": {
        "fresh": _T("optional", "unary", 2, ("N0", "N1"), (("once", "N0", "S"), ("once", "N0", "N1"), ("once", "T", "N1")), "N0", "N1"),
        "inplace": _T("optional", "unary", 0, (), (("once", "S", "T"),), "S", "T"),
    },
    "many": {
        "fresh": _T("many", "unary", 2, ("N0", "N1"),
                    (("once", "N0", "S"), ("once", "N0", "N1"), ("once", "T", "N1"), ("once", "T", "S")), "N0", "N1"),
        "inplace": _T("many", "unary", 0, (), (("once", "S", "T"), ("once", "T", "S")), "S", "T"),
    },
}
RX_OP_OF = {"sequence": "seq", "choice": "choice", "some": "some", "optional": "optional", "many": "many",
            "predicate": "pred", "empty": "empty", "nothing": "nothing", "from": "lit"}
COMB_OF = {v: k for k, v in RX_OP_OF.items()}


def classify(t):
    """'fresh' | 'inplace' if t equals Thompson's template for its combinator in that variant, else None"""
    ref = THOMPSON.get(t.name)
    if not ref:
        return None
    for variant in ("fresh", "inplace"):
        if ref[variant] is not None and t.same_wiring(ref[variant]):
            return variant
    return None


def apply_template(t, operands, mask=None, data=None, wiring=None):
    """Build the fragment that template `t` produces for the given operand fragments (copied, never mutated)."""
    if t.arity == "leaf":
        if t.name == "from":
            # chain of len(data)+1 states; the chain shape itself is verified by C15-R1 (loop invariant)
            return _rx_leaf_lit(data)
        roles = {}
        r = NFA(0)
        for role in sorted(t.new_states):
            roles[role] = r.new_state()
        for (f, to) in t.byte_edges:
            if mask:
                r.sym[roles[f]].append((mask, roles[to]))
        for (_, f, to) in t.eps:
            r.eps[roles[f]].add(roles[to])
        r.start, r.stop = roles[t.start], roles[t.stop]
        return r
    n = len(operands)
    if t.arity == "nary" and n == 0:
        leaf = (wiring or {}).get(t.on_empty) or THOMPSON[t.on_empty or "empty"]["fresh"]
        return apply_template(leaf, [])
    if t.arity == "unary" and n != 1:
        raise ValueError("unary template applied to %d operands" % n)
    r = NFA(0)
    roles = {}
    for i in range(t.reserve):
        sid = r.new_state()          # ids kept free by the merge offset; unused ones stay isolated
        roles["N%d" % i] = sid
    for role in t.new_states:
        if role not in roles:
            raise ValueError("template %s inserts state %s without reserving its id" % (t.name, role))
    ends = []
    for o in operands:
        off = r.absorb(o)
        ends.append((o.start + off, o.stop + off))

    def res(role, i):
        if role in roles:
            return roles[role]
        if role == "S":
            return ends[i][0]
        if role == "T":
            return ends[i][1]
        if role == "Sp":
            return ends[i - 1][0]
        if role == "Tp":
            return ends[i - 1][1]
        if role == "S0":
            return ends[0][0]
        if role == "T0":
            return ends[0][1]
        if role == "Sn":
            return ends[-1][0]
        if role == "Tn":
            return ends[-1][1]
        raise ValueError("template %s: unknown role %s" % (t.name, role))
    for (scope, f, to) in t.eps:
        if scope == "once":
            r.eps[res(f, 0)].add(res(to, 0))
        elif scope == "each":
            for i in range(n):
                r.eps[res(f, i)].add(res(to, i))
        elif scope == "adjacent":
            for i in range(1, n):
                r.eps[res(f, i)].add(res(to, i))
        else:
            raise ValueError("template %s: unknown scope %s" % (t.name, scope))
    r.start, r.stop = res(t.start, 0), res(t.stop, 0)
    return r


def build_asbuilt(rx, wiring, _memo=None):
    """Fragment as the repository builds it, given the wiring table read from automata.rs."""
    memo = {} if _memo is None else _memo
    k = id(rx)
    if k in memo:
        return memo[k][1]
    op = rx.op
    if op in ("tag", "tagmap"):
        sub = build_asbuilt(rx.args[0], wiring, memo)
        r = NFA(0)
        off = r.absorb(sub)
        r.start, r.stop = sub.start + off, sub.stop + off
        if op == "tag":
            r.tag[r.stop] = rx.data       # tag_stop_state: in place on the stop state
        else:
            r.tag = {s: rx.data(t) for s, t in r.tag.items()}
    else:
        comb = COMB_OF[op]
        t = wiring[comb]
        ops = [build_asbuilt(a, wiring, memo) for a in rx.args]
        r = apply_template(t, ops, mask=rx.data if op == "pred" else None, data=rx.data if op == "lit" else None, wiring=wiring)
    memo[k] = (rx, r)
    return r


# ------------------------------------------------------------------------------------------------
# DFA
# ------------------------------------------------------------------------------------------------
class DFA:
    __slots__ = ("n", "start", "atom_of", "reps", "masks", "trans", "acc", "tags")

    def __init__(self, masks):
        self.masks = list(masks)
        self.reps = []
        self.atom_of = [0] * 256
        for i, m in enumerate(self.masks):
            bs = cls_bytes(m)
            self.reps.append(bs[0])
            for b in bs:
                self.atom_of[b] = i
        self.n = 0
        self.start = 0
        self.trans = []
        self.acc = []
        self.tags = []

    def step(self, q, b):
        return self.trans[q][self.atom_of[b]] if q >= 0 else -1

    def run(self, data, q=None):
        q = self.start if q is None else q
        for b in data:
            if q < 0:
                return -1
            q = self.trans[q][self.atom_of[b]]
        return q


def _atoms(masks):
    """coarsest partition of 0..255 such that every given mask is a union of blocks"""
    atoms = [ALL]
    for m in masks:
        if m == 0 or m == ALL:
            continue
        nxt = []
        for a in atoms:
            i = a & m
            o = a & ~m
            if i and o:
                nxt.append(i)
                nxt.append(o)
            else:
                nxt.append(a)
        atoms = nxt
    atoms.sort(key=lambda a: (a & -a))
    return atoms


def determinize(nfa):
    masks = set()
    for s in range(nfa.n):
        for (m, _) in nfa.sym[s]:
            masks.add(m)
    d = DFA(_atoms(masks))
    na = len(d.masks)
    # per NFA state: atom -> targets
    mask_atoms = {}
    for m in masks:
        if m & (m - 1) == 0:
            mask_atoms[m] = (d.atom_of[m.bit_length() - 1],)
        else:
            mask_atoms[m] = tuple(i for i, a in enumerate(d.masks) if a & m)
    step = []
    for s in range(nfa.n):
        row = {}
        for (m, t) in nfa.sym[s]:
            for a in mask_atoms[m]:
                row.setdefault(a, set()).add(t)
        step.append(row)
    clo = [None] * nfa.n

    def closure(states):
        out = set()
        stack = list(states)
        while stack:
            s = stack.pop()
            if s in out:
                continue
            c = clo[s]
            if c is not None:
                out |= c
                continue
            out.add(s)
            stack.extend(nfa.eps[s])
        return frozenset(out)
    for s in range(nfa.n):
        if nfa.eps[s]:
            clo[s] = closure([s])
        else:
            clo[s] = frozenset((s,))
    start = closure([nfa.start])
    index = {start: 0}
    order = [start]
    d.trans.append([-1] * na)
    qi = 0
    while qi < len(order):
        S = order[qi]
        row = d.trans[qi]
        moves = {}
        for s in S:
            for a, ts in step[s].items():
                if a in moves:
                    moves[a] |= ts
                else:
                    moves[a] = set(ts)
        for a, ts in moves.items():
            T = closure(ts)
            j = index.get(T)
            if j is None:
                j = len(order)
                index[T] = j
                order.append(T)
                d.trans.append([-1] * na)
            row[a] = j
        qi += 1
    d.n = len(order)
    d.start = 0
    tagmap = nfa.tag
    for S in order:
        d.acc.append(nfa.stop in S)
        if tagmap:
            d.tags.append(frozenset(tagmap[s] for s in S if s in tagmap))
        else:
            d.tags.append(frozenset())
    return d


def _live(d):
    """states from which an accepting state is reachable"""
    rev = [[] for _ in range(d.n)]
    for q in range(d.n):
        for t in d.trans[q]:
            if t >= 0:
                rev[t].append(q)
    live = [False] * d.n
    stack = [q for q in range(d.n) if d.acc[q]]
    for q in stack:
        live[q] = True
    while stack:
        q = stack.pop()
        for p in rev[q]:
            if not live[p]:
                live[p] = True
                stack.append(p)
    return live


def minimize(d, keep_tags=True):
    """trim (drop states that cannot reach acceptance) and merge equivalent states (Moore refinement).
    With keep_tags the tag set of a state takes part in the initial partition (tags on non-accepting states are kept too)."""
    live = _live(d)
    na = len(d.masks)
    if not live[d.start]:
        r = DFA(d.masks)
        r.n = 1
        r.trans = [[-1] * na]
        r.acc = [False]
        r.tags = [frozenset()]
        return r
    # reachable & live
    ids = {}
    order = []
    dq = deque([d.start])
    ids[d.start] = 0
    order.append(d.start)
    while dq:
        q = dq.popleft()
        for t in d.trans[q]:
            if t >= 0 and live[t] and t not in ids:
                ids[t] = len(order)
                order.append(t)
                dq.append(t)
    n = len(order)
    trans = [[(ids[t] if (t >= 0 and live[t]) else -1) for t in d.trans[q]] for q in order]
    acc = [d.acc[q] for q in order]
    tags = [d.tags[q] if keep_tags else frozenset() for q in order]
    block = {}
    part = []
    for q in range(n):
        k = (acc[q], tags[q])
        part.append(block.setdefault(k, len(block)))
    nblocks = len(block)
    while True:
        sig = {}
        newp = []
        for q in range(n):
            row = trans[q]
            k = (part[q], tuple(part[t] if t >= 0 else -1 for t in row))
            newp.append(sig.setdefault(k, len(sig)))
        part = newp
        if len(sig) == nblocks:
            break
        nblocks = len(sig)
    # renumber blocks in BFS order from the start for determinism
    rep = {}
    for q in range(n):
        rep.setdefault(part[q], q)
    newid = {part[0]: 0}
    border = [part[0]]
    i = 0
    while i < len(border):
        b = border[i]
        for t in trans[rep[b]]:
            if t >= 0 and part[t] not in newid:
                newid[part[t]] = len(border)
                border.append(part[t])
        i += 1
    # merge atoms that behave identically
    r = DFA(d.masks)
    r.n = len(border)
    r.start = 0
    for b in border:
        q = rep[b]
        r.trans.append([(newid[part[t]] if t >= 0 else -1) for t in trans[q]])
        r.acc.append(acc[q])
        r.tags.append(tags[q])
    return _merge_atoms(r)


def _merge_atoms(d):
    cols = {}
    group = []
    for a in range(len(d.masks)):
        k = tuple(d.trans[q][a] for q in range(d.n))
        group.append(cols.setdefault(k, len(cols)))
    if len(cols) == len(d.masks):
        return d
    masks = [0] * len(cols)
    first = {}
    for a, g in enumerate(group):
        masks[g] |= d.masks[a]
        first.setdefault(g, a)
    order = sorted(range(len(cols)), key=lambda g: masks[g] & -masks[g])
    r = DFA([masks[g] for g in order])
    r.n = d.n
    r.start = d.start
    r.acc = d.acc
    r.tags = d.tags
    r.trans = [[row[first[g]] for g in order] for row in d.trans]
    return r


def compile_rx(rx, wiring=None, keep_tags=False):
    nfa = build_regex(rx) if wiring is None else build_asbuilt(rx, wiring)
    return minimize(determinize(nfa), keep_tags=keep_tags)


# ---- simple queries -----------------------------------------------------------------------------
def accepts(d, data):
    q = d.run(data)
    return q >= 0 and d.acc[q]


def is_empty(d):
    return not any(d.acc[q] for q in _reach(d))


def _reach(d):
    seen = {d.start}
    st = [d.start]
    while st:
        q = st.pop()
        for t in d.trans[q]:
            if t >= 0 and t not in seen:
                seen.add(t)
                st.append(t)
    return seen


def accepts_empty(d):
    return d.acc[d.start]


def _trim(d):
    """minimal DFAs produced here are already trim; for safety accept any DFA"""
    live = _live(d)
    reach = _reach(d)
    return [q in reach and live[q] for q in range(d.n)]


def minlen(d):
    ok = _trim(d)
    if not ok[d.start]:
        return None
    dist = {d.start: 0}
    dq = deque([d.start])
    while dq:
        q = dq.popleft()
        if d.acc[q]:
            return dist[q]
        for t in d.trans[q]:
            if t >= 0 and ok[t] and t not in dist:
                dist[t] = dist[q] + 1
                dq.append(t)
    return None


def maxlen(d):
    """None if the language is infinite, -1 if empty, else the length of the longest word"""
    ok = _trim(d)
    if not ok[d.start]:
        return -1
    color = {}
    best = {}
    # iterative DFS with cycle detection on the trim part
    stack = [(d.start, 0)]
    color[d.start] = 1
    succ = {}

    def succs(q):
        if q not in succ:
            succ[q] = sorted({t for t in d.trans[q] if t >= 0 and ok[t]})
        return succ[q]
    while stack:
        q, i = stack[-1]
        ss = succs(q)
        if i < len(ss):
            stack[-1] = (q, i + 1)
            t = ss[i]
            c = color.get(t, 0)
            if c == 1:
                return None
            if c == 0:
                color[t] = 1
                stack.append((t, 0))
        else:
            color[q] = 2
            b = 0 if d.acc[q] else -1
            for t in ss:
                if best[t] >= 0:
                    b = max(b, best[t] + 1)
            best[q] = b
            stack.pop()
    return best[d.start]


def common_prefix(d):
    """longest byte string that is a prefix of every word (b'' for the empty language)"""
    ok = _trim(d)
    if not ok[d.start]:
        return b""
    out = bytearray()
    q = d.start
    seen = set()
    while not d.acc[q] and q not in seen:
        seen.add(q)
        nxt = [(a, t) for a, t in enumerate(d.trans[q]) if t >= 0 and ok[t]]
        if len(nxt) != 1:
            break
        a, t = nxt[0]
        m = d.masks[a]
        if m & (m - 1):
            break
        out.append(m.bit_length() - 1)
        q = t
    return bytes(out)


def reverse_dfa(d):
    """minimal DFA of the reversed language"""
    ok = _trim(d)
    n = NFA(d.n + 1)
    init = d.n
    n.start = init
    n.stop = d.start
    for q in range(d.n):
        if not ok[q]:
            continue
        if d.acc[q]:
            n.eps[init].add(q)
        by_t = {}
        for a, t in enumerate(d.trans[q]):
            if t >= 0 and ok[t]:
                by_t[t] = by_t.get(t, 0) | d.masks[a]
        for t, m in by_t.items():
            n.sym[t].append((m, q))
    return minimize(determinize(n), keep_tags=False)


def common_suffix(d):
    return bytes(reversed(common_prefix(reverse_dfa(d))))


# ---- products -----------------------------------------------------------------------------------
def _joint(d1, d2):
    """[(rep byte, atom1, atom2)] for the common refinement of both alphabet partitions"""
    seen = {}
    for b in range(256):
        k = (d1.atom_of[b], d2.atom_of[b])
        if k not in seen:
            seen[k] = b
    return sorted((b, k[0], k[1]) for k, b in seen.items())


def _path(parent, node):
    out = bytearray()
    while parent[node] is not None:
        node, b = parent[node][0], parent[node][1]
        out.append(b)
    out.reverse()
    return bytes(out)


def _product_search(d1, d2, hit):
    """BFS over pairs (q1, q2) (with -1 = dead); returns the shortest word reaching a pair with hit(a1, a2)"""
    j = _joint(d1, d2)
    start = (d1.start, d2.start)
    parent = {start: None}
    dq = deque([start])
    while dq:
        p = dq.popleft()
        q1, q2 = p
        a1 = q1 >= 0 and d1.acc[q1]
        a2 = q2 >= 0 and d2.acc[q2]
        if hit(a1, a2):
            return _path(parent, p)
        for (b, x1, x2) in j:
            t1 = d1.trans[q1][x1] if q1 >= 0 else -1
            t2 = d2.trans[q2][x2] if q2 >= 0 else -1
            if t1 < 0 and t2 < 0:
                continue
            t = (t1, t2)
            if t not in parent:
                parent[t] = (p, b)
                dq.append(t)
    return None


def distinguish(d1, d2):
    """None if L1 == L2 else (shortest word, word in L1, word in L2)"""
    w = _product_search(d1, d2, lambda a, b: a != b)
    if w is None:
        return None
    return (w, accepts(d1, w), accepts(d2, w))


def distinguish_tagged(d1, d2):
    """like distinguish but a word must also carry the same tag set in both DFAs (build them with keep_tags=True).
    Returns None or (word, (accepted1, tags1), (accepted2, tags2))."""
    j = _joint(d1, d2)
    start = (d1.start, d2.start)
    parent = {start: None}
    dq = deque([start])
    while dq:
        p = dq.popleft()
        q1, q2 = p
        s1 = (d1.acc[q1], d1.tags[q1]) if q1 >= 0 else (False, frozenset())
        s2 = (d2.acc[q2], d2.tags[q2]) if q2 >= 0 else (False, frozenset())
        if s1 != s2 and (s1[0] or s2[0]):
            return (_path(parent, p), s1, s2)
        for (b, x1, x2) in j:
            t1 = d1.trans[q1][x1] if q1 >= 0 else -1
            t2 = d2.trans[q2][x2] if q2 >= 0 else -1
            if t1 < 0 and t2 < 0:
                continue
            t = (t1, t2)
            if t not in parent:
                parent[t] = (p, b)
                dq.append(t)
    return None


def equivalent(d1, d2):
    return distinguish(d1, d2) is None


def subset_witness(d1, d2):
    """shortest word of L1 \\ L2, or None if L1 ⊆ L2"""
    return _product_search(d1, d2, lambda a, b: a and not b)


def intersect_witness(d1, d2):
    """shortest word of L1 ∩ L2, or None"""
    return _product_search(d1, d2, lambda a, b: a and b)


# ---- tagged union -------------------------------------------------------------------------------
def tagged_union(named_nfas):
    """named_nfas: dict or list of (name, NFA). Fresh-state union; each alternative's stop state is tagged with its name
    (tags already inside the alternatives are dropped). Returns the minimal DFA that keeps tag sets apart."""
    items = list(named_nfas.items()) if isinstance(named_nfas, dict) else list(named_nfas)
    u = NFA(2)
    u.start, u.stop = 0, 1
    for name, a in items:
        off = u.n
        for s in range(a.n):
            u.sym.append([(m, t + off) for (m, t) in a.sym[s]])
            u.eps.append({t + off for t in a.eps[s]})
        u.n += a.n
        u.eps[0].add(a.start + off)
        mark = u.new_state()
        u.eps[a.stop + off].add(mark)
        u.eps[mark].add(1)
        u.tag[mark] = name
    return minimize(determinize(u), keep_tags=True)


def shortest_words(d):
    """dict state -> shortest word reaching it (BFS, lexicographically least among shortest)"""
    parent = {d.start: None}
    dq = deque([d.start])
    while dq:
        q = dq.popleft()
        for a in sorted(range(len(d.masks)), key=lambda a: d.reps[a]):
            t = d.trans[q][a]
            if t >= 0 and t not in parent:
                parent[t] = (q, d.reps[a])
                dq.append(t)
    return {q: _path(parent, q) for q in parent}


def _shortest_to_accept(d, q0, ok):
    """shortest non-empty word from q0 to an accepting state"""
    parent = {}
    dq = deque()
    for a in sorted(range(len(d.masks)), key=lambda a: d.reps[a]):
        t = d.trans[q0][a]
        if t >= 0 and ok[t] and ("n", t) not in parent:
            parent[("n", t)] = (None, d.reps[a])
            dq.append(t)
    seen = {t for (_, t) in parent}
    while dq:
        q = dq.popleft()
        if d.acc[q]:
            out = bytearray()
            node = q
            while True:
                p, b = parent[("n", node)]
                out.append(b)
                if p is None:
                    break
                node = p
            out.reverse()
            return bytes(out), q
        for a in sorted(range(len(d.masks)), key=lambda a: d.reps[a]):
            t = d.trans[q][a]
            if t >= 0 and ok[t] and t not in seen:
                seen.add(t)
                parent[("n", t)] = (q, d.reps[a])
                dq.append(t)
    return None, None


def accepting_extendable(d):
    """Accepting states that have a continuation to a (possibly different) accepting state: the places where
    leftmost-longest matching has to wait / reschedule.  One record per such state."""
    ok = _trim(d)
    words = shortest_words(d)
    out = []
    for q in sorted(words, key=lambda q: (len(words[q]), words[q])):
        if not d.acc[q] or not ok[q]:
            continue
        ext, q2 = _shortest_to_accept(d, q, ok)
        if ext is None:
            continue
        out.append({"state": q, "word": words[q], "tags": d.tags[q], "extension": ext, "ext_tags": d.tags[q2]})
    return out


def prefix_conflicts(d):
    return [(r["word"], r["tags"], r["word"] + r["extension"], r["ext_tags"]) for r in accepting_extendable(d)]


# ---- factor queries (product with a small counter) ---------------------------------------------
def _counter_search(d, init, step, bad_end, bad_step=None):
    """BFS over (state, counter). step(counter, byte_atom_index) -> counter' ; bad_end(counter) is evaluated at accepting
    states; bad_step(counter, atom) is evaluated before taking a live transition. Returns the shortest witness word."""
    ok = _trim(d)
    if not ok[d.start]:
        return None
    start = (d.start, init)
    parent = {start: None}
    dq = deque([start])
    order = sorted(range(len(d.masks)), key=lambda a: d.reps[a])
    while dq:
        node = dq.popleft()
        q, c = node
        if d.acc[q] and bad_end(c):
            return _path(parent, node)
        for a in order:
            t = d.trans[q][a]
            if t < 0 or not ok[t]:
                continue
            if bad_step is not None and bad_step(c, a):
                # complete the word to an accepting one
                w = _path(parent, node) + bytes([d.reps[a]])
                tail = _tail_to_accept(d, t, ok)
                return w + tail
            nxt = (t, step(c, a))
            if nxt not in parent:
                parent[nxt] = (node, d.reps[a])
                dq.append(nxt)
    return None


def _tail_to_accept(d, q0, ok):
    if d.acc[q0]:
        return b""
    parent = {q0: None}
    dq = deque([q0])
    while dq:
        q = dq.popleft()
        if d.acc[q]:
            return _path(parent, q)
        for a in range(len(d.masks)):
            t = d.trans[q][a]
            if t >= 0 and ok[t] and t not in parent:
                parent[t] = (q, d.reps[a])
                dq.append(t)
    return b""


def _refine(d, mask):
    """DFA equal to d whose atoms are each inside or outside `mask`"""
    masks = []
    src = []
    for a, m in enumerate(d.masks):
        for part in (m & mask, m & ~mask):
            if part:
                masks.append(part)
                src.append(a)
    order = sorted(range(len(masks)), key=lambda i: masks[i] & -masks[i])
    r = DFA([masks[i] for i in order])
    r.n, r.start, r.acc, r.tags = d.n, d.start, d.acc, d.tags
    r.trans = [[row[src[i]] for i in order] for row in d.trans]
    return r


def run_parity_witness(d, mask):
    """a word of L(d) containing a maximal run of bytes from `mask` of odd length, or None if every run is even"""
    r = _refine(d, mask)
    inside = [bool(m & mask) for m in r.masks]
    # counter: parity of the current run (0 outside a run / even so far, 1 odd so far)
    return _counter_search(
        r, 0,
        step=lambda c, a: (c ^ 1) if inside[a] else 0,
        bad_end=lambda c: c == 1,
        bad_step=lambda c, a: c == 1 and not inside[a])


def run_min_length(d, mask, skip_first=False, cap=64):
    """(k, witness): the minimum length k of a maximal non-empty run of bytes from `mask` over all words of L(d)
    (runs after the first one only if skip_first). (None, None) if no word has such a run."""
    r = _refine(d, mask)
    inside = [bool(m & mask) for m in r.masks]
    best = (None, None)
    for k in range(1, cap + 1):
        # is there a word with a counted run of length exactly k?   counter = (runs finished capped at 1, current length capped k+1)
        def step(c, a, k=k):
            done, ln = c
            if inside[a]:
                return (done, min(ln + 1, k + 1))
            return (min(done + (1 if ln > 0 else 0), 1), 0)

        def counted(c):
            return (not skip_first) or c[0] >= 1
        w = _counter_search(
            r, (0, 0), step,
            bad_end=lambda c, k=k: c[1] == k and counted(c),
            bad_step=lambda c, a, k=k: c[1] == k and not inside[a] and counted(c))
        if w is not None:
            return (k, w)
    return best


def split_piece_min_len(d, sep_mask, skip=0, cap=64):
    """Over all words w of L(d): the minimum length of a piece of w.split(sep) whose index is >= skip
    (pieces may be empty, as with Rust's slice::split). Returns (k, witness) or (None, None) when no word has such a piece
    or every such piece is longer than cap."""
    r = _refine(d, sep_mask)
    sep = [bool(m & sep_mask) for m in r.masks]
    for k in range(0, cap + 1):
        def step(c, a, k=k):
            idx, ln = c
            if sep[a]:
                return (min(idx + 1, skip), 0)
            return (idx, min(ln + 1, k + 1))
        w = _counter_search(
            r, (0, 0), step,
            bad_end=lambda c, k=k: c[0] >= skip and c[1] == k,
            bad_step=lambda c, a, k=k: sep[a] and c[0] >= skip and c[1] == k)
        if w is not None:
            return (k, w)
    return (None, None)


def slice_dfa(d, front, back):
    """Minimal DFA of { w[front : len(w)-back] : w in L(d), len(w) >= front+back } (what `&data[front..data.len()-back]` can be).
    Returns (dfa, complete) where complete(payload) -> a full word of L(d) with that payload, or None."""
    ok = _trim(d)
    # states reachable in exactly `front` steps, with one word each
    layer = {d.start: b""} if ok[d.start] else {}
    order = sorted(range(len(d.masks)), key=lambda a: d.reps[a])
    for _ in range(front):
        nxt = {}
        for q, w in sorted(layer.items(), key=lambda x: (x[1], x[0])):
            for a in order:
                t = d.trans[q][a]
                if t >= 0 and ok[t] and t not in nxt:
                    nxt[t] = w + bytes([d.reps[a]])
        layer = nxt
    # states from which acceptance is reachable in exactly `back` steps, with one tail each
    tails = {q: b"" for q in range(d.n) if ok[q] and d.acc[q]}
    for _ in range(back):
        prev = {}
        for q in range(d.n):
            if not ok[q]:
                continue
            for a in order:
                t = d.trans[q][a]
                if t in tails and q not in prev:
                    prev[q] = bytes([d.reps[a]]) + tails[t]
        tails = prev
    n = NFA(d.n + 2)
    s0, s1 = d.n, d.n + 1
    n.start, n.stop = s0, s1
    for q in layer:
        n.eps[s0].add(q)
    for q in tails:
        n.eps[q].add(s1)
    for q in range(d.n):
        if not ok[q]:
            continue
        by_t = {}
        for a, t in enumerate(d.trans[q]):
            if t >= 0 and ok[t]:
                by_t[t] = by_t.get(t, 0) | d.masks[a]
        for t, m in by_t.items():
            n.sym[q].append((m, t))
    out = minimize(determinize(n), keep_tags=False)

    def complete(payload):
        for q, w in sorted(layer.items(), key=lambda x: (x[1], x[0])):
            t = d.run(payload, q)
            if t >= 0 and t in tails:
                return w + bytes(payload) + tails[t]
        return None
    return out, complete


# ---- enumeration / denotational reference --------------------------------------------------------
def words_upto(d, k):
    """all words of L(d) of length <= k (expands byte classes: use with small alphabets)"""
    out = []
    ok = _trim(d)
    if not ok[d.start]:
        return out
    layer = [(d.start, b"")]
    for ln in range(k + 1):
        nxt = []
        for q, w in layer:
            if d.acc[q]:
                out.append(w)
            if ln == k:
                continue
            for a, t in enumerate(d.trans[q]):
                if t >= 0 and ok[t]:
                    for b in cls_bytes(d.masks[a]):
                        nxt.append((t, w + bytes([b])))
        layer = nxt
    return sorted(out, key=lambda w: (len(w), w))


def lang_upto(rx, k, alphabet):
    """Set of words of length <= k denoted by rx (set semantics, no automata) over the given alphabet bytes."""
    op = rx.op
    if op == "lit":
        return {bytes(rx.data)} if len(rx.data) <= k else set()
    if op == "pred":
        return {bytes([b]) for b in alphabet if (rx.data >> b) & 1} if k >= 1 else set()
    if op == "empty":
        return {b""}
    if op == "nothing":
        return set()
    if op in ("tag", "tagmap"):
        return lang_upto(rx.args[0], k, alphabet)
    if op == "seq":
        cur = {b""}
        for a in rx.args:
            la = lang_upto(a, k, alphabet)
            cur = {x + y for x in cur for y in la if len(x) + len(y) <= k}
        return cur
    if op == "choice":
        out = set()
        for a in rx.args:
            out |= lang_upto(a, k, alphabet)
        return out
    la = lang_upto(rx.args[0], k, alphabet)
    if op == "optional":
        return la | {b""}
    # some / many: least fixpoint
    cur = set(la)
    while True:
        nxt = cur | {x + y for x in cur for y in la if len(x) + len(y) <= k}
        if nxt == cur:
            break
        cur = nxt
    if op == "many":
        cur = cur | {b""}
    return cur
