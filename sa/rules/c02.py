"""C02 — input decoding is total: no reachable panic / overflow / OOB / unsafe-precondition / lossy
number in the decoders; Raw events non-empty; progress (no grammar accepts the empty string)."""
import re
from ..mir import call_matches, callee_name, op_local, op_const_int
from ..flow import expr, origins, resolve_place, arg_place, value_variants
from .. import oblrules, grammar, regex

CLAIM = {
    "text": "Totality of input decoding decided by abstract interpretation of MIR over every body reachable from the event, command and UTF-8 "
            "decoders: each overflow / bounds / range-index / unwrap / division / unsafe-precondition / lossy-number obligation is discharged by "
            "intervals and difference bounds, by slice-length facts recomputed from the escape-sequence grammars (minimal word length, "
            "ESC-free piece length, even hex runs), by named lemmas whose side conditions are re-checked from source on every run, or by one "
            "trusted invariant (DFA-DENSE); Raw items are built only behind `!is_empty()`; no grammar accepts the empty string. That reject "
            "bytes equal the input in order, and termination beyond progress, are not decided.",
    "technique": "abstract interpretation over MIR (intervals, difference bounds, slice lengths, variant sets) + regular-language queries on the extracted grammars + CFG guard rules",
    "design_ref": "DESIGN.md §5 C02",
}

ENTRY_RX = [
    r"^<decoder::Utf8Decoder as decoder::Decoder>::decode$",
    r"^<decoder::MatcherDecoder<T> as decoder::Decoder>::decode$",
    r"^<decoder::TTYEventDecoder as decoder::Decoder>::decode$",
    r"^<decoder::TTYCommandDecoder as decoder::Decoder>::decode$",
    r"^decoder::Decoder::decode_into$",
    r"^decoder::(Utf8Decoder|TTYEventDecoder|TTYCommandDecoder)::new$",
    r"^<decoder::(Utf8Decoder|TTYEventDecoder|TTYCommandDecoder) as std::default::Default>::default$",
]


def field_ty(prog, adt, field):
    a = prog.adts.get(adt)
    if not a:
        return None
    for v in a["variants"]:
        for f in v["fields"]:
            if f["name"] == field:
                return f["ty"]
    return None


def run(ctx):
    prog, src = ctx.prog, ctx.src
    ctx.explanation = (
        "Decides by abstract interpretation of MIR over every body reachable from the three decoders (TTYEventDecoder, TTYCommandDecoder, "
        "Utf8Decoder, decode_into and their constructors): (a) no reachable panic, arithmetic overflow/underflow, out-of-bounds access, failed "
        "unwrap/expect, violated unsafe precondition or lossy narrowing of a decoded number; slice lengths handed to Matcher::decode come from the "
        "escape-sequence grammars (minimal word length of each matcher's own automaton, recomputed on every run), plus named lemmas whose side "
        "conditions are checked from source (UTF8-CAP, TAGGED-ACCEPT, GRAM-FACTOR, GRAM-EVENHEX, CHUNKS-NONEMPTY) and one trusted data-structure "
        "invariant (DFA-DENSE); (b) both Raw(..) constructions are dominated by `!reject.is_empty()`; (c) no registered grammar accepts the empty "
        "string, so every emitted item consumes input. NOT decided: that reject bytes equal the input bytes in order, and termination beyond (c).")
    ctx.assume("allocation failure and stack exhaustion are out of scope; usize counters bumped by a constant per consumed byte cannot overflow (CNT)")

    entries = []
    for rx in ENTRY_RX:
        bs = prog.find(rx)
        if not bs:
            ctx.rule("ENTRIES", "decoder entry points found", floor=0)
            ctx.anchor("ENTRIES", rx)
        entries += [b.path for b in bs]

    # ---------------- grammar facts -----------------------------------------------------------------
    ctx.rule("GRAM-LEN", "len(data) >= minlen(L(m)) for every parsed matcher (recomputed from the matcher's own grammar)", floor=13)
    entry_facts = {}
    try:
        gf = grammar.decode_entry_facts(src)
    except Exception as e:     # Unfoldable: fail closed
        gf = {}
        ctx.anchor("GRAM-LEN", "grammar-extraction", "grammar extraction failed: %s" % e)
    for path, f in sorted(gf.items()):
        b = prog.body(path)
        if b is None:
            ctx.anchor("GRAM-LEN", path, "decode body of %s not found in MIR" % path)
            continue
        e = {"len_min": f["minlen"]}
        if f.get("maxlen") is not None:
            e["len_max"] = f["maxlen"]
        entry_facts[path] = {2: e}
        ctx.instance("GRAM-LEN", {"decode": path, "minlen": f["minlen"], "maxlen": f.get("maxlen"), "prefix": repr(f.get("prefix")), "suffix": repr(f.get("suffix"))})

    # ---------------- (c) progress --------------------------------------------------------------------
    ctx.rule("PROGRESS", "no registered grammar accepts the empty string", floor=16)
    try:
        gs = grammar.extract(src)
        for name in grammar.event_matcher_names(src) + grammar.command_matcher_names(src):
            g = gs.get(name)
            if g is None or g.rx is None:
                ctx.anchor("PROGRESS", name)
                continue
            eps = g.accepts_empty
            ctx.instance("PROGRESS", {"grammar": name, "accepts_empty": eps, "minlen": g.minlen})
            if eps:
                ctx.violation("PROGRESS", name, "accepts-empty", "grammar %s accepts the empty string: the decoder could emit an item without consuming input" % name, sites=[])
    except Exception as e:
        ctx.anchor("PROGRESS", "grammar-extraction", str(e))
        gs = {}

    # ---------------- lemmas ----------------------------------------------------------------------------
    lemmas = {}
    trusts = {}
    # UTF8-CAP
    ctx.rule("LEMMA-UTF8-CAP", "Utf8Decoder: offset counts bytes of the current DFA path; maxlen(utf8 DFA) <= buffer capacity; reset on accept and dead transition", floor=4)
    utf8_ok = True
    cap = None
    fty = field_ty(prog, "decoder::Utf8Decoder", "buffer")
    m = re.match(r"^\[u8; (\d+)\]$", fty or "")
    if m:
        cap = int(m.group(1))
    g = gs.get("UTF8DFA")
    ml = g.maxlen if g is not None and g.rx is not None else None
    ctx.instance("LEMMA-UTF8-CAP", {"buffer_capacity": cap, "maxlen_utf8_dfa": ml})
    if cap is None or ml is None or ml > cap:
        utf8_ok = False
        ctx.violation("LEMMA-UTF8-CAP", "decoder::Utf8Decoder", "capacity", "the UTF-8 automaton accepts words of up to %s bytes but Utf8Decoder.buffer holds %s" % (ml, cap), sites=[])
    # writers of offset
    writers = {}
    for b in prog.bodies:
        if not b.file.endswith("decoder.rs"):
            continue
        for i, si, s in b.assigns():
            rp = resolve_place(b, s["place"])
            if rp == "(*_1).offset" and b.impl_self == "decoder::Utf8Decoder":
                writers.setdefault(b.path, []).append(rv_text(b, s))
    exp_w = {"decoder::Utf8Decoder::push": ["Add(arg1.offset, 1)"], "decoder::Utf8Decoder::reset": ["0"]}
    ctx.instance("LEMMA-UTF8-CAP", {"offset_writers": writers})
    if writers != exp_w:
        utf8_ok = False
        ctx.violation("LEMMA-UTF8-CAP", "decoder::Utf8Decoder", "offset-writers", "Utf8Decoder.offset is written other than by push (+1) and reset (=0): %s" % writers, sites=[])
    # reset also resets the state; consume calls reset
    rb = prog.body("decoder::Utf8Decoder::reset")
    cb = prog.body("decoder::Utf8Decoder::consume")
    db = prog.one(r"^<decoder::Utf8Decoder as decoder::Decoder>::decode$")
    if not (rb and cb and db):
        utf8_ok = False
        ctx.anchor("LEMMA-UTF8-CAP", "Utf8Decoder::{reset,consume,decode}")
    else:
        st_w = [rv_text(rb, s) for i, si, s in rb.assigns() if resolve_place(rb, s["place"]) == "(*_1).state"]
        ok_r = any("DFA::start" in x for x in st_w)
        ok_c = any(call_matches(t, r"^decoder::Utf8Decoder::reset$") for bb, t in cb.calls()) and cb.cfg().must_pass([bb for bb, t in cb.calls() if call_matches(t, r"^decoder::Utf8Decoder::reset$")])[0]
        ctx.instance("LEMMA-UTF8-CAP", {"reset_restarts_dfa": ok_r, "consume_calls_reset": ok_c})
        if not ok_r or not ok_c:
            utf8_ok = False
            ctx.violation("LEMMA-UTF8-CAP", "decoder::Utf8Decoder", "reset", "reset must restart the DFA and consume must reset: otherwise offset and DFA path length diverge", sites=[rb.loc])
        # in decode: push only on Some(state) edges of transition; on None reset before return; each pushed byte either updates state or consumes
        cfg = db.cfg()
        tr = [(bb, t) for bb, t in db.calls() if call_matches(t, r"^automata::DFA::<T>::transition$")]
        pushes = [(bb, t) for bb, t in db.calls() if call_matches(t, r"^decoder::Utf8Decoder::push$")]
        resets = [bb for bb, t in db.calls() if call_matches(t, r"^decoder::Utf8Decoder::reset$")]
        consumes = [bb for bb, t in db.calls() if call_matches(t, r"^decoder::Utf8Decoder::consume$")]
        ok_d = len(tr) == 1 and bool(pushes)
        if ok_d:
            tbb, tt = tr[0]
            # the switch on the transition result
            sw = db.blocks[tt["t"]]
            swt = sw["term"]
            none_t = some_t = None
            if swt["k"] == "switch":
                for v, tg in zip(swt["vals"], swt["targets"]):
                    if v == "0":
                        none_t = tg
                    if v == "1":
                        some_t = tg
                if some_t is None:
                    some_t = swt["otherwise"]
                if none_t is None:
                    none_t = swt["otherwise"]
            ok_d = some_t is not None and all(cfg.edge_dominates(tt["t"], some_t, pb) for pb, _ in pushes)
            # dead transition: reset before leaving
            ok_n = none_t is not None and cfg.must_pass(resets, start=none_t)[0]
            # after a push: either state is stored or consume is called, before the next transition / return
            ok_p = True
            for pb, pt in pushes:
                stw = [i for i, si, s in db.assigns() if resolve_place(db, s["place"]) == "(*_1).state"]
                ok_p = ok_p and cfg.must_pass(set(stw) | set(consumes), start=pb, exits=[tbb] + cfg.returns)[0]
            ctx.instance("LEMMA-UTF8-CAP", {"push_only_after_live_transition": ok_d, "dead_transition_resets": ok_n, "push_then_state_or_consume": ok_p})
            if not (ok_d and ok_n and ok_p):
                utf8_ok = False
                ctx.violation("LEMMA-UTF8-CAP", db.path, "protocol", "Utf8Decoder::decode does not keep offset equal to the length of the current DFA path (push after live transition / reset on dead / state-or-consume after push)", sites=[db.loc])
        else:
            utf8_ok = False
            ctx.anchor("LEMMA-UTF8-CAP", "decode/transition-or-push")
    if utf8_ok and cap is not None:
        entry_facts["decoder::Utf8Decoder::push"] = {"fields": {"(*_1).offset": (0, min(ml, cap) - 1)}}
        entry_facts["decoder::Utf8Decoder::consume"] = {"fields": {"(*_1).offset": (1, min(ml, cap))}}

    # TAGGED-ACCEPT: every accepting state of the two decoder automata carries a tag, Matcher(i) has i < #matchers
    ctx.rule("LEMMA-TAGGED-ACCEPT", "accepting states of the decoder automata are tagged; Matcher(index) comes from enumerate() over the stored matchers", floor=3)
    tagged_ok = True
    nb = prog.one(r"^decoder::MatcherAutomata::<T>::new$")
    ncl = prog.one(r"^decoder::MatcherAutomata::<T>::new::\{closure#0\}$")
    if nb is None or ncl is None:
        tagged_ok = False
        ctx.anchor("LEMMA-TAGGED-ACCEPT", "MatcherAutomata::new")
    else:
        # closure: tag_stop_state(Matcher(index)) with index = closure argument .0 on the Left edge
        tss = [(bb, t) for bb, t in ncl.calls() if call_matches(t, r"automata::NFA::<T>::tag_stop_state$")]
        ok1 = False
        for bb, t in tss:
            e = expr(ncl, t["args"][1])
            ok1 = ok1 or bool(re.match(r"^MatcherTag::Matcher\(arg2\.0\)$", e))
        # new: the vector enumerated is the one stored in `matchers`
        lits = [s for i, si, s in nb.assigns() if s["rv"]["k"] == "agg" and s["rv"].get("adt") == "decoder::MatcherAutomataInner"]
        ok2 = False
        if len(lits) == 1:
            f = dict(zip(lits[0]["rv"]["fnames"], lits[0]["rv"]["fields"]))
            me = expr(nb, f["matchers"])
            en = [expr(nb, t["args"][0]) for bb, t in nb.calls() if call_matches(t, r"Iterator::enumerate$")]
            ok2 = any(me in x or x.startswith("slice::iter") and me.split("(")[0] in x for x in en) or any(_same_vec(nb, f["matchers"], t) for bb, t in nb.calls() if call_matches(t, r"slice::<impl \[T\]>::iter$"))
        # every alternative of both automata has tags on accepting states (E2)
        ok3 = True
        try:
            for which in ("event", "command"):
                regs = grammar.registrations(src, which)
                for r in regs:
                    gg = gs.get(r.name)
                    if gg is None:
                        ok3 = False
                    elif gg.kind == "table":
                        # table-driven: every entry carries its own tag (key event)
                        ok3 = ok3 and bool(gg.table) and all(tag for _, tag in gg.table)
        except Exception:
            ok3 = False
        ctx.instance("LEMMA-TAGGED-ACCEPT", {"closure_tags_stop_with_enumerate_index": ok1})
        ctx.instance("LEMMA-TAGGED-ACCEPT", {"enumerated_vector_is_stored_matchers": ok2})
        ctx.instance("LEMMA-TAGGED-ACCEPT", {"table_alternatives_tag_every_entry": ok3})
        tagged_ok = ok1 and ok2 and ok3
        if not tagged_ok:
            ctx.violation("LEMMA-TAGGED-ACCEPT", nb.path, "shape", "MatcherAutomata::new does not tag every alternative's stop state with its enumerate() index over the stored matcher vector", sites=[nb.loc])
    if tagged_ok:
        lemmas[("decoder::MatcherDecoder::<T>::decode_byte", "UNWRAP")] = ("TAGGED-ACCEPT", "accepting states always carry a tag (checked on MatcherAutomata::new and the table grammar)")
        lemmas[("decoder::MatcherDecoder::<T>::decode_byte", "BOUNDSCALL")] = ("TAGGED-ACCEPT", "Matcher(index) tags are enumerate() indices of the stored matcher vector")

    # GRAM-FACTOR(TermSize)
    ctx.rule("LEMMA-GRAM-FACTOR", "every ESC-free piece after the first of a TermSize report has length >= 4 (needs [3..len-1])", floor=1)
    ts = "<decoder::TermSizeMatcher as decoder::Matcher>::decode"
    try:
        k, w = grammar.termsize_piece_minlen(src, witness=True)
    except Exception as e:
        k, w = None, None
        ctx.anchor("LEMMA-GRAM-FACTOR", "TermSize-grammar", str(e))
    tsb = prog.body(ts)
    if k is not None and tsb is not None:
        # the slices indexed are items of data.split(|c| c == ESC) taken after the first next()
        sp = [expr(tsb, t["args"][0]) for bb, t in tsb.calls() if call_matches(t, r"slice::<impl \[T\]>::split$")]
        okshape = sp == ["arg2"]
        ctx.instance("LEMMA-GRAM-FACTOR", {"piece_minlen": k, "witness": repr(w), "splits": sp, "needs": 4})
        if k >= 4 and okshape:
            for kind in ("OVF", "RANGEIDX"):
                lemmas[(ts, kind)] = ("GRAM-FACTOR", "pieces of data.split(ESC) after the first have length >= %d by the TermSize grammar" % k)
        else:
            ctx.violation("LEMMA-GRAM-FACTOR", ts, "piece-too-short", "TermSize grammar allows a piece of length %s (%r): [3..len-1] can panic" % (k, w), sites=[tsb.loc])

    # GRAM-EVENHEX + CHUNKS-NONEMPTY
    ctx.rule("LEMMA-GRAM-EVENHEX", "hex runs inside a TermCap payload have even length; hex_decode is reached only from TermCapMatcher::decode", floor=2)
    hx = "decoder::hex_decode::{closure#1}"
    try:
        even, wit = grammar.termcap_hex_runs_even(src)
    except Exception as e:
        even, wit = False, None
        ctx.anchor("LEMMA-GRAM-EVENHEX", "TermCap-grammar", str(e))
    cg = prog.callgraph()
    dyn, init = cg.reach_split(entries)
    callers = [c for c in cg.callers("decoder::hex_decode") if c in dyn]
    ok_callers = all(c.startswith("<decoder::TermCapMatcher as decoder::Matcher>::decode") for c in callers) and bool(callers)
    ctx.instance("LEMMA-GRAM-EVENHEX", {"even": even, "witness": repr(wit)})
    ctx.instance("LEMMA-GRAM-EVENHEX", {"hex_decode_callers_in_reach": callers, "ok": ok_callers})
    hb = prog.body("decoder::hex_decode")
    chunk2 = hb is not None and any(call_matches(t, r"slice::<impl \[T\]>::chunks$") and op_const_int(t["args"][1]) == 2 for bb, t in hb.calls())
    if even and ok_callers and chunk2:
        lemmas[(hx, "BOUNDS-Index-2")] = ("GRAM-EVENHEX", "chunks(2) of an even-length hex run always has 2 elements")
    else:
        ctx.note("GRAM-EVENHEX not available: even=%s callers=%s chunks(2)=%s" % (even, callers, chunk2))
    if chunk2:
        lemmas[(hx, "BOUNDS-Index-1")] = ("CHUNKS-NONEMPTY", "std: slice::chunks never yields an empty chunk")

    # DFA-DENSE (trusted)
    for p in ("automata::DFA::<T>::transition", "automata::DFA::<T>::info"):
        trusts[(p, "*")] = ("DFA-DENSE", "compile() emits 256 transitions per state in id order under `assert_eq!(index, state.0)` (checked by C15 R4-DENSITY); states handed out are < n")

    # demanded bits: KeyMod::from_bits masks its argument
    fb = prog.body("keys::KeyMod::from_bits")
    if fb is not None and re.search(r"BitAnd\(arg1, ", expr(fb, {"k": "copy", "place": {"l": 0, "p": []}})):
        lemmas[("<decoder::KittyKeyboardMatcher as decoder::Matcher>::decode", "LOSSY-usize-as-u32-1")] = (
            "DEMANDED-BITS", "the truncated value is only passed to KeyMod::from_bits which masks it: low bits are unchanged by the truncation")

    # ---------------- (a) obligations -------------------------------------------------------------------------
    def scope(b):
        return b.file.endswith(("decoder.rs", "automata.rs", "keys.rs", "face.rs", "terminal.rs"))

    outs, dyn, init = oblrules.run(ctx, "TOTAL", entries, lossy=True, entry_facts=entry_facts, lemmas=lemmas, trusts=trusts, scope=scope,
                                   lossy_filter=lambda b, o: not re.match(r"^i32-as-u32", o.sub), floor_bodies=25,
                                   desc="no reachable panic/overflow/OOB/unwrap/unsafe-precondition/lossy number in the decoders")

    if ctx.tier == "thorough":
        from .. import clippyxref
        clippyxref.run(ctx, "CLIPPY-XREF", [prog.body(p) for p in sorted(dyn) if prog.body(p) is not None])

    # ---------------- (b) Raw non-empty ---------------------------------------------------------------------------
    ctx.rule("RAW-NONEMPTY", "Raw(..) events are constructed only where `reject.is_empty()` is false", floor=2)
    n = 0
    for b in prog.bodies:
        if not b.file.endswith("decoder.rs"):
            continue
        cfg = None
        for i, si, s in b.assigns():
            rv = s["rv"]
            if rv["k"] == "agg" and rv.get("variant") == "Raw" and rv.get("adt") in ("terminal::TerminalEvent", "terminal::TerminalCommand"):
                n += 1
                cfg = cfg or b.cfg()
                ok = False
                for sb, t in b.terms():
                    if t["k"] != "switch":
                        continue
                    e = expr(b, t["d"])
                    if re.search(r"(is_empty\(|Eq\(.*len\(.*, 0\))", e) and t["vals"] == ["0"]:
                        # false edge = not empty
                        if cfg.edge_dominates(sb, t["targets"][0], i):
                            ok = True
                ctx.instance("RAW-NONEMPTY", {"fn": b.path, "adt": rv["adt"], "guarded": ok})
                if not ok:
                    ctx.violation("RAW-NONEMPTY", b.path, rv["adt"].split("::")[-1], "a Raw item is constructed without the `!reject.is_empty()` guard: empty raw events could be emitted", sites=["%s:%d" % (b.file, s["line"])])
    if n == 0:
        ctx.anchor("RAW-NONEMPTY", "Raw-constructions")


def rv_text(body, s):
    rv = s["rv"]
    if rv["k"] == "use":
        return expr(body, rv["a"])
    if rv["k"] == "bin":
        return "%s(%s, %s)" % (rv["op"].replace("WithOverflow", ""), expr(body, rv["a"]), expr(body, rv["b"]))
    return rv["k"]


def _same_vec(body, matchers_operand, iter_call):
    """the slice iterated by `.iter()` derives from the same Vec local that is stored in `matchers`"""
    ml = op_local(matchers_operand)
    og = origins(body, iter_call["args"][0])
    mo = origins(body, matchers_operand)
    return bool(og & mo) or any(o[0] == "place" and ("_%d" % ml) in o[1] for o in og)
