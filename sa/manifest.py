"""Generates /verif/MANIFEST.json from the per-property registry below (python3 -m sa.manifest)."""
import json
import os

VERIF = os.path.dirname(os.path.dirname(os.path.abspath(__file__)))

TRUST = ("Trusted base: rustc's MIR for the dev profile (mir-opt-level=0) as the semantics of the code, the two fact dumpers "
         "(tools/mirdump, tools/srcdump), the Python rule engines under sa/, and the reference tables under sa/refs. Sound-not-complete: "
         "safe code outside the recognised idioms is reported (fail closed, floors on instance counts). Only the named structural clauses "
         "are decided, not the whole behaviour.")

import importlib
import sys
sys.path.insert(0, VERIF)


# modules are registered only after the maintainer has reviewed them and `./check CNN` exits 0 on the pinned tree
REGISTERED = ["C01", "C02", "C03", "C04", "C05", "C06", "C07", "C08", "C09", "C10", "C11", "C12", "C13", "C14", "C15", "C16", "C17", "C18", "C19", "C20"]


def load_claims():
    """each sa/rules/cNN.py that is ready to be registered defines CLAIM = {text, technique, design_ref[, note]}"""
    claims = {}
    d = os.path.join(VERIF, "sa", "rules")
    for f in sorted(os.listdir(d)):
        if f.startswith("c") and f.endswith(".py"):
            mod = importlib.import_module("sa.rules." + f[:-3])
            c = getattr(mod, "CLAIM", None)
            if c and f[:-3].upper() in REGISTERED:
                claims[f[:-3].upper()] = c
    return claims


NOT_APPLICABLE = {
    "C12": "sixel pixel-exact decoding, run-length and band assembly are value computations over image data; no clause visible in the shape of the code decides them (DESIGN §5 C12)",
    "C13": "palette optimality, nearest-colour exactness and losslessness are numerical results over all images/palettes; static analysis in reach cannot bound them (DESIGN §5 C13)",
}


def main():
    CLAIMS = load_claims()
    props = [json.loads(l)["id"] for l in open(os.path.join(VERIF, "properties.jsonl"))]
    checks = []
    na = []
    for pid in props:
        if pid in CLAIMS and os.path.exists(os.path.join(VERIF, "sa", "rules", pid.lower() + ".py")):
            c = CLAIMS[pid]
            checks.append({
                "property_id": pid,
                "quick_cmd": "./check %s --tier quick" % pid,
                "thorough_cmd": "./check %s --tier thorough" % pid,
                "evidence_file": "/verif/evidence/%s.json" % pid,
                "replay_cmd_template": "./check %s --replay {path}" % pid,
                "engine": "sa",
                "level_claimed": {"category": "other", "text": c["text"], "design_ref": c["design_ref"]},
                "level_note": c.get("note", TRUST),
                "technique": c["technique"],
            })
        elif pid in NOT_APPLICABLE:
            na.append({"property_id": pid, "reason": NOT_APPLICABLE[pid]})
        else:
            na.append({"property_id": pid, "reason": "no registered check yet: the static rules planned in DESIGN.md §5 for this property are not implemented at this commit"})
    m = {
        "version": 1,
        "setup_cmd": "python3 -m sa.facts setup",
        "hooks": {
            "guard": "snt_verif",
            "enable": "none needed: static analysis reads the source as it is (no instrumentation is compiled in)",
            "baseline_off_cmd": "cd /repo && cargo test --workspace --no-fail-fast --offline",
            "source_commits": [],
            "add_only": True,
        },
        "engines": [
            {"name": "sa", "path": "/verif/sa", "serves_properties": [c["property_id"] for c in checks],
             "kind_free_text": "static analysis: rustc_private MIR dump + syn source dump -> Python rule engines (CFG/effect rules, abstract interpretation, grammar automata, table/template agreement)"},
        ],
        "checks": checks,
        "not_applicable": na,
        "notes": "Family: static analysis only. Every check re-extracts facts from /repo's current working tree (content-hashed), never runs repository code. "
                 "Known findings: /verif/known_findings.txt. Fix commits in /repo start with 'fix:'.",
    }
    with open(os.path.join(VERIF, "MANIFEST.json"), "w") as fh:
        json.dump(m, fh, indent=1)
    print("MANIFEST.json: %d checks, %d not_applicable" % (len(checks), len(na)))


if __name__ == "__main__":
    main()
