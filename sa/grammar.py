"""Extraction of the escape-sequence grammars of /repo/src/decoder.rs as regular languages (engine E2, DESIGN.md §3).

Everything here is denotation of program text taken from ctx.src (the syn dump): no repository code is run.

API
    read_wiring(src) -> Wiring
        .templates   {'sequence'|'choice'|'some'|'optional'|'many'|'predicate'|'empty'|'nothing'|'from': regex.Template}
                     as READ from src/automata.rs (role dataflow over the combinator bodies)
        .problems    [(combinator, text)] constructs that were not understood (callers fail closed)
        .merge       {'facts': {...}, 'problems': [...]}   facts about NFA::merge_states (renumbering by increasing offsets)
        .delegations {'add': 'sequence', 'bitor': 'choice'} as found in the operator impls
        .model()     templates usable by regex.build_asbuilt (Thompson's textbook template substituted where a template could not
                     be read; such combinators are listed in .problems)
    extract(src, wiring=None) -> {name: Grammar}     (cached per Src object)
        names: one per `impl Matcher for X` (unit structs: 'KittyImageMatcher', …), one per constructed instance of a matcher
        struct with fields ('UTF8Matcher(Printable)', 'UTF8Matcher(NotEscape)'), 'MappedMatcher' (kind 'generic', no rx),
        compiled helper statics ('UTF8DFA'), and the two unions as written in MatcherAutomata::new
        ('TTY_EVENT_AUTOMATA', 'TTY_COMMAND_AUTOMATA', kind 'union').
    Grammar fields
        name, kind ('parsed' = Either::Left payload decoded by Matcher::decode | 'table' = Either::Right, tags carry the events |
        'generic' | 'helper' | 'union'), impl (struct name), rx (regex.Rx tree with provenance sites), site ('src/decoder.rs:LINE'),
        table ([(bytes, tag text)] for 'table' grammars), problem (text if the body could not be folded; then rx is None)
        lazily computed and cached:  regex_dfa, asbuilt_dfa (minimal DFAs, regex vs as-built semantics), minlen, maxlen (None = unbounded),
        prefix, suffix (bytes common to all words), accepts_empty — the scalar facts are taken from asbuilt_dfa (what the decoder runs);
        the *_regex variants (minlen_regex, …) from the documented meaning.
    event_matcher_names(src) / command_matcher_names(src) -> [grammar name] in registration order (index = MatcherTag::Matcher(i))
    registrations(src, 'event'|'command') -> [Registration(index, name, impl, mapped, text)]
    union_rx(src, which) -> Rx of the whole automaton as evaluated from MatcherAutomata::new
    fold_predicate(src, closure_node) -> 256-bit class of a `|b| <bool expr>` closure node of src.json
    decode_entry_facts(src) -> {'<decoder::XMatcher as decoder::Matcher>::decode': {'minlen','maxlen','prefix','suffix','grammars','impl','registered'}}
    termsize_piece_minlen(src[, witness=True]) -> k: every ESC-free factor after the first of a TermSize word has length >= k
    termcap_hex_runs_even(src) -> (True, None) | (False, word): maximal hex runs inside data[5..len-2] of TermCap words are even
    matcher_impl_count(src), extraction_problems(src) -> bookkeeping used by C15
    Unfoldable is raised (naming the construct) for anything outside the evaluated subset; extract() records it in Grammar.problem instead.
    Typical use in another rule:   g = grammar.extract(ctx.src)["MouseEventMatcher"];  g.minlen, g.prefix, g.suffix;
                                   regex.intersect_witness(g.asbuilt_dfa, other.asbuilt_dfa);  regex.run_parity_witness(g.asbuilt_dfa, hexclass)
"""
import re
from collections import namedtuple

from . import regex as R
from .regex import Rx, Site, Template
from .src import expr_text, pat_text

COMBINATORS = ("sequence", "choice", "some", "optional", "many", "predicate", "empty", "nothing", "from")
AUTOMATA = "src/automata.rs"
DECODER = "src/decoder.rs"


class Unfoldable(Exception):
    pass


# ------------------------------------------------------------------------------------------------
# values of the evaluator
# ------------------------------------------------------------------------------------------------
class U8(int):
    pass


class Char:
    __slots__ = ("code",)

    def __init__(self, code):
        self.code = int(code)

    def __eq__(self, o):
        return isinstance(o, Char) and o.code == self.code

    def __hash__(self):
        return hash(("char", self.code))

    def __lt__(self, o):
        return self.code < o.code

    def __le__(self, o):
        return self.code <= o.code

    def __repr__(self):
        return "Char(%r)" % chr(self.code)


class Sym:
    """opaque symbolic value: a path, a constructor application or an operator over such"""
    __slots__ = ("head", "args", "_t")

    def __init__(self, head, args=None):
        self.head = head
        self.args = args
        self._t = None

    def text(self):
        if self._t is None:
            if self.args is None:
                self._t = self.head
            elif self.head in ("|", "&", "+"):
                self._t = (" %s " % self.head).join(value_text(a) for a in self.args)
            elif self.head.startswith("."):
                self._t = "%s%s(%s)" % (value_text(self.args[0]), self.head, ", ".join(value_text(a) for a in self.args[1:]))
            else:
                self._t = "%s(%s)" % (self.head, ", ".join(value_text(a) for a in self.args))
        return self._t

    def __eq__(self, o):
        return isinstance(o, Sym) and o.text() == self.text()

    def __hash__(self):
        return hash(self.text())

    def __lt__(self, o):
        return self.text() < o.text()

    def __repr__(self):
        return "Sym<%s>" % self.text()


def value_text(v):
    if isinstance(v, Sym):
        return v.text()
    if isinstance(v, Char):
        c = v.code
        return "'%s'" % (chr(c) if 32 <= c < 127 and chr(c) not in "'\\" else "\\u{%x}" % c)
    if isinstance(v, bool):
        return "true" if v else "false"
    if isinstance(v, int):
        return str(int(v))
    if isinstance(v, str):
        return '"%s"' % v.encode("unicode_escape").decode()
    if isinstance(v, tuple):
        return "(%s)" % ", ".join(value_text(x) for x in v)
    if isinstance(v, list):
        return "[%s]" % ", ".join(value_text(x) for x in v)
    if isinstance(v, StructVal):
        return "%s{%s}" % (v.name, ", ".join("%s: %s" % (k, value_text(x)) for k, x in v.fields.items()))
    if isinstance(v, Rx):
        return "NFA<%s>" % R.rx_text(v, 60)
    return repr(v)


class StructVal:
    __slots__ = ("name", "fields")

    def __init__(self, name, fields):
        self.name = name
        self.fields = fields


class EitherVal:
    __slots__ = ("side", "value")

    def __init__(self, side, value):
        self.side = side
        self.value = value


class OptionVal:
    __slots__ = ("value", "some")

    def __init__(self, some, value=None):
        self.some = some
        self.value = value


class Compiled:
    __slots__ = ("rx",)

    def __init__(self, rx):
        self.rx = rx


class Closure:
    __slots__ = ("params", "body", "env", "frame")

    def __init__(self, params, body, env, frame):
        self.params = params
        self.body = body
        self.env = env
        self.frame = frame


class FnRef:
    __slots__ = ("file", "item", "impl_self", "qual")

    def __init__(self, file, item, impl_self, qual):
        self.file = file
        self.item = item
        self.impl_self = impl_self
        self.qual = qual


class Env:
    __slots__ = ("vars", "parent")

    def __init__(self, parent=None):
        self.vars = {}
        self.parent = parent

    def get(self, name):
        e = self
        while e is not None:
            if name in e.vars:
                return e.vars[name]
            e = e.parent
        raise KeyError(name)

    def has(self, name):
        e = self
        while e is not None:
            if name in e.vars:
                return True
            e = e.parent
        return False

    def set_existing(self, name, v):
        e = self
        while e is not None:
            if name in e.vars:
                e.vars[name] = v
                return
            e = e.parent
        raise Unfoldable("assignment to unknown variable %s" % name)


class Frame:
    __slots__ = ("qual", "file", "impl_self", "item", "ordinals")

    def __init__(self, qual, file, impl_self, item):
        self.qual = qual
        self.file = file
        self.impl_self = impl_self
        self.item = item
        self.ordinals = None


class _Return(Exception):
    def __init__(self, v):
        self.v = v


class _Break(Exception):
    pass


class _Continue(Exception):
    pass


_CHILD_ORDER = ["recv", "f", "scrutinee", "e", "l", "cond", "init", "iter", "pat", "args", "elems", "fields", "stmts", "then", "body",
                "r", "else", "arms", "guard", "extra"]


def ordered_walk(node, fn):
    """pre-order walk in (approximate) source order: receiver before arguments, left before right"""
    if isinstance(node, dict):
        if "k" in node:
            fn(node)
        keys = [k for k in _CHILD_ORDER if k in node] + sorted(k for k in node if k not in _CHILD_ORDER and k != "tokens")
        for k in keys:
            ordered_walk(node[k], fn)
    elif isinstance(node, list):
        for v in node:
            ordered_walk(v, fn)


def comb_of_node(n):
    """combinator name if the syntax node applies one of the nine primitive NFA combinators"""
    if n.get("k") == "mcall" and n["m"] in ("some", "many", "optional"):
        return n["m"]
    if n.get("k") == "call" and n["f"].get("k") == "path":
        segs = n["f"]["p"].split("::")
        if len(segs) == 2 and segs[0] in ("NFA", "Self") and segs[1] in COMBINATORS and segs[1] not in ("some", "many", "optional"):
            return segs[1]
    return None


def base_name(ty):
    if ty is None:
        return None
    return re.sub(r"<.*$", "", ty)


_ASCII_PRED = {
    "is_ascii_digit": lambda c: 48 <= c <= 57,
    "is_ascii_hexdigit": lambda c: 48 <= c <= 57 or 65 <= c <= 70 or 97 <= c <= 102,
    "is_ascii_alphabetic": lambda c: 65 <= c <= 90 or 97 <= c <= 122,
    "is_ascii_alphanumeric": lambda c: 48 <= c <= 57 or 65 <= c <= 90 or 97 <= c <= 122,
    "is_ascii_lowercase": lambda c: 97 <= c <= 122,
    "is_ascii_uppercase": lambda c: 65 <= c <= 90,
    "is_ascii_punctuation": lambda c: 33 <= c <= 47 or 58 <= c <= 64 or 91 <= c <= 96 or 123 <= c <= 126,
    "is_ascii_graphic": lambda c: 33 <= c <= 126,
    "is_ascii_whitespace": lambda c: c in (32, 9, 10, 12, 13),
    "is_ascii_control": lambda c: c <= 31 or c == 127,
    "is_ascii": lambda c: c <= 127,
}
_U8_BITCOUNT = {
    "count_ones": lambda c: bin(c).count("1"),
    "count_zeros": lambda c: 8 - bin(c).count("1"),
    "leading_zeros": lambda c: 8 - c.bit_length(),
    "leading_ones": lambda c: 8 - (~c & 0xFF).bit_length(),
    "trailing_zeros": lambda c: 8 if c == 0 else (c & -c).bit_length() - 1,
    "trailing_ones": lambda c: ((~c & 0xFF) & -(~c & 0xFF)).bit_length() - 1 if c != 0xFF else 8,
}
_INT_BITS = {"u8": 8, "u16": 16, "u32": 32, "u64": 64, "usize": 64, "i8": 8, "i16": 16, "i32": 32, "i64": 64, "isize": 64, "u128": 128, "i128": 128}
_TRANSPARENT_CTORS = ("Box::new", "Arc::new", "Rc::new", "std::sync::Arc::new", "std::rc::Rc::new")


class Interp:
    """Evaluator for the subset of Rust in which decoder.rs writes its grammars."""

    def __init__(self, src):
        self.src = src
        self.depth = 0
        self.struct_names = {it["name"]: it for (f, it, t) in src.structs if not t}
        self.statics = {}
        for (f, s, it, t) in src.consts:
            if not t and s is None:
                self.statics.setdefault((f, it["name"]), it)
        self._static_cache = {}
        # impl fns: (base self type, fn name) -> [(file, impl_self, trait, item)]
        self.impl_fns = {}
        self.free_fns = {}
        for (f, s, tr, it, t) in src.fns:
            if t:
                continue
            if s is None:
                self.free_fns.setdefault((f, it["name"]), it)
            else:
                self.impl_fns.setdefault((base_name(s), it["name"]), []).append((f, s, tr, it))
        self.traits_of = {}
        for (f, it, t) in src.impls:
            if not t and it.get("trait"):
                self.traits_of.setdefault(base_name(it["self_ty"]), set()).add(base_name(it["trait"]))

    # ---- sites --------------------------------------------------------------------------------
    def site(self, frame, node, comb):
        if frame.ordinals is None:
            counts = {}
            ords = {}

            def f(n):
                c = comb_of_node(n)
                if c:
                    counts[c] = counts.get(c, 0) + 1
                    ords[id(n)] = counts[c]
            ordered_walk(frame.item.get("body") if frame.item.get("k") == "fn" else frame.item.get("expr"), f)
            frame.ordinals = ords
        return Site(frame.qual, comb, frame.ordinals.get(id(node), 0), frame.file, node.get("line", 0))

    # ---- functions ----------------------------------------------------------------------------
    def lookup_method(self, ty, name):
        """(file, impl_self, trait, item) of method `name` for struct type `ty`: inherent, then trait impls, then trait defaults"""
        cands = self.impl_fns.get((ty, name), [])
        inherent = [c for c in cands if c[2] is None]
        if len(inherent) == 1:
            return inherent[0]
        if len(cands) == 1:
            return cands[0]
        if len(cands) > 1:
            raise Unfoldable("ambiguous method %s::%s" % (ty, name))
        for tr in sorted(self.traits_of.get(ty, ())):
            c = self.impl_fns.get(("trait " + tr, name), [])
            if len(c) == 1:
                return c[0]
        return None

    def call_item(self, file, impl_self, item, args, self_val=None, qual=None):
        self.depth += 1
        if self.depth > 60:
            raise Unfoldable("recursion too deep in %s" % item["name"])
        try:
            if qual is None:
                b = base_name(impl_self)
                if b and b.startswith("trait "):
                    b = b[6:]
                qual = ("%s::%s" % (b, item["name"])) if b else item["name"]
            frame = Frame(qual, file, impl_self, item)
            env = Env()
            ai = 0
            for p in item["sig"]["inputs"]:
                if p["name"] == "self":
                    env.vars["self"] = self_val
                    continue
                if ai >= len(args):
                    raise Unfoldable("call of %s with too few arguments" % qual)
                if not self.bind(p["pat"], args[ai], env, frame):
                    raise Unfoldable("parameter pattern of %s" % qual)
                ai += 1
            try:
                return self.block(item["body"], env, frame)
            except _Return as r:
                return r.v
        finally:
            self.depth -= 1

    def call_value(self, f, args, frame=None):
        if isinstance(f, Closure):
            env = Env(f.env)
            if len(f.params) != len(args):
                if len(f.params) == 1 and len(args) > 1:
                    args = [tuple(args)]
                else:
                    raise Unfoldable("closure arity")
            for p, a in zip(f.params, args):
                if not self.bind(p, a, env, f.frame):
                    raise Unfoldable("closure parameter pattern %s" % pat_text(p))
            try:
                return self.eval(f.body, env, f.frame)
            except _Return as r:
                return r.v
        if isinstance(f, FnRef):
            return self.call_item(f.file, f.impl_self, f.item, args, qual=f.qual)
        if isinstance(f, Sym) and f.args is None:
            last = f.head.split("::")[-1]
            if last in _ASCII_PRED and len(args) == 1:
                return _ASCII_PRED[last](self.as_code(args[0]))
            return Sym(f.head, list(args))
        raise Unfoldable("call of non-function value %s" % value_text(f))

    # ---- patterns -----------------------------------------------------------------------------
    def bind(self, pat, v, env, frame):
        k = pat["k"]
        if k == "ident":
            if pat.get("sub") and not self.bind(pat["sub"], v, env, frame):
                return False
            env.vars[pat["name"]] = v
            return True
        if k == "wild" or k == "rest":
            return True
        if k == "ref":
            return self.bind(pat["pat"], v, env, frame)
        if k == "tuple":
            if not isinstance(v, tuple) or len(v) != len(pat["elems"]):
                raise Unfoldable("tuple pattern %s against %s" % (pat_text(pat), value_text(v)))
            return all(self.bind(p, x, env, frame) for p, x in zip(pat["elems"], v))
        if k == "lit":
            return self.values_equal(self.literal(pat["e"]), v)
        if k == "range":
            lo = self.eval(pat["lo"], env, frame) if pat.get("lo") else None
            hi = self.eval(pat["hi"], env, frame) if pat.get("hi") else None
            c = self.as_code(v)
            if lo is not None and c < self.as_code(lo):
                return False
            if hi is not None:
                h = self.as_code(hi)
                return c <= h if pat["incl"] else c < h
            return True
        if k == "or":
            return any(self.bind(c, v, env, frame) for c in pat["cases"])
        if k == "path":
            if isinstance(v, Sym):
                if v.args is not None:
                    return False
                return self.same_path(v.head, pat["p"])
            if isinstance(v, OptionVal) and pat["p"].split("::")[-1] == "None":
                return not v.some
            raise Unfoldable("path pattern %s against %s" % (pat["p"], value_text(v)))
        if k == "tstruct":
            last = pat["path"].split("::")[-1]
            if isinstance(v, EitherVal):
                if last not in ("Left", "Right"):
                    raise Unfoldable("pattern %s against Either" % pat["path"])
                return v.side == last and self.bind(pat["elems"][0], v.value, env, frame)
            if isinstance(v, OptionVal):
                if last == "Some":
                    return v.some and self.bind(pat["elems"][0], v.value, env, frame)
                raise Unfoldable("pattern %s against Option" % pat["path"])
            if isinstance(v, Sym):
                if v.args is None or not self.same_path(v.head, pat["path"]) or len(v.args) != len(pat["elems"]):
                    return False
                return all(self.bind(p, x, env, frame) for p, x in zip(pat["elems"], v.args))
            raise Unfoldable("pattern %s against %s" % (pat_text(pat), value_text(v)))
        if k == "struct":
            if isinstance(v, StructVal):
                for f in pat["fields"]:
                    if f["name"] not in v.fields:
                        raise Unfoldable("struct pattern field %s" % f["name"])
                    if not self.bind(f["pat"], v.fields[f["name"]], env, frame):
                        return False
                return True
            raise Unfoldable("struct pattern against %s" % value_text(v))
        raise Unfoldable("pattern kind %s" % k)

    @staticmethod
    def same_path(a, b):
        sa, sb = a.split("::"), b.split("::")
        n = min(len(sa), len(sb), 2)
        return sa[-n:] == sb[-n:]

    def values_equal(self, a, b):
        if isinstance(a, Char) or isinstance(b, Char):
            return isinstance(a, Char) and isinstance(b, Char) and a.code == b.code
        if isinstance(a, (Sym, StructVal, Rx)) or isinstance(b, (Sym, StructVal, Rx)):
            if isinstance(a, Sym) and isinstance(b, Sym):
                return a == b
            raise Unfoldable("comparison of %s and %s" % (value_text(a), value_text(b)))
        return a == b

    def as_code(self, v):
        if isinstance(v, Char):
            return v.code
        if isinstance(v, bool):
            raise Unfoldable("bool used as number")
        if isinstance(v, int):
            return int(v)
        raise Unfoldable("%s used as a number" % value_text(v))

    # ---- literals -----------------------------------------------------------------------------
    def literal(self, e):
        t = e["t"]
        if t == "int":
            v = int(e["v"])
            return U8(v) if e.get("suffix") == "u8" else v
        if t == "byte":
            return U8(e["v"])
        if t == "char":
            return Char(e["v"])
        if t == "str":
            return e["v"]
        if t == "bytestr":
            return bytes(e["v"])
        if t == "bool":
            return bool(e["v"])
        raise Unfoldable("literal of kind %s" % t)

    # ---- blocks and statements ----------------------------------------------------------------
    def block(self, b, env, frame):
        env = Env(env)
        last = ()
        stmts = b["stmts"]
        for i, st in enumerate(stmts):
            k = st["k"]
            if k == "let":
                if st.get("init") is None:
                    raise Unfoldable("let without initialiser")
                v = self.eval(st["init"], env, frame)
                if not self.bind(st["pat"], v, env, frame):
                    if st.get("else"):
                        self.eval(st["else"], env, frame)
                    raise Unfoldable("refutable let pattern %s" % pat_text(st["pat"]))
                last = ()
            elif k == "item":
                it = st["item"]
                if it.get("k") == "fn":
                    env.vars[it["name"]] = FnRef(frame.file, it, None, "%s::%s" % (frame.qual, it["name"]))
                last = ()
            elif k == "expr":
                v = self.eval(st["e"], env, frame)
                last = () if st["semi"] else v
            else:
                raise Unfoldable("statement kind %s" % k)
        return last

    # ---- expressions --------------------------------------------------------------------------
    def eval(self, e, env, frame):
        k = e["k"]
        m = getattr(self, "e_" + k, None)
        if m is None:
            raise Unfoldable("expression kind %s (%s)" % (k, expr_text(e)[:60]))
        return m(e, env, frame)

    def e_lit(self, e, env, frame):
        return self.literal(e)

    def e_block(self, e, env, frame):
        return self.block(e, env, frame)

    def e_ref(self, e, env, frame):
        return self.eval(e["e"], env, frame)

    def e_tuple(self, e, env, frame):
        return tuple(self.eval(x, env, frame) for x in e["elems"])

    def e_array(self, e, env, frame):
        return [self.eval(x, env, frame) for x in e["elems"]]

    def e_closure(self, e, env, frame):
        return Closure(e["params"], e["body"], env, frame)

    def e_return(self, e, env, frame):
        raise _Return(self.eval(e["e"], env, frame) if e.get("e") else ())

    def e_break(self, e, env, frame):
        raise _Break()

    def e_continue(self, e, env, frame):
        raise _Continue()

    def e_range(self, e, env, frame):
        if e.get("lo") is None or e.get("hi") is None:
            raise Unfoldable("open range %s" % expr_text(e))
        lo = self.eval(e["lo"], env, frame)
        hi = self.eval(e["hi"], env, frame)
        u8 = isinstance(lo, U8) or isinstance(hi, U8)
        ch = isinstance(lo, Char)
        a, b = self.as_code(lo), self.as_code(hi) + (1 if e["incl"] else 0)
        if ch:
            return ("charrange", a, b)
        return [U8(x) for x in range(a, b)] if u8 else range(a, b)

    def e_path(self, e, env, frame):
        p = e["p"]
        if "::" not in p:
            if env.has(p):
                return env.get(p)
            if p in self.struct_names and not self.struct_names[p]["fields"]:
                return StructVal(p, {})
            it = self.free_fns.get((frame.file, p))
            if it is not None:
                return FnRef(frame.file, it, None, p)
            if (frame.file, p) in self.statics:
                return self.static_value(frame.file, p)
            return Sym(p)
        segs = p.split("::")
        if segs[0] == "Self" and frame.impl_self:
            p = base_name(frame.impl_self) + "::" + "::".join(segs[1:])
        if p in ("u8::MAX",):
            return U8(255)
        return Sym(p)

    def static_value(self, file, name):
        key = (file, name)
        if key not in self._static_cache:
            it = self.statics[key]
            frame = Frame(name, file, None, it)
            self._static_cache[key] = self.eval(it["expr"], Env(), frame)
        return self._static_cache[key]

    def e_field(self, e, env, frame):
        v = self.eval(e["e"], env, frame)
        n = e["name"]
        if isinstance(v, StructVal):
            if n not in v.fields:
                raise Unfoldable("field %s of %s" % (n, v.name))
            return v.fields[n]
        if isinstance(v, tuple) and n.isdigit():
            return v[int(n)]
        raise Unfoldable("field %s of %s" % (n, value_text(v)))

    def e_index(self, e, env, frame):
        v = self.eval(e["e"], env, frame)
        i = self.eval(e["i"], env, frame)
        if isinstance(v, (list, tuple, str, bytes)) and isinstance(i, int):
            return v[i]
        raise Unfoldable("index expression %s" % expr_text(e))

    def e_cast(self, e, env, frame):
        v = self.eval(e["e"], env, frame)
        ty = e["ty"]
        if ty in _INT_BITS:
            c = self.as_code(v) if not isinstance(v, bool) else int(v)
            c &= (1 << _INT_BITS[ty]) - 1
            if ty.startswith("i") and c >> (_INT_BITS[ty] - 1):
                # two's complement: `b as i8` of a byte >= 0x80 is negative (e.g. the `(b as i8) < -64` continuation-byte idiom)
                c -= 1 << _INT_BITS[ty]
            return U8(c) if ty == "u8" else c
        if ty == "char":
            return Char(self.as_code(v))
        if ty.startswith("Box<") or ty.startswith("&"):
            return v
        raise Unfoldable("cast to %s" % ty)

    def e_un(self, e, env, frame):
        v = self.eval(e["e"], env, frame)
        op = e["op"]
        if op == "*" or op == "&":
            return v
        if op == "!":
            if isinstance(v, bool):
                return not v
            if isinstance(v, U8):
                return U8(~int(v) & 0xFF)
            raise Unfoldable("operator ! on %s" % value_text(v))
        if op == "-":
            return -self.as_code(v)
        raise Unfoldable("unary operator %s" % op)

    def e_assign(self, e, env, frame):
        v = self.eval(e["r"], env, frame)
        l = e["l"]
        if l["k"] == "path" and "::" not in l["p"]:
            env.set_existing(l["p"], v)
            return ()
        if l["k"] == "field":
            o = self.eval(l["e"], env, frame)
            if isinstance(o, StructVal):
                o.fields[l["name"]] = v
                return ()
        raise Unfoldable("assignment to %s" % expr_text(l))

    def e_bin(self, e, env, frame):
        op = e["op"]
        if op in ("&&", "||"):
            a = self.eval(e["l"], env, frame)
            if not isinstance(a, bool):
                raise Unfoldable("operator %s on %s" % (op, value_text(a)))
            if (op == "&&" and not a) or (op == "||" and a):
                return a
            b = self.eval(e["r"], env, frame)
            if not isinstance(b, bool):
                raise Unfoldable("operator %s on %s" % (op, value_text(b)))
            return b
        if op.endswith("=") and op not in ("==", "!=", "<=", ">="):
            cur = self.eval(e["l"], env, frame)
            rhs = self.eval(e["r"], env, frame)
            v = self.binop(op[:-1], cur, rhs, e, frame)
            if e["l"]["k"] == "path" and "::" not in e["l"]["p"]:
                env.set_existing(e["l"]["p"], v)
                return ()
            raise Unfoldable("compound assignment to %s" % expr_text(e["l"]))
        a = self.eval(e["l"], env, frame)
        b = self.eval(e["r"], env, frame)
        return self.binop(op, a, b, e, frame)

    def binop(self, op, a, b, e, frame):
        if isinstance(a, Rx) or isinstance(b, Rx):
            if not (isinstance(a, Rx) and isinstance(b, Rx)):
                raise Unfoldable("operator %s between NFA and %s" % (op, value_text(b if isinstance(a, Rx) else a)))
            name = {"+": "add", "|": "bitor"}.get(op)
            if name is None:
                raise Unfoldable("operator %s on NFA" % op)
            c = self.impl_fns.get(("NFA", name), [])
            if len(c) != 1:
                raise Unfoldable("operator %s on NFA: no unique impl of %s in automata.rs" % (op, name))
            f, s, tr, it = c[0]
            return self.call_item(f, s, it, [b], self_val=a)
        if op in ("==", "!="):
            r = self.values_equal(a, b)
            return r if op == "==" else not r
        if isinstance(a, Sym) or isinstance(b, Sym):
            if op in ("|", "&", "+"):
                return Sym(op, [a, b])
            raise Unfoldable("operator %s on symbolic values" % op)
        if isinstance(a, bool) and isinstance(b, bool) and op in ("&", "|", "^"):
            return {"&": a and b, "|": a or b, "^": a != b}[op]
        x, y = self.as_code(a), self.as_code(b)
        if op in ("<", "<=", ">", ">="):
            if isinstance(a, Char) != isinstance(b, Char):
                raise Unfoldable("comparison between char and integer")
            return {"<": x < y, "<=": x <= y, ">": x > y, ">=": x >= y}[op]
        if isinstance(a, Char) or isinstance(b, Char):
            raise Unfoldable("arithmetic on char")
        u8 = isinstance(a, U8) or (isinstance(b, U8) and op not in (">>", "<<"))
        if op == "+":
            r = x + y
        elif op == "-":
            r = x - y
        elif op == "*":
            r = x * y
        elif op == "/":
            if y == 0:
                raise Unfoldable("division by zero")
            r = x // y
        elif op == "%":
            if y == 0:
                raise Unfoldable("remainder by zero")
            r = x % y
        elif op == "&":
            r = x & y
        elif op == "|":
            r = x | y
        elif op == "^":
            r = x ^ y
        elif op == ">>":
            if u8 and y >= 8:
                raise Unfoldable("shift of u8 by %d" % y)
            r = x >> y
        elif op == "<<":
            if u8 and y >= 8:
                raise Unfoldable("shift of u8 by %d" % y)
            r = x << y
            if u8:
                r &= 0xFF
        else:
            raise Unfoldable("operator %s" % op)
        if u8:
            if not 0 <= r <= 255:
                raise Unfoldable("u8 arithmetic overflow in %s" % expr_text(e))
            return U8(r)
        if r < 0:
            raise Unfoldable("negative intermediate value in %s" % expr_text(e))
        return r

    def e_if(self, e, env, frame):
        c = e["cond"]
        env2 = Env(env)
        if c["k"] == "letcond":
            v = self.eval(c["e"], env, frame)
            ok = self.bind(c["pat"], v, env2, frame)
        else:
            ok = self.eval(c, env, frame)
            if not isinstance(ok, bool):
                raise Unfoldable("if condition %s is not a known boolean" % expr_text(c))
        if ok:
            return self.block(e["then"], env2, frame)
        if e.get("else"):
            return self.eval(e["else"], env, frame)
        return ()

    def e_match(self, e, env, frame):
        v = self.eval(e["e"], env, frame)
        for arm in e["arms"]:
            env2 = Env(env)
            if self.bind(arm["pat"], v, env2, frame):
                if arm.get("guard"):
                    g = self.eval(arm["guard"], env2, frame)
                    if not isinstance(g, bool):
                        raise Unfoldable("match guard %s" % expr_text(arm["guard"]))
                    if not g:
                        continue
                return self.eval(arm["body"], env2, frame)
        raise Unfoldable("no arm of `match %s` applies to %s" % (expr_text(e["e"]), value_text(v)))

    def iterate(self, v):
        if isinstance(v, (list, range)):
            return list(v)
        if isinstance(v, tuple) and len(v) == 3 and v[0] == "charrange":
            return [Char(c) for c in range(v[1], v[2])]
        if isinstance(v, bytes):
            return [U8(b) for b in v]
        raise Unfoldable("iteration over %s" % value_text(v))

    def e_for(self, e, env, frame):
        items = self.iterate(self.eval(e["iter"], env, frame))
        if len(items) > 100000:
            raise Unfoldable("loop too long")
        for x in items:
            env2 = Env(env)
            if not self.bind(e["pat"], x, env2, frame):
                raise Unfoldable("for pattern %s" % pat_text(e["pat"]))
            try:
                self.block(e["body"], env2, frame)
            except _Continue:
                continue
            except _Break:
                break
        return ()

    def e_struct(self, e, env, frame):
        name = e["path"]
        if name == "Self" and frame.impl_self:
            name = base_name(frame.impl_self)
        if e.get("rest"):
            raise Unfoldable("struct update syntax")
        last = name.split("::")[-1]
        if last not in self.struct_names:
            return Sym(name, [Sym(f["name"], [self.eval(f["e"], env, frame)]) for f in e["fields"]])
        return StructVal(last, {f["name"]: self.eval(f["e"], env, frame) for f in e["fields"]})

    def e_macro(self, e, env, frame):
        short = e["short"]
        if short == "matches":
            x = e.get("extra") or {}
            if "scrutinee" not in x:
                raise Unfoldable("matches! that srcdump could not parse")
            v = self.eval(x["scrutinee"], env, frame)
            env2 = Env(env)
            if not self.bind(x["pat"], v, env2, frame):
                return False
            if x.get("guard"):
                g = self.eval(x["guard"], env2, frame)
                if not isinstance(g, bool):
                    raise Unfoldable("matches! guard")
                return g
            return True
        if short == "format":
            args = e.get("args")
            if not args or args[0].get("k") != "lit" or args[0]["t"] != "str":
                raise Unfoldable("format! without a literal format string")
            vals = [self.eval(a, env, frame) for a in args[1:]]
            return self.format(args[0]["v"], vals, env)
        if short == "vec":
            if e.get("args") is not None:
                return [self.eval(a, env, frame) for a in e["args"]]
            raise Unfoldable("vec![x; n]")
        if short in ("assert", "debug_assert", "assert_eq", "debug_assert_eq", "info", "debug", "trace", "warn", "error"):
            return ()
        raise Unfoldable("macro %s!" % e["name"])

    def format(self, fmt, vals, env):
        out = []
        i = 0
        vi = 0
        while i < len(fmt):
            c = fmt[i]
            if c == "{":
                if fmt[i + 1:i + 2] == "{":
                    out.append("{")
                    i += 2
                    continue
                j = fmt.index("}", i)
                spec = fmt[i + 1:j]
                if spec == "":
                    if vi >= len(vals):
                        raise Unfoldable("format! with too few arguments")
                    v = vals[vi]
                    vi += 1
                elif re.fullmatch(r"[A-Za-z_][A-Za-z0-9_]*", spec) and env.has(spec):
                    v = env.get(spec)
                elif spec.isdigit() and int(spec) < len(vals):
                    v = vals[int(spec)]
                else:
                    raise Unfoldable("format! placeholder {%s}" % spec)
                out.append(self.display(v))
                i = j + 1
            elif c == "}":
                if fmt[i + 1:i + 2] != "}":
                    raise Unfoldable("format string")
                out.append("}")
                i += 2
            else:
                out.append(c)
                i += 1
        return "".join(out)

    def display(self, v):
        if isinstance(v, Char):
            return chr(v.code)
        if isinstance(v, str):
            return v
        if isinstance(v, bool):
            return "true" if v else "false"
        if isinstance(v, int):
            return str(int(v))
        raise Unfoldable("Display of %s" % value_text(v))

    # ---- calls --------------------------------------------------------------------------------
    def nfa_operands(self, v, what):
        items = self.iterate(v) if not isinstance(v, list) else v
        for x in items:
            if not isinstance(x, Rx):
                raise Unfoldable("%s over a non-NFA value %s" % (what, value_text(x)))
        return items

    def primitive(self, comb, args, node, frame, env):
        site = self.site(frame, node, comb)
        if comb == "from":
            s = args[0]
            if not isinstance(s, str):
                raise Unfoldable("NFA::from of %s" % value_text(s))
            return Rx("lit", (), s.encode("utf-8"), site)
        if comb == "predicate":
            return Rx("pred", (), self.fold_pred_value(args[0]), site)
        if comb in ("empty", "nothing"):
            return Rx(comb, (), None, site)
        if comb in ("sequence", "choice"):
            return Rx(R.RX_OP_OF[comb], self.nfa_operands(args[0], "NFA::" + comb), None, site)
        raise Unfoldable("primitive %s" % comb)

    def fold_pred_value(self, f):
        mask = 0
        for b in range(256):
            r = self.call_value(f, [U8(b)])
            if not isinstance(r, bool):
                raise Unfoldable("predicate closure does not evaluate to a boolean")
            if r:
                mask |= 1 << b
        return mask

    def e_call(self, e, env, frame):
        f = e["f"]
        if f["k"] != "path":
            fv = self.eval(f, env, frame)
            return self.call_value(fv, [self.eval(a, env, frame) for a in e["args"]], frame)
        p = f["p"]
        segs = p.split("::")
        # local fn / closure variable
        if len(segs) == 1 and env.has(p):
            return self.call_value(env.get(p), [self.eval(a, env, frame) for a in e["args"]], frame)
        comb = comb_of_node(e)
        if comb is not None:
            args = [self.eval(a, env, frame) for a in e["args"]]
            return self.primitive(comb, args, e, frame, env)
        args = [self.eval(a, env, frame) for a in e["args"]]
        ty = segs[-2] if len(segs) >= 2 else None
        if ty == "Self" and frame.impl_self:
            ty = base_name(frame.impl_self)
        last = segs[-1]
        if ty == "Either" and last in ("Left", "Right"):
            return EitherVal(last, args[0])
        if p in _TRANSPARENT_CTORS:
            return args[0]
        if p in ("LazyLock::new", "std::sync::LazyLock::new", "Lazy::new", "OnceLock::new"):
            return self.call_value(args[0], [], frame) if args else Sym(p, [])
        if p == "Some":
            return OptionVal(True, args[0])
        if p in ("char::from", "String::from", "std::convert::identity"):
            if p == "char::from":
                return Char(self.as_code(args[0]))
            return args[0]
        if p in ("Vec::new", "Vec::with_capacity", "SmallVec::new"):
            return []
        if p in ("once", "std::iter::once", "iter::once"):
            return [args[0]]
        if p in ("std::cmp::max", "cmp::max", "std::cmp::min", "cmp::min"):
            x, y = self.as_code(args[0]), self.as_code(args[1])
            return max(x, y) if last == "max" else min(x, y)
        if len(segs) == 1:
            it = self.free_fns.get((frame.file, p))
            if it is None:
                c = [(ff, i) for (ff, n), i in self.free_fns.items() if n == p]
                if len(c) == 1:
                    return self.call_item(c[0][0], None, c[0][1], args)
            else:
                return self.call_item(frame.file, None, it, args)
            return Sym(p, args)
        if ty is not None:
            # only the grammar-defining files are evaluated; constructors of other modules (keys, events) stay symbolic
            known = [x for x in self.impl_fns.get((ty, last), []) if x[0] in (AUTOMATA, DECODER)]
            c = [x for x in known if x[3]["sig"]["inputs"][:1] == [] or x[3]["sig"]["inputs"][0]["name"] != "self"]
            if len(c) == 1:
                ff, s, tr, it = c[0]
                return self.call_item(ff, s, it, args)
            c = known
            if len(c) == 1 and args:
                ff, s, tr, it = c[0]
                return self.call_item(ff, s, it, args[1:], self_val=args[0])
            if ty == "NFA":
                raise Unfoldable("call of unknown NFA constructor %s" % p)
        return Sym(p, args)

    def e_mcall(self, e, env, frame):
        m = e["m"]
        recv = self.eval(e["recv"], env, frame)
        args = [self.eval(a, env, frame) for a in e["args"]]
        if isinstance(recv, Rx):
            if m in ("some", "many", "optional"):
                return Rx(m, (recv,), None, self.site(frame, e, m))
            if m == "clone":
                return recv
            if m == "tag_stop_state":
                return Rx("tag", (recv,), args[0], None)
            if m == "tags_map":
                f = args[0]
                return Rx("tagmap", (recv,), lambda t, f=f: self.call_value(f, [t]), None)
            if m == "compile":
                return Compiled(recv)
            c = [x for x in self.impl_fns.get(("NFA", m), [])]
            if len(c) == 1:
                ff, s, tr, it = c[0]
                return self.call_item(ff, s, it, args, self_val=recv)
            raise Unfoldable("method NFA::%s" % m)
        if isinstance(recv, StructVal):
            if m == "clone":
                return recv
            r = self.lookup_method(recv.name, m)
            if r is None:
                raise Unfoldable("method %s::%s" % (recv.name, m))
            ff, s, tr, it = r
            return self.call_item(ff, s, it, args, self_val=recv)
        if isinstance(recv, EitherVal):
            if m in ("map_right", "map_left"):
                if (m == "map_right") == (recv.side == "Right"):
                    return EitherVal(recv.side, self.call_value(args[0], [recv.value]))
                return recv
            raise Unfoldable("method Either::%s" % m)
        if isinstance(recv, Compiled):
            if m == "clone":
                return recv
            raise Unfoldable("method DFA::%s" % m)
        if isinstance(recv, (list, range)) or (isinstance(recv, tuple) and recv[:1] == ("charrange",)) or isinstance(recv, bytes):
            if m in ("iter", "into_iter", "iter_mut", "copied", "cloned", "collect", "clone", "to_vec", "into_vec", "by_ref"):
                return list(self.iterate(recv)) if m != "clone" or not isinstance(recv, list) else list(recv)
            if m == "enumerate":
                return [(i, x) for i, x in enumerate(self.iterate(recv))]
            if m == "rev":
                return list(reversed(self.iterate(recv)))
            if m == "map":
                return [self.call_value(args[0], [x]) for x in self.iterate(recv)]
            if m == "filter":
                out = []
                for x in self.iterate(recv):
                    r = self.call_value(args[0], [x])
                    if not isinstance(r, bool):
                        raise Unfoldable("filter closure is not boolean")
                    if r:
                        out.append(x)
                return out
            if m == "chain":
                return self.iterate(recv) + self.iterate(args[0])
            if m == "push":
                if not isinstance(recv, list):
                    raise Unfoldable("push on %s" % value_text(recv))
                recv.append(args[0])
                return ()
            if m == "extend":
                recv.extend(self.iterate(args[0]))
                return ()
            if m == "len":
                return len(self.iterate(recv))
            if m == "is_empty":
                return len(self.iterate(recv)) == 0
            if m == "contains":
                c = self.as_code(args[0])
                if isinstance(recv, tuple):
                    return recv[1] <= c < recv[2]
                return any(self.as_code(x) == c for x in self.iterate(recv))
            raise Unfoldable("method %s on a sequence" % m)
        if isinstance(recv, Char) or (isinstance(recv, int) and not isinstance(recv, bool)):
            c = self.as_code(recv)
            if m in _ASCII_PRED:
                return _ASCII_PRED[m](c)
            if m in ("to_ascii_lowercase", "to_ascii_uppercase"):
                if m == "to_ascii_lowercase" and 65 <= c <= 90:
                    c += 32
                elif m == "to_ascii_uppercase" and 97 <= c <= 122:
                    c -= 32
                return Char(c) if isinstance(recv, Char) else (U8(c) if isinstance(recv, U8) else c)
            if m == "to_string":
                return self.display(recv)
            if m in ("clone", "into", "to_owned"):
                return recv
            if isinstance(recv, U8) and not args and m in _U8_BITCOUNT:
                return _U8_BITCOUNT[m](c)
            if isinstance(recv, U8) and len(args) == 1 and m in ("wrapping_add", "wrapping_sub") and not isinstance(args[0], (bool, Char, Sym)) \
                    and isinstance(args[0], int):
                return U8((c + int(args[0]) if m == "wrapping_add" else c - int(args[0])) & 0xFF)
            raise Unfoldable("method %s on %s" % (m, value_text(recv)))
        if isinstance(recv, str):
            if m in ("to_string", "to_owned", "as_str", "clone", "into", "as_ref"):
                return recv
            if m in ("bytes", "as_bytes"):
                return [U8(b) for b in recv.encode("utf-8")]
            if m == "len":
                return len(recv.encode("utf-8"))
            if m == "chars":
                return [Char(ord(c)) for c in recv]
            raise Unfoldable("method str::%s" % m)
        if isinstance(recv, tuple):
            if m in ("into", "clone"):
                return recv
            raise Unfoldable("method %s on a tuple" % m)
        if isinstance(recv, Closure) or isinstance(recv, FnRef):
            raise Unfoldable("method %s on a function value" % m)
        if isinstance(recv, Sym):
            if m in ("into", "clone", "to_owned"):
                return recv
            return Sym("." + m, [recv] + args)
        if isinstance(recv, OptionVal):
            raise Unfoldable("method Option::%s" % m)
        raise Unfoldable("method %s on %s" % (m, value_text(recv)))


def fold_predicate(src, closure_node, file=DECODER):
    """byte class of a `|b| <bool expr>` closure node"""
    it = Interp(src)
    frame = Frame("<predicate>", file, None, {"k": "fn", "body": {"k": "block", "stmts": []}})
    return it.fold_pred_value(Closure(closure_node["params"], closure_node["body"], Env(), frame))


# ================================================================================================
# wiring templates read from automata.rs  (role dataflow over the combinator bodies; C15-R1 consumes this)
# ================================================================================================
class WiringError(Exception):
    pass


def _is_path(e, name=None):
    return isinstance(e, dict) and e.get("k") == "path" and (name is None or e["p"] == name)


def _unref(e):
    while isinstance(e, dict) and e.get("k") == "ref":
        e = e["e"]
    return e


def _int_lit(e):
    if isinstance(e, dict) and e.get("k") == "lit" and e.get("t") == "int":
        return int(e["v"])
    return None


class _RoleEval:
    """Abstract interpretation of one combinator body over the role domain
       N<k> (fresh id NFAStateId(k)) · S/T (operand start/stop) · S0/T0 · Sn/Tn · Sp/Tp (previous operand)."""

    def __init__(self, name, item, impl_self):
        self.name = name
        self.item = item
        self.env = {}
        self.arity = None
        self.reserve = 0
        self.merged = False
        self.new_states = set()
        self.eps = set()
        self.byte_edges = set()
        self.on_empty = None
        self.fresh = {}           # uid -> {"eps": [(scope, role)], "bytes": [role], "placed": False}
        self.result = None
        self.sites = []
        self.byte_loop_ok = None
        inputs = item["sig"]["inputs"]
        self.self_taking = bool(inputs) and inputs[0]["name"] == "self"
        for p in inputs:
            if p["name"] == "self":
                self.env["self"] = ("self",)
            elif "IntoIterator" in p["ty"]:
                self.env[p["pat"]["name"]] = ("nfas",)
            elif p["ty"].startswith("implFn") or "Fn(" in p["ty"]:
                self.env[p["pat"]["name"]] = ("pred",)
            else:
                self.env[p["pat"].get("name", "?")] = ("param", p["ty"])

    def err(self, what):
        raise WiringError("%s: %s" % (self.name, what))

    # -- expressions -> abstract values
    def val(self, e):
        e = _unref(e)
        k = e["k"]
        if k == "path":
            if e["p"] in self.env:
                return self.env[e["p"]]
            self.err("unknown name %s" % e["p"])
        if k == "field":
            b = self.val(e["e"])
            if b == ("self",):
                if e["name"] == "start":
                    return ("role", "S")
                if e["name"] == "stop":
                    return ("role", "T")
                if e["name"] == "states":
                    return ("selfstates",)
            if b[0] in ("fresh", "stateref") and e["name"] in ("epsilons", "edges"):
                return (e["name"],) + (b,)
            self.err("field %s" % expr_text(e))
        if k == "call" and _is_path(e["f"]):
            p = e["f"]["p"]
            if p == "NFAStateId" and len(e["args"]) == 1:
                n = _int_lit(e["args"][0])
                if n is None:
                    self.err("NFAStateId of a non-literal: %s" % expr_text(e))
                return ("role", "N%d" % n)
            if p in ("NFAState::new",):
                uid = len(self.fresh)
                self.fresh[uid] = {"eps": [], "bytes": [], "placed": False}
                return ("fresh", uid)
            if p in ("BTreeMap::new", "Default::default", "BTreeMap::default"):
                return ("newmap",)
            if p in ("Self::merge_states", "NFA::merge_states"):
                return self.merge_call(e)
            if p in ("Self::empty", "Self::nothing", "NFA::empty", "NFA::nothing") and not e["args"]:
                return ("leafcall", p.split("::")[1])
            self.err("call %s" % expr_text(e))
        if k == "index":
            b = self.val(e["e"])
            if b != ("ends",):
                self.err("index into %s" % expr_text(e["e"]))
            return ("pair", self.index_kind(e["i"]))
        if k == "tuple":
            return ("tuple",) + tuple(self.val(x) for x in e["elems"])
        self.err("expression %s" % expr_text(e))

    def merge_call(self, e):
        if self.merged:
            self.err("merge_states called twice")
        if len(e["args"]) != 2:
            self.err("merge_states arity")
        a, kk = e["args"]
        n = _int_lit(kk)
        if n is None:
            self.err("merge_states offset is not a literal")
        a = _unref(a)
        if _is_path(a) and self.env.get(a["p"]) == ("nfas",):
            self.arity = "nary"
        elif a["k"] == "call" and _is_path(a["f"]) and a["f"]["p"].split("::")[-1] == "once" and len(a["args"]) == 1 and _is_path(a["args"][0], "self"):
            self.arity = "unary"
        elif a["k"] == "array" and len(a["elems"]) == 1 and _is_path(a["elems"][0], "self"):
            self.arity = "unary"
        else:
            self.err("merge_states over %s" % expr_text(a))
        self.merged = True
        self.reserve = n
        return ("tuple", ("states",), ("ends",))

    def index_kind(self, i):
        n = _int_lit(i)
        if n == 0:
            return "first"
        if n is not None:
            self.err("ends[%d]" % n)
        if _is_path(i) and self.env.get(i["p"]) == ("index",):
            return "cur"
        if i["k"] == "bin" and i["op"] == "-" and _int_lit(i["r"]) == 1:
            l = i["l"]
            if _is_path(l) and self.env.get(l["p"]) == ("index",):
                return "prev"
            if l["k"] == "mcall" and l["m"] == "len" and self.val(l["recv"]) == ("ends",):
                return "last"
        self.err("ends[%s]" % expr_text(i))

    def pair_roles(self, kind):
        if self.arity == "unary":
            if kind in ("first", "last"):
                return ("S", "T")
            self.err("loop over the ends of a unary merge")
        return {"first": ("S0", "T0"), "last": ("Sn", "Tn"), "cur": ("S", "T"), "prev": ("Sp", "Tp"), "each": ("S", "T")}[kind]

    def bind(self, pat, v):
        k = pat["k"]
        if k == "wild":
            return
        if k == "ident":
            self.env[pat["name"]] = v
            return
        if k == "ref":
            return self.bind(pat["pat"], v)
        if k == "tuple":
            if v[0] == "pair":
                s, t = self.pair_roles(v[1])
                v = ("tuple", ("role", s), ("role", t))
            if v[0] != "tuple" or len(v) - 1 != len(pat["elems"]):
                self.err("tuple pattern %s" % pat_text(pat))
            for p, x in zip(pat["elems"], v[1:]):
                self.bind(p, x)
            return
        self.err("pattern %s" % pat_text(pat))

    def role(self, e):
        v = self.val(e)
        if v[0] != "role":
            self.err("%s is not a state id" % expr_text(e))
        return v[1]

    # -- statements
    def run(self):
        body = self.item["body"]["stmts"]
        res = self.stmts(body, "once", top=True)
        if self.result is None:
            self.err("no result expression")
        for uid, f in self.fresh.items():
            if (f["eps"] or f["bytes"]) and not f["placed"]:
                self.err("a locally built state with edges is never inserted into the state map")
        return res

    def stmts(self, body, scope, top=False):
        for i, st in enumerate(body):
            last = top and i == len(body) - 1
            if st["k"] == "let":
                if st.get("init") is None:
                    self.err("let without initialiser")
                self.bind(st["pat"], self.val(st["init"]))
            elif st["k"] == "expr":
                if last and not st["semi"]:
                    self.finish(st["e"])
                else:
                    self.stmt_expr(st["e"], scope)
            else:
                self.err("statement kind %s" % st["k"])

    def finish(self, e):
        if _is_path(e, "self"):
            if not self.self_taking:
                self.err("returns self in a constructor")
            if self.merged:
                self.err("returns self after merge_states")
            self.arity = "unary"
            self.result = ("S", "T")
            return
        if e["k"] == "struct" and e["path"] in ("Self", "NFA"):
            f = {x["name"]: x["e"] for x in e["fields"]}
            if set(f) != {"start", "stop", "states"} or e.get("rest"):
                self.err("result literal fields %s" % sorted(f))
            st = self.val(f["states"])
            if st not in (("states",), ("newmap",), ("selfstates",)):
                self.err("result states %s" % expr_text(f["states"]))
            self.result = (self.role(f["start"]), self.role(f["stop"]))
            return
        self.err("result expression %s" % expr_text(e))

    def stmt_expr(self, e, scope):
        k = e["k"]
        if k == "if":
            c = e["cond"]
            if c["k"] == "mcall" and c["m"] == "is_empty" and self.val(c["recv"]) == ("ends",):
                th = e["then"]["stmts"]
                if e.get("else") or len(th) != 1 or th[0]["k"] != "expr" or th[0]["e"]["k"] != "return":
                    self.err("shape of the `ends.is_empty()` early return")
                v = self.val(th[0]["e"]["e"])
                if v[0] != "leafcall" or scope != "once":
                    self.err("early return value %s" % expr_text(th[0]["e"]["e"]))
                self.on_empty = v[1]
                return
            if c["k"] == "letcond" and c["pat"]["k"] == "tstruct" and c["pat"]["path"] == "Some" and len(c["pat"]["elems"]) == 1:
                g = c["e"]
                if g["k"] == "mcall" and g["m"] == "get_mut" and len(g["args"]) == 1 and self.val(g["recv"]) in (("states",), ("selfstates",)):
                    if e.get("else"):
                        self.err("else branch of `if let Some(..) = states.get_mut(..)`")
                    r = self.role(g["args"][0])
                    saved = dict(self.env)
                    self.bind(c["pat"]["elems"][0], ("stateref", r))
                    self.stmts(e["then"]["stmts"], scope)
                    self.env = saved
                    return
            if c["k"] == "call" and _is_path(c["f"]) and self.env.get(c["f"]["p"]) == ("pred",) and scope == "bytes":
                if len(c["args"]) != 1 or self.val(c["args"][0]) != ("symbol",) or e.get("else"):
                    self.err("predicate guard %s" % expr_text(c))
                self.stmts(e["then"]["stmts"], "bytes-guarded")
                return
            self.err("if %s" % expr_text(c))
        if k == "for":
            if scope != "once":
                self.err("nested loop")
            it = _unref(e["iter"])
            while it["k"] == "mcall" and it["m"] in ("iter", "into_iter", "copied", "cloned") and not it["args"]:
                it = _unref(it["recv"])
            saved = dict(self.env)
            if it["k"] == "range":
                hi = it["hi"]
                if hi is not None and hi["k"] == "mcall" and hi["m"] == "len" and self.val(hi["recv"]) == ("ends",) and not it["incl"]:
                    if _int_lit(it["lo"]) != 1:
                        self.err("loop over adjacent operands must start at 1, found %s" % expr_text(it["lo"]))
                    if self.arity != "nary":
                        self.err("adjacent loop in a unary combinator")
                    self.bind(e["pat"], ("index",))
                    self.stmts(e["body"]["stmts"], "adjacent")
                elif ("pred",) in self.env.values() and _int_lit(it["lo"]) == 0 and it["incl"] and hi is not None and \
                        ((_is_path(hi) and hi["p"] in ("Symbol::MAX", "u8::MAX")) or _int_lit(hi) == 255):
                    self.bind(e["pat"], ("symbol",))
                    self.byte_loop_ok = True
                    self.stmts(e["body"]["stmts"], "bytes")
                else:
                    self.err("loop range %s" % expr_text(it))
            elif _is_path(it) and self.env.get(it["p"]) == ("ends",):
                if self.arity != "nary":
                    self.err("loop over ends in a unary combinator")
                self.bind(e["pat"], ("pair", "each"))
                self.stmts(e["body"]["stmts"], "each")
            else:
                self.err("loop over %s" % expr_text(it))
            self.env = saved
            return
        if k == "mcall" and e["m"] == "insert":
            recv = self.val(e["recv"])
            if recv[0] == "epsilons" and len(e["args"]) == 1:
                holder = recv[1]
                to = self.role(e["args"][0])
                if scope not in ("once", "each", "adjacent"):
                    self.err("ε-edge inserted in scope %s" % scope)
                self.sites.append(e.get("line", 0))
                if holder[0] == "stateref":
                    self.eps.add((scope, holder[1], to))
                else:
                    f = self.fresh[holder[1]]
                    if f["placed"]:
                        self.err("edge added to a state after it was inserted")
                    f["eps"].append((scope, to))
                return
            if recv[0] == "edges" and len(e["args"]) == 2:
                holder = recv[1]
                if scope != "bytes-guarded" or self.val(e["args"][0]) != ("symbol",) or holder[0] != "fresh":
                    self.err("byte edge %s outside `for symbol in 0..=MAX { if pred(symbol) {..} }`" % expr_text(e))
                self.fresh[holder[1]]["bytes"].append(self.role(e["args"][1]))
                return
            if recv in (("states",), ("newmap",)) and len(e["args"]) == 2:
                if scope != "once":
                    self.err("state inserted inside a loop")
                r = self.role(e["args"][0])
                v = self.val(e["args"][1])
                if v[0] != "fresh":
                    self.err("inserted state %s" % expr_text(e["args"][1]))
                if not r.startswith("N"):
                    self.err("state inserted under an operand's id %s" % r)
                if r in self.new_states:
                    self.err("state %s inserted twice" % r)
                f = self.fresh[v[1]]
                if f["placed"]:
                    self.err("local state inserted twice")
                f["placed"] = True
                self.new_states.add(r)
                for (sc, to) in f["eps"]:
                    self.eps.add((sc, r, to))
                for to in f["bytes"]:
                    self.byte_edges.add((r, to))
                return
            self.err("insert %s" % expr_text(e))
        if k == "return":
            self.err("unexpected return")
        self.err("statement %s" % expr_text(e))

    def template(self):
        self.run()
        if self.arity is None:
            self.arity = "leaf"
        start, stop = self.result
        roles = {start, stop}
        for (_, a, b) in self.eps:
            roles |= {a, b}
        for (a, b) in self.byte_edges:
            roles |= {a, b}
        for r in roles:
            if r.startswith("N"):
                k = int(r[1:])
                if r not in self.new_states:
                    self.err("state id %s is used but no state is inserted under it" % r)
                if self.arity != "leaf" and k >= self.reserve:
                    self.err("fresh id %s is not below the merge offset %d (collides with an operand state)" % (r, self.reserve))
            elif self.arity == "leaf":
                self.err("operand role %s in a constructor" % r)
        if self.arity == "leaf" and sorted(self.new_states) != ["N%d" % i for i in range(len(self.new_states))]:
            self.err("constructor state ids are not dense: %s" % sorted(self.new_states))
        if self.arity == "nary" and self.on_empty is None:
            self.err("n-ary combinator indexes `ends` without handling the empty operand list")
        if self.arity == "unary" and self.merged is False and not self.self_taking:
            self.err("unary combinator without self")
        return Template(self.name, self.arity, self.reserve, self.new_states, self.eps, start, stop, self.on_empty, self.byte_edges,
                        sites=["%s:%d" % (AUTOMATA, l) for l in sorted(set(self.sites))], extra={"eps_inserts": len(self.sites)})


def _read_from_str(item):
    """Loop-invariant check of `impl From<&str> for NFA`: before iteration `index` state_id == NFAStateId(index) and `state` is a fresh
    edge-less state not yet inserted; the iteration inserts (NFAStateId(index) -> {symbol -> NFAStateId(index+1)}) and re-establishes
    the invariant for index+1; after the loop the pending state is inserted; result (NFAStateId(0), state_id)."""
    name = "from"

    def err(what):
        raise WiringError("from: " + what)
    inputs = [p for p in item["sig"]["inputs"] if p["name"] != "self"]
    if len(inputs) != 1:
        err("signature")
    sparam = inputs[0]["pat"]["name"]
    env = {}
    inserted = []      # (key id, state value)
    loop_seen = False

    def idval(e, idx=None):
        e = _unref(e)
        if _is_path(e) and e["p"] in env and env[e["p"]][0] == "id":
            return env[e["p"]]
        if e["k"] == "call" and _is_path(e["f"], "NFAStateId") and len(e["args"]) == 1:
            a = e["args"][0]
            n = _int_lit(a)
            if n is not None:
                return ("id", "const", n)
            if idx is not None:
                if _is_path(a, idx):
                    return ("id", "index", 0)
                if a["k"] == "bin" and a["op"] == "+":
                    for x, y in ((a["l"], a["r"]), (a["r"], a["l"])):
                        if _is_path(x, idx) and _int_lit(y) is not None:
                            return ("id", "index", _int_lit(y))
        err("state id expression %s" % expr_text(e))

    def stateval(e, idx):
        e = _unref(e)
        if e["k"] == "call" and _is_path(e["f"], "NFAState::new"):
            return ["state", []]
        if _is_path(e) and e["p"] in env and env[e["p"]][0] == "state":
            return env[e["p"]]
        if e["k"] == "call" and _is_path(e["f"]) and e["f"]["p"].split("::")[-1] == "replace" and len(e["args"]) == 2:
            tgt = _unref(e["args"][0])
            if not (_is_path(tgt) and tgt["p"] in env and env[tgt["p"]][0] == "state"):
                err("mem::replace target")
            old = env[tgt["p"]]
            env[tgt["p"]] = stateval(e["args"][1], idx)
            return old
        err("state expression %s" % expr_text(e))

    def run(stmts, idx, sym):
        nonlocal loop_seen
        for st in stmts:
            if st["k"] == "let":
                p = st["pat"]
                if p["k"] != "ident":
                    err("let pattern")
                init = st["init"]
                i0 = _unref(init)
                if i0["k"] == "call" and _is_path(i0["f"]) and i0["f"]["p"] in ("BTreeMap::new", "Default::default"):
                    env[p["name"]] = ("map",)
                elif i0["k"] == "call" and _is_path(i0["f"], "NFAState::new") or (i0["k"] == "call" and _is_path(i0["f"]) and i0["f"]["p"].endswith("replace")):
                    env[p["name"]] = stateval(i0, idx)
                else:
                    env[p["name"]] = idval(i0, idx)
                continue
            if st["k"] != "expr":
                err("statement kind %s" % st["k"])
            e = st["e"]
            if e["k"] == "for":
                if idx is not None or loop_seen:
                    err("nested or repeated loop")
                it = e["iter"]
                ok = it["k"] == "mcall" and it["m"] == "enumerate" and it["recv"]["k"] == "mcall" and it["recv"]["m"] == "bytes" and \
                    _is_path(_unref(it["recv"]["recv"]), sparam)
                pt = e["pat"]
                if not ok or pt["k"] != "tuple" or len(pt["elems"]) != 2 or any(x["k"] != "ident" for x in pt["elems"]):
                    err("loop header %s" % expr_text(it))
                loop_seen = True
                # invariant at loop entry
                assigned = set()

                def visit(n):
                    if n.get("k") == "assign" and _is_path(n["l"]):
                        assigned.add(n["l"]["p"])
                ordered_walk(e["body"], visit)
                # loop-carried ids: those assigned in the body; they must hold NFAStateId(0) == NFAStateId(index) at entry
                sid = [k for k, v in env.items() if v[0] == "id" and k in assigned]
                if any(env[k][1:] != ("const", 0) for k in sid):
                    err("a loop-carried state id does not start at NFAStateId(0)")
                pre = {k: v for k, v in env.items()}
                pend = [k for k, v in env.items() if v[0] == "state"]
                if len(pend) != 1 or env[pend[0]][1]:
                    err("exactly one pending edge-less state is expected before the loop")
                if inserted:
                    err("states inserted before the loop")
                # symbolic iteration: ids that are const 0 before the loop and reassigned in the loop are `index + 0`
                for k in sid:
                    env[k] = ("id", "index", 0)
                n0 = len(inserted)
                run(e["body"]["stmts"], pt["elems"][0]["name"], pt["elems"][1]["name"])
                new = inserted[n0:]
                if len(new) != 1:
                    err("one state must be inserted per iteration, found %d" % len(new))
                key, stv = new[0]
                if key != ("id", "index", 0):
                    err("the state inserted in iteration i is keyed %s, expected NFAStateId(i)" % (key,))
                if stv[1] != [("sym", ("id", "index", 1))]:
                    err("the state inserted in iteration i must have exactly the edge symbol_i -> NFAStateId(i+1), found %s" % (stv[1],))
                pend2 = [k for k, v in env.items() if v[0] == "state" and k in pre]
                if pend2 != pend or env[pend[0]][1]:
                    err("the pending state after an iteration must be a fresh edge-less state")
                for k in sid:
                    v = env[k]
                    if v == ("id", "index", 0):
                        env[k] = ("id", "const", 0)          # never reassigned: stays NFAStateId(0)
                    elif v == ("id", "index", 1):
                        env[k] = ("id", "loopvar")           # == NFAStateId(#iterations) after the loop
                    else:
                        err("%s after an iteration is %s" % (k, v))
                for k in list(env):
                    if k not in pre:
                        del env[k]
                continue
            if e["k"] == "assign" and _is_path(e["l"]) and e["l"]["p"] in env:
                old = env[e["l"]["p"]]
                if old[0] == "id":
                    env[e["l"]["p"]] = idval(e["r"], idx)
                elif old[0] == "state":
                    env[e["l"]["p"]] = stateval(e["r"], idx)
                else:
                    err("assignment %s" % expr_text(e))
                continue
            if e["k"] == "mcall" and e["m"] == "insert":
                r = _unref(e["recv"])
                if r["k"] == "field" and r["name"] == "edges" and _is_path(r["e"]) and env.get(r["e"]["p"], ("?",))[0] == "state":
                    if idx is None or not _is_path(_unref(e["args"][0]), sym):
                        err("byte edge outside the loop / not on the loop symbol")
                    env[r["e"]["p"]][1].append(("sym", idval(e["args"][1], idx)))
                    continue
                if _is_path(r) and env.get(r["p"]) == ("map",):
                    key = idval(e["args"][0], idx)
                    a1 = _unref(e["args"][1])
                    stv = stateval(a1, idx)
                    if _is_path(a1):
                        env[a1["p"]] = ("moved",)
                    inserted.append((key, stv))
                    continue
            err("statement %s" % expr_text(e))

    body = item["body"]["stmts"]
    if not body or body[-1]["k"] != "expr" or body[-1]["semi"]:
        err("no result expression")
    run(body[:-1], None, None)
    if not loop_seen:
        err("no loop over string.bytes().enumerate()")
    res = body[-1]["e"]
    if res["k"] != "struct" or res["path"] not in ("Self", "NFA"):
        err("result expression")
    f = {x["name"]: x["e"] for x in res["fields"]}
    if set(f) != {"start", "stop", "states"}:
        err("result fields")
    if idval(f["start"]) != ("id", "const", 0):
        err("start is not NFAStateId(0)")
    if idval(f["stop"]) != ("id", "loopvar"):
        err("stop is not the id reached after the last byte")
    if not (_is_path(f["states"]) and env.get(f["states"]["p"]) == ("map",)):
        err("result states")
    tail = [x for x in inserted if x[0] == ("id", "loopvar")]
    if len(tail) != 1 or tail[0][1][1]:
        err("the last (stop) state must be inserted once, without edges, after the loop")
    return Template(name, "leaf", 0, ("chain",), (), "C0", "Cn", None, (("Ci", "Ci+1"),))


def _read_merge_states(item):
    """facts about merge_states; returns (facts, problems)"""
    facts = {}
    problems = []

    def need(cond, what):
        facts[what] = bool(cond)
        if not cond:
            problems.append(what)
        return cond
    inputs = item["sig"]["inputs"]
    if len(inputs) != 2 or inputs[1]["pat"].get("k") != "ident":
        return facts, ["signature (nfas, mut offset)"]
    nfas = inputs[0]["pat"]["name"]
    off = inputs[1]["pat"]["name"]
    body = item["body"]["stmts"]

    def is_shift(e, var):
        e = _unref(e)
        if e.get("k") != "call" or not _is_path(e["f"], "NFAStateId") or len(e["args"]) != 1:
            return False
        a = e["args"][0]
        if a.get("k") != "bin" or a["op"] != "+":
            return False
        for x, y in ((a["l"], a["r"]), (a["r"], a["l"])):
            if _is_path(x, off) and y.get("k") == "field" and y["name"] == "0" and _is_path(y["e"], var):
                return True
        return False
    def addends(e):
        if e.get("k") == "bin" and e["op"] == "+":
            return addends(e["l"]) + addends(e["r"])
        return [e]
    outer = [st["e"] for st in body if st["k"] == "expr" and st["e"]["k"] == "for"]
    if not need(len(outer) == 1, "one loop over the operands"):
        return facts, problems
    outer = outer[0]
    need(_is_path(_unref(outer["iter"]), nfas), "the loop iterates the `nfas` argument in order")
    pat = outer["pat"]
    binds = {}
    if pat["k"] == "struct" and pat["path"] in ("NFA", "Self"):
        for f in pat["fields"]:
            if f["pat"]["k"] == "ident":
                binds[f["name"]] = f["pat"]["name"]
    if not need(set(binds) == {"start", "stop", "states"}, "operands are destructured into start/stop/states"):
        return facts, problems
    # result tuple (states_out, ends_out)
    res = body[-1]["e"] if body[-1]["k"] == "expr" and not body[-1]["semi"] else None
    if not need(res is not None and res["k"] == "tuple" and len(res["elems"]) == 2 and all(_is_path(x) for x in res["elems"]), "result is (states_out, ends_out)"):
        return facts, problems
    states_out, ends_out = res["elems"][0]["p"], res["elems"][1]["p"]
    cur = {"start": binds["start"], "stop": binds["stop"]}
    shifted = {}
    pushed = None
    inner = None
    max_id = None
    max_init_ok = False
    offset_updates = []
    stm = outer["body"]["stmts"]
    for i, st in enumerate(stm):
        if st["k"] == "let" and st["pat"]["k"] == "ident" and st["init"] is not None:
            nm = st["pat"]["name"]
            for role in ("start", "stop"):
                if is_shift(st["init"], cur[role]):
                    shifted[nm] = role
            if _int_lit(st["init"]) is not None and st["pat"].get("mut"):
                if max_id is None:
                    max_id = nm
                    max_init_ok = _int_lit(st["init"]) == 0 and inner is None
        elif st["k"] == "expr":
            e = st["e"]
            if e["k"] == "mcall" and e["m"] == "push" and _is_path(e["recv"], ends_out) and len(e["args"]) == 1 and e["args"][0]["k"] == "tuple":
                el = e["args"][0]["elems"]
                pushed = tuple(shifted.get(x["p"]) if _is_path(x) else None for x in el)
            elif e["k"] == "for":
                inner = (i, e)
            elif e["k"] == "bin" and e["op"] == "+=" and _is_path(e["l"], off):
                offset_updates.append((i, addends(e["r"])))
            elif e["k"] == "assign" and _is_path(e["l"], off):
                terms = addends(e["r"])
                mine = [x for x in terms if _is_path(x, off)]
                if len(mine) == 1:
                    offset_updates.append((i, [x for x in terms if x is not mine[0]]))
                else:
                    offset_updates.append((i, None))
            elif e["k"] in ("continue", "break", "return"):
                problems.append("early exit from the operand loop")
    need(pushed == ("start", "stop"), "ends_out receives (offset+start, offset+stop) of every operand, in order")
    if not need(inner is not None and _is_path(_unref(inner[1]["iter"]), binds["states"]), "inner loop over the operand's states"):
        return facts, problems
    ii, inner = inner
    ip = inner["pat"]
    if not need(ip["k"] == "tuple" and len(ip["elems"]) == 2 and all(x["k"] == "ident" for x in ip["elems"]), "inner loop pattern (id, state)"):
        return facts, problems
    idv, stv = ip["elems"][0]["name"], ip["elems"][1]["name"]
    names = {"edges": None, "epsilons": None, "tag": None}
    new_id = None
    max_upd = False
    edges_ok = eps_ok = insert_ok = False
    orig_id = idv

    def shift_closure(c, tuple_second):
        c = _unref(c)
        if c.get("k") != "closure" or len(c["params"]) != 1:
            return False
        p = c["params"][0]
        if tuple_second:
            if p["k"] != "tuple" or len(p["elems"]) != 2 or any(x["k"] != "ident" for x in p["elems"]):
                return False
            kk, vv = p["elems"][0]["name"], p["elems"][1]["name"]
            b = c["body"]
            return b["k"] == "tuple" and len(b["elems"]) == 2 and _is_path(b["elems"][0], kk) and is_shift(b["elems"][1], vv)
        if p["k"] != "ident":
            return False
        return is_shift(c["body"], p["name"])

    def mapped(e, var, tuple_second):
        # var.into_iter().map(closure).collect()
        if e.get("k") != "mcall" or e["m"] != "collect":
            return False
        m = e["recv"]
        if m.get("k") != "mcall" or m["m"] != "map" or len(m["args"]) != 1:
            return False
        s = m["recv"]
        if s.get("k") != "mcall" or s["m"] not in ("into_iter", "iter") or not _is_path(s["recv"], var):
            return False
        return shift_closure(m["args"][0], tuple_second)
    for st in inner["body"]["stmts"]:
        if st["k"] == "let":
            p = st["pat"]
            init = st["init"]
            if p["k"] == "struct" and p["path"] == "NFAState" and _is_path(init, stv):
                for f in p["fields"]:
                    if f["pat"]["k"] == "ident" and f["name"] in names:
                        names[f["name"]] = f["pat"]["name"]
            elif p["k"] == "ident" and is_shift(init, orig_id) and new_id is None:
                new_id = p["name"]
                if new_id == orig_id:
                    orig_id = None       # shadowed: later uses of the name mean the shifted id
            elif p["k"] == "ident" and names["edges"] and mapped(init, names["edges"], True):
                names["edges"] = p["name"]
                edges_ok = True
            elif p["k"] == "ident" and names["epsilons"] and mapped(init, names["epsilons"], False):
                names["epsilons"] = p["name"]
                eps_ok = True
        elif st["k"] == "expr":
            e = st["e"]
            if e["k"] == "assign" and max_id and _is_path(e["l"], max_id):
                r = e["r"]
                argsr = r.get("args", []) if r.get("k") == "call" else ([r["recv"]] + r["args"] if r.get("k") == "mcall" and r["m"] == "max" else [])
                if (r.get("k") == "call" and _is_path(r["f"]) and r["f"]["p"].split("::")[-1] == "max") or (r.get("k") == "mcall" and r["m"] == "max"):
                    a = [x for x in argsr]
                    has_max = any(_is_path(x, max_id) for x in a)
                    has_id = any(x.get("k") == "field" and x["name"] == "0" and _is_path(x["e"], idv) for x in a)
                    max_upd = has_max and has_id and new_id is None
            elif e["k"] == "mcall" and e["m"] == "insert" and _is_path(e["recv"], states_out) and len(e["args"]) == 2:
                k0, v0 = e["args"]
                if _is_path(k0, new_id) and v0["k"] == "struct" and v0["path"] == "NFAState":
                    f = {x["name"]: x["e"] for x in v0["fields"]}
                    insert_ok = set(f) == {"edges", "epsilons", "tag"} and _is_path(f["edges"], names["edges"]) and \
                        _is_path(f["epsilons"], names["epsilons"]) and _is_path(f["tag"], names["tag"]) and edges_ok and eps_ok
    need(max_id is not None and max_init_ok, "max_id starts at 0 for every operand (before its states are visited)")
    need(max_upd, "max_id = max(max_id, id.0) over the operand's original ids")
    need(new_id is not None, "state ids are shifted by the offset")
    need(edges_ok, "edge targets are shifted by the offset")
    need(eps_ok, "ε targets are shifted by the offset")
    need(insert_ok, "shifted states (edges, epsilons, tag) are inserted into states_out under the shifted id")
    good = False
    if len(offset_updates) == 1 and offset_updates[0][0] > ii:
        r = offset_updates[0][1]
        if r is not None and len(r) == 2:
            for x, y in ((r[0], r[1]), (r[1], r[0])):
                if _is_path(x, max_id) and _int_lit(y) is not None and _int_lit(y) >= 1:
                    good = True
    need(good, "offset advances by max_id + 1 after each operand (strictly increasing, disjoint id ranges)")
    return facts, problems


class Wiring:
    def __init__(self):
        self.templates = {}
        self.problems = []
        self.merge = {"facts": {}, "problems": []}
        self.delegations = {}
        self.lines = {}

    def model(self):
        m = {}
        for c in COMBINATORS:
            t = self.templates.get(c)
            if t is None:
                ref = R.THOMPSON[c]
                t = ref["fresh"] or ref["inplace"]
            m[c] = t
        return m


_WIRING_CACHE = {}


def read_wiring(src):
    key = id(src)
    if key in _WIRING_CACHE and _WIRING_CACHE[key][0] is src:
        return _WIRING_CACHE[key][1]
    w = Wiring()
    fns = {}
    for (f, s, tr, it, t) in src.fns:
        if t or f != AUTOMATA or base_name(s) != "NFA":
            continue
        fns.setdefault(it["name"], []).append((s, tr, it))
    for c in COMBINATORS:
        cands = fns.get(c, [])
        if c == "from":
            cands = [x for x in cands if x[1] and x[1].startswith("From<&") and "str" in x[1]]
        else:
            cands = [x for x in cands if x[1] is None]
        if len(cands) != 1:
            w.problems.append((c, "%d definitions of NFA::%s found in %s" % (len(cands), c, AUTOMATA)))
            continue
        s, tr, it = cands[0]
        w.lines[c] = it.get("line") or it["body"].get("line")
        try:
            if c == "from":
                w.templates[c] = _read_from_str(it)
            else:
                w.templates[c] = _RoleEval(c, it, s).template()
        except WiringError as ex:
            w.problems.append((c, str(ex)))
        except (KeyError, IndexError, TypeError) as ex:
            w.problems.append((c, "%s: construct not understood (%s: %s)" % (c, type(ex).__name__, ex)))
    ms = [x for x in fns.get("merge_states", []) if x[1] is None]
    if len(ms) != 1:
        w.merge["problems"].append("%d definitions of merge_states" % len(ms))
    else:
        try:
            w.merge["facts"], w.merge["problems"] = _read_merge_states(ms[0][2])
        except (KeyError, IndexError, TypeError, AttributeError) as ex:
            w.merge["problems"].append("construct not understood (%s: %s)" % (type(ex).__name__, ex))
        w.lines["merge_states"] = ms[0][2]["body"].get("line")
    for op, trait in (("add", "Add"), ("bitor", "BitOr")):
        cands = [x for x in fns.get(op, []) if x[1] and re.search(r"\b%s\b" % trait, x[1])]
        if len(cands) != 1:
            continue
        body = cands[0][2]["body"]["stmts"]
        if len(body) == 1 and body[0]["k"] == "expr" and not body[0]["semi"]:
            e = body[0]["e"]
            c = comb_of_node(e)
            if c in ("sequence", "choice") and len(e["args"]) == 1 and e["args"][0]["k"] == "array":
                el = e["args"][0]["elems"]
                params = [p["pat"]["name"] for p in cands[0][2]["sig"]["inputs"] if p["name"] != "self"]
                if len(el) == 2 and _is_path(el[0], "self") and len(params) == 1 and _is_path(el[1], params[0]):
                    w.delegations[op] = c
    _WIRING_CACHE.clear()
    _WIRING_CACHE[key] = (src, w)
    return w


# ================================================================================================
# grammars
# ================================================================================================
Registration = namedtuple("Registration", "index name impl mapped text")


class Grammar:
    def __init__(self, name, kind, impl=None, rx=None, site=None, problem=None, wiring=None):
        self.name = name
        self.kind = kind
        self.impl = impl
        self.rx = rx
        self.site = site
        self.problem = problem
        self._wiring = wiring
        self._cache = {}

    def __repr__(self):
        return "<Grammar %s %s>" % (self.name, self.kind)

    def _dfa(self, which):
        if which not in self._cache:
            if self.rx is None:
                raise Unfoldable("grammar %s has no expression (%s)" % (self.name, self.problem or self.kind))
            if which == "regex":
                self._cache[which] = R.compile_rx(self.rx)
            else:
                self._cache[which] = R.compile_rx(self.rx, self._wiring.model())
        return self._cache[which]

    @property
    def regex_dfa(self):
        return self._dfa("regex")

    @property
    def asbuilt_dfa(self):
        return self._dfa("asbuilt")

    def _q(self, key, fn, which="asbuilt"):
        k = (key, which)
        if k not in self._cache:
            self._cache[k] = fn(self._dfa(which))
        return self._cache[k]

    minlen = property(lambda s: s._q("minlen", R.minlen))
    maxlen = property(lambda s: s._q("maxlen", R.maxlen))
    prefix = property(lambda s: s._q("prefix", R.common_prefix))
    suffix = property(lambda s: s._q("suffix", R.common_suffix))
    accepts_empty = property(lambda s: s._q("eps", R.accepts_empty))
    minlen_regex = property(lambda s: s._q("minlen", R.minlen, "regex"))
    maxlen_regex = property(lambda s: s._q("maxlen", R.maxlen, "regex"))
    prefix_regex = property(lambda s: s._q("prefix", R.common_prefix, "regex"))
    suffix_regex = property(lambda s: s._q("suffix", R.common_suffix, "regex"))

    @property
    def table(self):
        """[(bytes, tag text)] when the grammar is a choice of tagged literals (basic_events_nfa)"""
        if "table" not in self._cache:
            rows = None
            rx = self.rx
            while rx is not None and rx.op == "tagmap":
                rx = rx.args[0]
            if rx is not None and rx.op == "choice":
                rows = []
                for a in rx.args:
                    if a.op == "tag" and a.args[0].op == "lit":
                        rows.append((bytes(a.args[0].data), value_text(a.data)))
                    else:
                        rows = None
                        break
            self._cache["table"] = rows
        return self._cache["table"]


def _instance_name(v):
    if not isinstance(v, StructVal):
        return value_text(v)
    if not v.fields:
        return v.name
    parts = []
    for k in sorted(v.fields):
        x = v.fields[k]
        parts.append(x.text().split("::")[-1] if isinstance(x, Sym) else value_text(x))
    return "%s(%s)" % (v.name, ",".join(parts))


class _Extraction:
    def __init__(self, src):
        self.src = src
        self.wiring = read_wiring(src)
        self.interp = Interp(src)
        self.grammars = {}
        self.regs = {"event": [], "command": []}
        self.statics_of = {}
        self.problems = []
        self.matcher_impls = []
        self.run()

    def matcher_fn(self, struct):
        c = [x for x in self.interp.impl_fns.get((struct, "matcher"), []) if x[2] and base_name(x[2]) == "Matcher"]
        return c[0] if len(c) == 1 else None

    def eval_instance(self, inst):
        name = _instance_name(inst)
        if name in self.grammars:
            return self.grammars[name]
        c = self.matcher_fn(inst.name)
        if c is None:
            g = Grammar(name, "parsed", inst.name, problem="no unique `impl Matcher for %s`" % inst.name, wiring=self.wiring)
        else:
            f, s, tr, it = c
            site = "%s:%d" % (f, it["body"].get("line", 0))
            try:
                v = self.interp.call_item(f, s, it, [], self_val=inst)
                if not isinstance(v, EitherVal) or not isinstance(v.value, Rx):
                    raise Unfoldable("matcher() of %s does not evaluate to Either<NFA, NFA> (%s)" % (name, value_text(v)))
                g = Grammar(name, "parsed" if v.side == "Left" else "table", inst.name, v.value, site, wiring=self.wiring)
            except Unfoldable as ex:
                g = Grammar(name, "parsed", inst.name, None, site, problem=str(ex), wiring=self.wiring)
            except RecursionError:
                g = Grammar(name, "parsed", inst.name, None, site, problem="recursion limit", wiring=self.wiring)
            except (KeyError, IndexError, TypeError, AttributeError, ValueError, OverflowError) as ex:
                # a construct the evaluator mishandles must surface as "not folded" (callers anchor), never as a crash of the check
                g = Grammar(name, "parsed", inst.name, None, site, problem="construct not understood (%s: %s)" % (type(ex).__name__, ex), wiring=self.wiring)
        self.grammars[name] = g
        return g

    def decoder_static(self, decoder):
        """name of the automaton static that <decoder>::new() clones"""
        c = [x for x in self.interp.impl_fns.get((decoder, "new"), []) if x[2] is None]
        if len(c) != 1:
            return None
        f, s, tr, it = c[0]
        names = []

        def visit(n):
            if n.get("k") == "path" and (f, n["p"]) in self.interp.statics and n["p"] not in names:
                names.append(n["p"])
        ordered_walk(it["body"], visit)
        return (f, names[0]) if len(names) == 1 else None

    def run(self):
        src = self.src
        it = self.interp
        # 1. impl Matcher for X
        for (f, im, t) in src.impls:
            if t or base_name(im.get("trait")) != "Matcher":
                continue
            self.matcher_impls.append((f, im))
        # 2. the two decoders
        for which, dec in (("event", "TTYEventDecoder"), ("command", "TTYCommandDecoder")):
            st = self.decoder_static(dec)
            if st is None:
                self.problems.append("%s::new does not reference exactly one automaton static" % dec)
                continue
            self.statics_of[which] = st
            try:
                v = it.static_value(*st)
            except Unfoldable as ex:
                self.problems.append("static %s: %s" % (st[1], ex))
                continue
            except (KeyError, IndexError, TypeError, AttributeError, ValueError, OverflowError, RecursionError) as ex:
                self.problems.append("static %s: construct not understood (%s: %s)" % (st[1], type(ex).__name__, ex))
                continue
            try:
                inner = v.fields["inner"] if isinstance(v, StructVal) and "inner" in v.fields else v
                comp = inner.fields["automata"]
                ms = inner.fields["matchers"]
                assert isinstance(comp, Compiled) and isinstance(ms, list)
            except (AttributeError, KeyError, AssertionError):
                self.problems.append("static %s does not evaluate to MatcherAutomata{automata: compiled NFA, matchers}" % st[1])
                continue
            init_txt = []
            arr = []

            def visit(n):
                if n.get("k") == "call" and _is_path(n["f"]) and n["f"]["p"].endswith("MatcherAutomata::new") and n["args"] and n["args"][0]["k"] == "array":
                    arr.extend(n["args"][0]["elems"])
            ordered_walk(it.statics[st]["expr"], visit)
            for i, m in enumerate(ms):
                mapped = False
                base = m
                while isinstance(base, StructVal) and base.name == "MappedMatcher" and "matcher" in base.fields:
                    mapped = True
                    base = base.fields["matcher"]
                if not isinstance(base, StructVal):
                    self.problems.append("registration %d of %s is not a matcher struct" % (i, st[1]))
                    continue
                g = self.eval_instance(base)
                txt = expr_text(arr[i]) if i < len(arr) else ""
                self.regs[which].append(Registration(i, g.name, base.name, mapped, txt))
            self.grammars[st[1]] = Grammar(st[1], "union", None, comp.rx, "%s:%d" % (st[0], it.statics[st].get("line", 0)), wiring=self.wiring)
        # 3. every impl: unit structs directly; field structs must have been seen through a registration
        for (f, im) in self.matcher_impls:
            ty = im["self_ty"]
            b = base_name(ty)
            if "<" in ty:
                self.grammars.setdefault(b, Grammar(b, "generic", b, None, "%s:%d" % (f, im.get("line", 0) or 0), problem="generic over the wrapped matcher", wiring=self.wiring))
                continue
            sdef = it.struct_names.get(b)
            if sdef is not None and not sdef["fields"]:
                self.eval_instance(StructVal(b, {}))
            elif not any(g.impl == b for g in self.grammars.values()):
                self.grammars[b] = Grammar(b, "parsed", b, None, None, problem="struct %s has fields and no constructed instance was found" % b, wiring=self.wiring)
        # 4. other compiled statics (helpers such as UTF8DFA)
        for (f, name), item in sorted(it.statics.items()):
            if f != DECODER or name in self.grammars or item.get("k") != "static":
                continue
            if "DFA" not in (item.get("ty") or ""):
                continue
            try:
                v = it.static_value(f, name)
                if isinstance(v, Compiled):
                    self.grammars[name] = Grammar(name, "helper", None, v.rx, "%s:%d" % (f, item.get("line", 0)), wiring=self.wiring)
            except Unfoldable as ex:
                self.grammars[name] = Grammar(name, "helper", None, None, "%s:%d" % (f, item.get("line", 0)), problem=str(ex), wiring=self.wiring)
            except (KeyError, IndexError, TypeError, AttributeError, ValueError, OverflowError, RecursionError) as ex:
                self.grammars[name] = Grammar(name, "helper", None, None, "%s:%d" % (f, item.get("line", 0)),
                                              problem="construct not understood (%s: %s)" % (type(ex).__name__, ex), wiring=self.wiring)


_EXTRACT_CACHE = {}


def extraction(src):
    key = id(src)
    if key not in _EXTRACT_CACHE or _EXTRACT_CACHE[key][0] is not src:
        _EXTRACT_CACHE.clear()
        _EXTRACT_CACHE[key] = (src, _Extraction(src))
    return _EXTRACT_CACHE[key][1]


def extract(src, wiring=None):
    """{name: Grammar}; grammars whose body could not be folded have rx None and .problem set (callers fail closed)"""
    return extraction(src).grammars


def registrations(src, which):
    return list(extraction(src).regs[which])


def event_matcher_names(src):
    return [r.name for r in extraction(src).regs["event"]]


def command_matcher_names(src):
    return [r.name for r in extraction(src).regs["command"]]


def union_rx(src, which):
    ex = extraction(src)
    st = ex.statics_of.get(which)
    if st is None or st[1] not in ex.grammars:
        raise Unfoldable("automaton of the %s decoder was not found: %s" % (which, "; ".join(ex.problems)))
    return ex.grammars[st[1]].rx


HEX_CLASS = R.cls(b"0123456789abcdefABCDEF")
ESC_CLASS = R.cls(b"\x1b")


def decode_entry_facts(src):
    """Facts about the `data` slice that reaches Matcher::decode of every parsed (Either::Left) matcher, keyed by the MIR body path of the
    decode impl, e.g. '<decoder::CursorPositionMatcher as decoder::Matcher>::decode':
        {'minlen': n, 'maxlen': n | None (unbounded), 'prefix': bytes, 'suffix': bytes, 'grammars': [names], 'impl': struct, 'registered': ['event', ...]}
    computed on the AS-BUILT automaton (what the decoder runs); a matcher struct constructed with several field values (UTF8Matcher modes)
    gets the facts of the union of its instances.  Grammars that could not be folded raise Unfoldable (callers fail closed)."""
    ex = extraction(src)
    by_impl = {}
    for g in ex.grammars.values():
        if g.kind == "parsed" and g.impl:
            by_impl.setdefault(g.impl, []).append(g)
    out = {}
    for impl, gs in sorted(by_impl.items()):
        for g in gs:
            if g.rx is None:
                raise Unfoldable("grammar %s: %s" % (g.name, g.problem))
        if len(gs) == 1:
            d = gs[0].asbuilt_dfa
        else:
            model = ex.wiring.model()
            u = R.NFA(2)
            u.start, u.stop = 0, 1
            for g in gs:
                a = R.build_asbuilt(g.rx, model)
                off = u.absorb(a)
                u.eps[0].add(a.start + off)
                u.eps[a.stop + off].add(1)
            d = R.minimize(R.determinize(u), keep_tags=False)
        names = sorted(g.name for g in gs)
        reg = [w for w in ("event", "command") if any(r.name in names for r in ex.regs[w])]
        mod = re.sub(r"^src/|\.rs$", "", DECODER).replace("/", "::")
        key = "<%s::%s as %s::Matcher>::decode" % (mod, impl, mod)
        out[key] = {"minlen": R.minlen(d), "maxlen": R.maxlen(d), "prefix": R.common_prefix(d), "suffix": R.common_suffix(d),
                    "grammars": names, "impl": impl, "registered": reg}
    return out


def termsize_piece_minlen(src, witness=False):
    """k such that in every word of the (as-built) TermSizeMatcher language every ESC-free factor after the first — i.e. every piece of
    data.split(ESC) with index >= 1 — has length >= k (k is the exact minimum).  With witness=True returns (k, word attaining it)."""
    g = extract(src).get("TermSizeMatcher")
    if g is None or g.rx is None:
        raise Unfoldable("TermSizeMatcher grammar not available: %s" % (g.problem if g else "no such impl"))
    k, w = R.split_piece_min_len(g.asbuilt_dfa, ESC_CLASS, skip=1)
    if k is None:
        raise Unfoldable("TermSizeMatcher words have no piece after the first ESC")
    return (k, w) if witness else k


def termcap_hex_runs_even(src):
    """(True, None) iff in every word of the (as-built) TermCapMatcher language every maximal run of ASCII hex digits inside the payload
    data[5 .. len-2] has even length (so hex_decode never sees a dangling nibble); otherwise (False, full word with an odd run)."""
    g = extract(src).get("TermCapMatcher")
    if g is None or g.rx is None:
        raise Unfoldable("TermCapMatcher grammar not available: %s" % (g.problem if g else "no such impl"))
    d = g.asbuilt_dfa
    if (R.minlen(d) or 0) < 7:
        return (False, b"")
    payload, complete = R.slice_dfa(d, 5, 2)
    w = R.run_parity_witness(payload, HEX_CLASS)
    if w is None:
        return (True, None)
    return (False, complete(w) or w)


def matcher_impl_count(src):
    return len(extraction(src).matcher_impls)


def extraction_problems(src):
    return list(extraction(src).problems)
