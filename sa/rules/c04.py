"""C04 — well-formed reports and keys decode to what they encode: table and layout clauses.

T1  key table of basic_events_nfa (folded by sa.grammar): a function, agrees with refs/xterm_keys.json on every shared byte string,
    modifier parameter m -> KeyMod::from_bits(m-1) with the bit values of KeyMod's constants read from keys.rs
T2  DecMode::from_usize / DecModeStatus::from_usize list every enumerator, compare the discriminant, discriminants = DEC numbers
T3  decoder colour tables: CUBE/GREYS = xterm levels, COLORS in ECMA-48 colour order, named-colour SGR arms index COLORS consistently,
    the 256-colour branch of sgr_color evaluated for all 256 indices
T4  keyboard_decode_key and the kitty modifier field against refs/kitty_keys.json
T5  bit layouts: MouseEventMatcher::decode (bit provenance + complete enumeration of the 7 used bits x M/m through sa.consteval) against
    refs/sgr_mouse.json; utf8_decode against RFC 3629 (bit provenance, lead/continuation classes taken from the grammar)
T6  self-delimitation: accepting states of the tagged union of the as-built event grammars that can be extended belong to the key table only
T7  field order: the n-th number of the payload reaches the documented field (MIR: order of Iterator::next calls feeding each aggregate
    field), the four report grammars equal their documented forms and the payload slice starts/ends at the numbers
T8  `rgb:` colour components of OSC colour reports (parse_color evaluated)
T9  free text carried by an event (kitty image response message, bracketed paste) = the WHOLE span between the fixed delimiters: decode evaluated
    (sa.consteval) on grammar-accepted sequences whose text holds every admissible ASCII byte and each separator byte (; , = :) 0, 1, 2, 3 times

Everything is read from mir.json / src.json of the current tree; the repository is never run.

Robustness: wherever a clause is about the *value* a small function denotes (T2 from_usize, T3 named colours and palette, T4 kitty modifiers,
T5 UTF-8 assembly and the mouse table, T8 colour components) the function is evaluated as a whole by sa.consteval.StdInterp (T5-UTF8: on symbolic
bytes, every result bit a constant or one input bit through sa.bitflow), so helper extraction, loop <-> iterator chain, if-chain <-> match, shifts <->
divisions, clamp <-> min, named constants and renamed locals do not change the verdict; the older shape readers remain as fallback / diagnostics.
T5-MOUSE-BITS follows the button value through plain copies and into crate-local helpers; T7 retries on the body with helpers inlined (prog.inlined).
T9 evaluates the decode functions as a whole (helpers, splitn / split_once-like position slicing / split_at, if <-> match, into_owned <-> to_string,
from_utf8 on a borrowed or an owned buffer are all the same value); a decode that is not evaluable is a fail-closed anchor."""
import json
import os
import re

from ..mir import call_matches
from ..flow import expr, value_variants, arg_place
from ..src import find_all, expr_text, lit_int
from ..consteval import StdInterp, Frame, Unsupported, Panic, StructV, EnumV, NONE, some, copyv, freeze, ClosureV, FnRef, LocalFn
from .. import grammar, regex, bitflow as bf

REFDIR = os.path.join(os.path.dirname(os.path.dirname(os.path.abspath(__file__))), "refs")
DEC = "src/decoder.rs"
KEYS = "src/keys.rs"
TABLE_FN = "decoder::basic_events_nfa"

CLAIM = {
    "text": "Table and layout clauses of C04 decided from the facts of the current tree, every row / bit / state enumerated: (T1) the folded key table of "
            "basic_events_nfa maps no byte string to two keys and agrees with the xterm / VT220 / rxvt / fixterms reference on every shared byte string "
            "(CSI n ~, CSI/SS3 letters, C0 and ESC-prefixed legacy keys), incl. the modifier parameter m -> KeyMod::from_bits(m-1) and the bit values of "
            "KeyMod's constants; every key it names is reachable through a reference sequence; (T2) DecMode/DecModeStatus::from_usize list every enumerator, "
            "compare the discriminant and return the matching element, discriminants = DEC mode numbers / DECRPM status values; (T3) CUBE/GREYS = xterm "
            "levels, COLORS in ECMA-48 order, SGR 30-37/40-47/90-97/100-107 index COLORS correctly (all codes 0..255, first-match semantics), all 256 "
            "indices of 38;5;n; (T4) kitty functional keys 27/13/9/127, 57376..=57398 -> F13..F35, the private-use block is never a text key, modifier "
            "field = from_bits(value-1) with kitty's bit values; (T5) SGR mouse: bit provenance of modifiers/button/wheel and the complete table over the "
            "used button-value bits x final M/m (name, modifiers, press flag, col-1, row-1), UTF-8 bit assembly = RFC 3629 for the byte classes the grammars "
            "admit; (T6) in the tagged union of the as-built event grammars only key-table (legacy ESC-prefix) accepting states can be extended, so a complete "
            "parsed report is never merged with what follows; (T7) the cursor / mouse / DECRPM / text-area report grammars equal their documented forms, the "
            "payload slice is exactly the numbers, and the n-th number reaches the documented field (row before col, column;row for the mouse, height before "
            "width, mode then status); (T8) the `rgb:` component conversion of OSC colour reports; (T9-TEXT-SPAN) the free text an event carries - the message "
            "of a kitty image response, the text of a bracketed paste - is the WHOLE transmitted span between the fixed delimiters (the first `;` after the "
            "control part resp. `ESC[200~`, and the terminator): KittyImageMatcher::decode / BracketedPasteMatcher::decode are evaluated on sequences accepted "
            "by their as-built grammars whose text holds every admissible ASCII byte alone and inside, each separator byte a decoder splits on (; , = :) 0, 1, "
            "2 and 3 times at the start / inside / at the end / adjacent, text that looks like a control part, and multi-byte UTF-8; the text must equal the "
            "span (kitty: no text exactly for `OK`), and id / placement must be the transmitted numbers whatever the text contains. NOT decided: value-level "
            "copying of numeric fields for every value (number_decode, the iterator plumbing, overflow), texts that are not valid UTF-8, "
            "the rest of the payloads of OSC colour / termcap / device attribute reports, wheel direction naming (library-defined), and the "
            "decoder loop that concatenates events (C03).",
    "technique": "folded key table and grammars (sa.grammar) against hand-written reference tables, MIR def-chasing (enum lists, discriminant comparison, order of "
                 "Iterator::next calls), bit provenance (sa.bitflow), exhaustive denotational evaluation of small source functions (sa.consteval), DFA queries "
                 "(tagged union, extendable accepting states, language equivalence)",
    "design_ref": "DESIGN.md §5 C04, §3, §4",
}

RFC3629 = {
    "citation": "RFC 3629 section 3, table 'Char. number range | UTF-8 octet sequence': 0xxxxxxx; 110xxxxx 10xxxxxx; 1110xxxx 10xxxxxx 10xxxxxx; "
                "11110xxx 10xxxxxx 10xxxxxx 10xxxxxx — the x bits, most significant first, are the bits of the character number",
    "lead_payload_bits": {1: 7, 2: 5, 3: 4, 4: 3},
    "continuation_payload_bits": 6,
}
ECMA48_COLOUR_ORDER = ("ECMA-48 8.3.117 SGR: 30 black, 31 red, 32 green, 33 yellow, 34 blue, 35 magenta, 36 cyan, 37 white (40-47 background); aixterm "
                       "90-97 / 100-107 are the bright variants = palette entries 8-15: bit 0 of the palette index is red, bit 1 green, bit 2 blue")

MOD_CONST = {"shift": "SHIFT", "alt": "ALT", "ctrl": "CTRL", "super": "SUPER", "hyper": "HYPER", "meta": "META",
             "caps_lock": "CAPSLOCK", "num_lock": "NUMLOCK"}
BUTTON_NAME = {"left": "MouseLeft", "middle": "MouseMiddle", "right": "MouseRight", "none": "MouseMove"}
WHEEL_NAMES = {"MouseWheelUp", "MouseWheelDown"}
NEXT_RX = r"Iterator>::next$|Iterator::next$"


def _ref(name):
    with open(os.path.join(REFDIR, name)) as fh:
        return json.load(fh)


def _bt(bs):
    return regex.bytes_text(bs).replace(" ", "")


# =====================================================================================================================
# consteval with the few std models the decoder bodies need
# =====================================================================================================================
def _numbers_model(args):
    """numbers_decode(data, sep): decimal values of the sep-separated pieces, pieces that are not all digits are skipped"""
    data, sep = args
    pieces, cur = [], []
    for b in list(data):
        if b == sep:
            pieces.append(cur)
            cur = []
        else:
            cur.append(b)
    pieces.append(cur)
    out = []
    for p in pieces:
        if all(48 <= c <= 57 for c in p):
            v = 0
            for c in p:
                v = v * 10 + c - 48
            out.append(v)
    return out


def _number_model(args):
    """number_decode(data): decimal value of an all-digit byte string, None otherwise / on overflow of usize"""
    data = list(args[0])
    if not all(isinstance(c, int) and 48 <= c <= 57 for c in data):
        return NONE
    v = 0
    for c in data:
        v = v * 10 + c - 48
    return some(v) if v < (1 << 64) else NONE


class _It(StdInterp):
    """+ fieldless user enums: discriminants (`*mode as usize`) and bare variant names inside the enum's own impl (`use Enum::*`)"""
    enum_discr = None          # {enum name: {variant: discriminant}}, filled from MIR (prog.enum_variants)

    def _path_value(self, p, fr):
        if "::" not in p and p not in fr.vars and fr.self_ty in self._enums and p in self._enums[fr.self_ty]:
            return EnumV(fr.self_ty, p)
        return super()._path_value(p, fr)

    def _e_cast(self, e, fr):
        v = self.eval(e["e"], fr)
        if isinstance(v, EnumV) and self.enum_discr and v.ty in self.enum_discr and v.name in self.enum_discr[v.ty]:
            v = self.enum_discr[v.ty][v.name]
        return super()._e_cast({"k": "cast", "e": {"k": "$value", "v": v}, "ty": e["ty"]}, fr)


class _BitProblem(Unsupported):
    """the evaluated code leaves the exact bit-provenance operator set of sa.bitflow"""


class _BitIt(_It):
    """values may be sa.bitflow.Val (one provenance per bit): operators and casts on them are exact bit layouts or an error"""

    def _bf(self, expr, env):
        try:
            v = bf.evaluate(expr, env)
        except bf.BitflowError as ex:
            raise _BitProblem(str(ex))
        return v.v if isinstance(v, bf.Flex) else v

    def binop(self, op, a, b, memo=True):
        if isinstance(a, bf.Val) or isinstance(b, bf.Val):
            if not all(isinstance(x, bf.Val) or (isinstance(x, int) and not isinstance(x, bool)) for x in (a, b)):
                raise _BitProblem("operator %s on source bits and a %s" % (op, type(b if isinstance(a, bf.Val) else a).__name__))
            if op in ("==", "!=", "<", "<=", ">", ">=", "&&", "||"):
                raise _BitProblem("the value is compared (%s) before it is assembled: control flow depends on source bits" % op)
            return self._bf({"k": "bin", "op": op, "l": {"k": "path", "p": "$a"}, "r": {"k": "path", "p": "$b"}, "line": 0}, {"$a": a, "$b": b})
        return super().binop(op, a, b, memo)

    def _e_cast(self, e, fr):
        v = self.eval(e["e"], fr)
        if isinstance(v, bf.Val):
            return self._bf({"k": "cast", "e": {"k": "path", "p": "$a"}, "ty": e["ty"], "line": 0}, {"$a": v})
        return _It._e_cast(self, {"k": "cast", "e": {"k": "$value", "v": v}, "ty": e["ty"]}, fr)

    def _e_call(self, e, fr):
        f = e["f"]
        if f.get("k") == "path" and f["p"].endswith("::from") and f["p"][:-6].split("::")[-1] in bf.TYPES and len(e.get("args") or []) == 1:
            v = self.eval(e["args"][0], fr)
            if isinstance(v, bf.Val):
                return self._bf({"k": "call", "f": {"k": "path", "p": f["p"].split("::")[-2] + "::from"}, "args": [{"k": "path", "p": "$a"}], "line": 0}, {"$a": v})
            return super()._e_call({"k": "call", "f": f, "args": [{"k": "$value", "v": v}]}, fr)
        return super()._e_call(e, fr)


def _std_externs(it):
    it.extern_fns["numbers_decode"] = _numbers_model
    it.extern_fns["number_decode"] = _number_model
    it.extern_methods["next"] = lambda recv, args: (some(recv.pop(0)) if recv else NONE) if isinstance(recv, list) else _unsup("next on a non-modelled iterator")
    it.extern_methods["checked_sub"] = lambda recv, args: some(recv - args[0]) if recv >= args[0] else NONE
    it.extern_fns["KeyName::F"] = lambda a: ("KeyName::F", a[0])
    it.extern_fns["KeyName::Char"] = lambda a: ("KeyName::Char", a[0])
    it.extern_fns["RGBA::new"] = lambda a: ("RGBA",) + tuple(a)
    for n in ("Mouse", "CursorPosition", "Size", "Key"):
        it.extern_fns["TerminalEvent::" + n] = (lambda n: lambda a: ("TerminalEvent::" + n, a[0]))(n)
    return it


def _interp(src):
    it = _std_externs(_It(src))
    it.extern_fns["char::from_u32"] = lambda a: some(("char", a[0])) if (0 <= a[0] < 0xD800 or 0xE000 <= a[0] <= 0x10FFFF) else NONE
    return it


def _bit_interp(src):
    it = _std_externs(_BitIt(src))
    it.extern_fns["char::from_u32"] = lambda a: some(("char", a[0]))           # the Some case: which scalar value the assembled bits denote
    it.extern_fns["char::from_u32_unchecked"] = lambda a: ("char", a[0])
    it.extern_fns["char::from"] = lambda a: ("char", a[0])                     # char::from(u8): the scalar value with that byte's bits
    it.extern_fns["char::from_digit"] = lambda a: _unsup("char::from_digit is not a bit layout")
    return it


def _unsup(msg):
    raise Unsupported(msg)


def _bits(v):
    if isinstance(v, StructV) and "bits" in v.fields and isinstance(v.fields["bits"], int):
        return v.fields["bits"]
    raise Unsupported("KeyMod value expected, got %r" % (v,))


def _keymod_consts(it):
    out = {}
    for name in ("EMPTY", "SHIFT", "ALT", "CTRL", "SUPER", "HYPER", "META", "CAPSLOCK", "NUMLOCK", "PRESS", "ALL"):
        v = it.const("KeyMod", name)
        if v is not None:
            out[name] = _bits(v)
    return out


# =====================================================================================================================
# T1
# =====================================================================================================================
_KEYNAME = r"KeyName::(\w+)(?:\((?:'(\\u\{[0-9a-f]+\}|[^'\\])'|(\d+))\))?"
_TAG_PLAIN = re.compile(r"^TerminalEvent::Key\(" + _KEYNAME + r"\)$")
_TAG_PAIR = re.compile(r"^TerminalEvent::Key\(\(" + _KEYNAME + r", (.+)\)\)$")


def _keyname(m):
    variant, ch, num = m.group(1), m.group(2), m.group(3)
    if ch is not None:
        if ch.startswith("\\u{"):
            ch = chr(int(ch[3:-1], 16))
        return (variant, ch)
    if num is not None:
        return (variant, int(num))
    return (variant, None)


def _parse_tag(tag):
    """tag text of a table row -> ((variant, arg), modifier expression text | None)"""
    m = _TAG_PLAIN.match(tag)
    if m:
        return _keyname(m), None
    m = _TAG_PAIR.match(tag)
    if m:
        return _keyname(m), m.group(4)
    return None


def _eval_mods(it, text):
    """KeyMod expression of a folded table row (`KeyMod::ALT | KeyMod::SHIFT`, `KeyMod::from_bits(6)`) -> KeyMod value, through keys.rs"""
    val = None
    for term in text.split(" | "):
        term = term.strip()
        m = re.fullmatch(r"KeyMod::from_bits\((\d+)\)", term)
        if m:
            v = it.call("KeyMod", "from_bits", [int(m.group(1))])
        else:
            m = re.fullmatch(r"KeyMod::([A-Z_]+)", term)
            if not m:
                raise Unsupported("modifier expression %s" % text)
            v = it.const("KeyMod", m.group(1))
            if v is None:
                raise Unsupported("constant KeyMod::%s" % m.group(1))
        val = v if val is None else it.binop("|", val, v)
    return val


def _refkey(name):
    m = re.fullmatch(r"F(\d+)", name)
    if m:
        return ("F", int(m.group(1)))
    return (name, None)


def _key_text(k):
    if k[1] is None:
        return k[0]
    return "%s(%s)" % (k[0], k[1] if isinstance(k[1], int) else repr(k[1]))


def expand_xterm(ref):
    """reference rows: bytes -> {"key": (variant,arg), "mods": frozenset of names | None, "group", "base", "modlabel"}"""
    rows = {}
    modbits = ref["modifier_parameter"]["bits"]

    def mods_of(m):
        return frozenset(n for n, b in modbits.items() if (m - 1) & b)

    def add(bs, key, mods, group, base, modlabel):
        if "meta" in (mods or ()):
            mods = None            # xterm's Meta has no agreed counterpart among the library's modifiers: name only
        row = {"key": key, "mods": mods, "group": group, "base": base, "modlabel": modlabel}
        if bs in rows and (rows[bs]["key"], rows[bs]["mods"]) != (key, mods):
            raise ValueError("reference table maps %r twice" % bs)
        rows[bs] = row

    params = ref["modifier_parameter"]["parameters"]
    for code, r in ref["csi_tilde"]["codes"].items():
        key = _refkey(r["key"])
        add(("\x1b[%s~" % code).encode(), key, frozenset(), "csi_tilde", "CSI%s~" % code, "unmodified")
        for m in params:
            add(("\x1b[%s;%d~" % (code, m)).encode(), key, mods_of(m), "csi_tilde", "CSI%s~" % code, "param%d" % m)
    for letter, r in ref["csi_ss3_letter"]["letters"].items():
        key = _refkey(r["key"])
        add(("\x1b[%s" % letter).encode(), key, frozenset(), "csi_ss3_letter", "CSI" + letter, "unmodified")
        add(("\x1bO%s" % letter).encode(), key, frozenset(), "csi_ss3_letter", "SS3" + letter, "unmodified")
        for m in params:
            add(("\x1b[1;%d%s" % (m, letter)).encode(), key, mods_of(m), "csi_ss3_letter", "CSI1;m" + letter, "param%d" % m)
    leg = ref["legacy_bytes"]
    for hx, r in leg["single"].items():
        key = ("Char", r["char"]) if r["key"] == "Char" else _refkey(r["key"])
        add(bytes([int(hx, 16)]), key, frozenset(r["mods"]), "legacy_bytes", "byte-" + hx, "single")
    c0 = leg["c0_control_letters"]
    for b in range(c0["first"], c0["last"] + 1):
        add(bytes([b]), ("Char", chr(b | 0x60)), frozenset(["ctrl"]), "legacy_bytes", "C0-%02x" % b, "C0")
    ep = leg["esc_prefix"]
    for c in range(ep["first"], ep["last"] + 1):
        ch = chr(c)
        if "A" <= ch <= "Z":
            add(b"\x1b" + bytes([c]), ("Char", ch.lower()), frozenset(["alt", "shift"]), "legacy_bytes", "ESC-" + ch, "ESC-prefix-upper")
        else:
            add(b"\x1b" + bytes([c]), ("Char", ch), frozenset(["alt"]), "legacy_bytes", "ESC-%02x" % c, "ESC-prefix")
    return rows


def t1(ctx, it, consts):
    src, prog = ctx.src, ctx.prog
    ref = _ref("xterm_keys.json")
    ctx.rule("T1-FUNCTION", "key table of basic_events_nfa: every byte string denotes one key (a duplicate would be shadowed silently by tag order)", floor=367)
    ctx.rule("T1-XTERM", "key table agrees with refs/xterm_keys.json on every shared byte string: key name and modifiers (parameter m -> bits m-1)", floor=367)
    ctx.rule("T1-COVER", "every (key, modifiers) the table names is decoded from at least one byte string the reference gives for it", floor=299)
    ctx.rule("T1-KEYMOD", "KeyMod constants carry the xterm modifier bit values, from_bits keeps them, (KeyName, KeyMod) -> Key keeps the pair order", floor=14)
    g = grammar.extract(src).get("BasicEventsMatcher")
    if g is None or g.kind != "table" or g.table is None:
        ctx.anchor("T1-FUNCTION", "basic_events_nfa-table", "the key table could not be folded: %s" % (g.problem if g else "no BasicEventsMatcher"))
        return
    site = [g.site] if g.site else [DEC]
    fn = src.fn("basic_events_nfa", file=DEC)
    if fn is not None:
        site = ["%s:%d" % (DEC, fn[1]["line"])]

    # ---- KeyMod facts -------------------------------------------------------------------------------------------
    refbits = ref["modifier_parameter"]["bits"]
    for name in ("shift", "alt", "ctrl"):
        have = consts.get(MOD_CONST[name])
        ok = have == refbits[name]
        ctx.instance("T1-KEYMOD", {"const": "KeyMod::" + MOD_CONST[name], "bits": have, "xterm_bit": refbits[name], "ok": ok})
        if not ok:
            ctx.violation("T1-KEYMOD", "keys::KeyMod", MOD_CONST[name],
                          "KeyMod::%s = %s but the modifier parameter encodes %s as %d: `ESC[1;%dA` would carry the wrong modifier" % (
                              MOD_CONST[name], have, name, refbits[name], refbits[name] + 1), sites=[KEYS])
    for k in range(8):
        try:
            got = _bits(it.call("KeyMod", "from_bits", [k]))
        except Unsupported as ex:
            ctx.anchor("T1-KEYMOD", "KeyMod::from_bits", "KeyMod::from_bits not evaluable: %s" % ex)
            break
        ctx.instance("T1-KEYMOD", {"from_bits": k, "bits": got, "ok": got == k})
        if got != k:
            ctx.violation("T1-KEYMOD", "keys::KeyMod::from_bits", "value-%d" % k, "KeyMod::from_bits(%d) has bits %d: shift/alt/ctrl of a modifier parameter are not kept" % (k, got), sites=[KEYS])
    conv_ok = {}
    for trait, arg, want in (("From<KeyName>", ("KeyName", "probe"), (("KeyName", "probe"), 0)),
                             ("From<(KeyName,KeyMod)>", (("KeyName", "probe"), StructV("KeyMod", {"bits": 6})), (("KeyName", "probe"), 6)),
                             ("From<(KeyName,KeyMod)>", (("KeyName", "probe"), StructV("KeyMod", {"bits": 257})), (("KeyName", "probe"), 257))):
        cands = [(f, item) for (f, s, tr, item, t) in src.fns if not t and s == "Key" and item["name"] == "from" and tr is not None and tr.replace(" ", "") == trait]
        got = None
        try:
            if len(cands) == 1:
                v = it.call_item(cands[0][1], "Key", [arg], cands[0][0])
                got = (v.fields["name"], _bits(v.fields["mode"]))
        except (Unsupported, KeyError, AttributeError):
            got = None
        conv_ok[trait] = got == want
        ctx.instance("T1-KEYMOD", {"conversion": trait + " for Key", "ok": got == want})
        if got != want:
            ctx.violation("T1-KEYMOD", "keys::Key", "from-" + re.sub(r"\W", "", trait), "Key::from for %s does not produce Key{name, mode} from its argument (got %r)" % (trait, got), sites=[KEYS])

    # ---- the table ------------------------------------------------------------------------------------------------
    variants = {n for n, d in (prog.enum_variants("keys::KeyName") or [])}
    try:
        refrows = expand_xterm(ref)
    except (KeyError, ValueError) as ex:
        ctx.anchor("T1-XTERM", "refs/xterm_keys.json", "reference table unusable: %s" % ex)
        return
    by_bytes = {}
    unparsed = 0
    for bs, tag in g.table:
        p = _parse_tag(tag)
        if p is None:
            unparsed += 1
            ctx.anchor("T1-FUNCTION", "row-" + _bt(bs), "table row %s carries a tag that is not a key: %s" % (_bt(bs), tag))
            continue
        key, mtext = p
        try:
            bits = 0 if mtext is None else _bits(_eval_mods(it, mtext))
        except Unsupported as ex:
            ctx.anchor("T1-FUNCTION", "row-" + _bt(bs), "modifier expression of row %s not evaluable: %s" % (_bt(bs), ex))
            continue
        by_bytes.setdefault(bs, []).append((key, bits, tag))
    ctx.note("T1: %d table rows, %d distinct byte strings, %d reference rows" % (len(g.table), len(by_bytes), len(refrows)))
    for bs in sorted(by_bytes):
        vals = sorted({(k, b) for k, b, t in by_bytes[bs]}, key=repr)
        ctx.instance("T1-FUNCTION", {"bytes": _bt(bs), "rows": len(by_bytes[bs]), "keys": [_key_text(k) + "+%d" % b for k, b in vals]})
        if len(vals) > 1:
            ctx.violation("T1-FUNCTION", TABLE_FN, _bt(bs),
                          "byte string %s is mapped to %d different keys (%s): the decoder reports only one of them, the other row is dead" % (
                              _bt(bs), len(vals), ", ".join(_key_text(k) + " mods=%d" % b for k, b in vals)), sites=site)
        if vals[0][0][0] not in variants and variants:
            ctx.violation("T1-FUNCTION", TABLE_FN, "unknown-" + vals[0][0][0], "row %s names KeyName::%s which is not a variant of keys::KeyName" % (_bt(bs), vals[0][0][0]), sites=site)
    shared = 0
    for bs in sorted(by_bytes, key=lambda x: (len(x), x)):
        r = refrows.get(bs)
        if r is None:
            continue
        shared += 1
        want_bits = None
        if r["mods"] is not None:
            want_bits = 0
            for n in r["mods"]:
                want_bits |= consts.get(MOD_CONST[n], 0)
        seen = set()
        for key, bits, tag in by_bytes[bs]:
            if (key, bits) in seen:
                continue
            seen.add((key, bits))
            ok_name = key == r["key"]
            ok_mods = want_bits is None or bits == want_bits
            ctx.instance("T1-XTERM", {"bytes": _bt(bs), "key": _key_text(key), "mods": bits, "ref_key": _key_text(r["key"]),
                                      "ref_mods": sorted(r["mods"]) if r["mods"] is not None else None, "ok": ok_name and ok_mods})
            if not ok_name:
                ctx.violation("T1-XTERM", TABLE_FN, "name:" + r["base"],
                              "`%s` is %s in the reference (%s) but the table decodes it to %s" % (_bt(bs), _key_text(r["key"]), r["group"], _key_text(key)), sites=site)
            if not ok_mods:
                ctx.violation("T1-XTERM", TABLE_FN, "mods:" + r["modlabel"],
                              "`%s` carries modifiers {%s} (bits %d with KeyMod's constants) but the table gives it bits %d [%s]" % (
                                  _bt(bs), ",".join(sorted(r["mods"])), want_bits, bits, tag), sites=site)
    ctx.note("T1: %d byte strings shared with the reference" % shared)
    # codes of the CSI n ~ numbering that no terminal sends
    for n in ref["csi_tilde"].get("unassigned", []):
        for bs in sorted(by_bytes, key=lambda x: (len(x), x)):
            if re.fullmatch(rb"\x1b\[%d(;\d+)?~" % n, bs):
                ctx.violation("T1-XTERM", TABLE_FN, "name:CSI%d~" % n,
                              "`%s` decodes to %s but %d is an unassigned number of the VT220/xterm function-key numbering: no terminal sends it" % (
                                  _bt(bs), _key_text(by_bytes[bs][0][0]), n), sites=site)
                break
    # every key the table names must be reachable through (one of) the byte strings the reference gives for it
    ref_by_val = {}
    for bs, r in refrows.items():
        if r["mods"] is None:
            continue
        wb = 0
        for n in r["mods"]:
            wb |= consts.get(MOD_CONST[n], 0)
        ref_by_val.setdefault((r["key"], wb), []).append(bs)
    have_vals = {}
    for bs, rows in by_bytes.items():
        for key, bits, tag in rows:
            have_vals.setdefault((key, bits), set()).add(bs)
    for val in sorted(have_vals, key=repr):
        cands = ref_by_val.get(val)
        if not cands:
            continue
        hit = [bs for bs in cands if bs in have_vals[val]]
        ctx.instance("T1-COVER", {"key": _key_text(val[0]), "mods": val[1], "reference_sequences": len(cands), "present": len(hit), "ok": bool(hit)})
        if not hit:
            ctx.violation("T1-COVER", TABLE_FN, "unreachable:%s+%d" % (_key_text(val[0]), val[1]),
                          "%s (mods %d) is decoded only from %s; the sequence(s) terminals send for it (%s) are not in the table" % (
                              _key_text(val[0]), val[1], ", ".join("`%s`" % _bt(b) for b in sorted(have_vals[val])), ", ".join("`%s`" % _bt(b) for b in sorted(cands)[:4])), sites=site)


# =====================================================================================================================
# T2
# =====================================================================================================================
def _single_def(b, l):
    ds = b.defs_of(l)
    return ds[0] if len(ds) == 1 else None


def _bare(o):
    if o["k"] in ("copy", "move") and not o["place"]["p"]:
        return o["place"]["l"]
    return None


def _chase_copy(b, l, limit=8):
    """follow `_x = copy/move _y` definitions of bare locals"""
    while limit > 0:
        limit -= 1
        if 0 < l <= b.arg_count:
            return l
        d = _single_def(b, l)
        if d is None or d[1] == "term" or d[2]["k"] != "use":
            return l
        n = _bare(d[2]["a"])
        if n is None:
            return l
        l = n
    return l


def _element_of(b, l):
    """local holding `&elem` obtained from `(next() as Some).0`; returns the block of the next() call or None"""
    d = _single_def(b, l)
    if d is None or d[1] == "term" or d[2]["k"] != "use" or d[2]["a"]["k"] == "const":
        return None
    p = d[2]["a"]["place"]
    if [e["k"] for e in p["p"]] != ["downcast", "field"] or p["p"][0].get("variant") != "Some":
        return None
    d2 = _single_def(b, p["l"])
    if d2 is None or d2[1] != "term" or not call_matches(d2[2], NEXT_RX):
        return None
    return d2[0]


def _deref_source(b, l):
    """l = copy (*E)  ->  E"""
    d = _single_def(b, l)
    if d is None or d[1] == "term" or d[2]["k"] != "use" or d[2]["a"]["k"] == "const":
        return None
    p = d[2]["a"]["place"]
    if [e["k"] for e in p["p"]] != ["deref"]:
        return None
    return p["l"]


class _Recorder:
    """buffers instance / violation / anchor calls of a diagnostic pass so that they can be replayed or dropped"""

    def __init__(self):
        self.items = []

    def instance(self, *a, **k):
        self.items.append(("instance", a, k))

    def violation(self, *a, **k):
        self.items.append(("violation", a, k))

    def anchor(self, *a, **k):
        self.items.append(("anchor", a, k))

    def note(self, *a, **k):
        self.items.append(("note", a, k))

    def replay(self, ctx):
        for kind, a, k in self.items:
            getattr(ctx, kind)(*a, **k)


def _t2_by_shape(ctx, prog, enum_path, fnp, b, variants, example):
    """the MIR shape of the lookup loop: candidate list, comparison with the discriminant, returned element (diagnostics / fallback)"""
    iters = [t for bb, t in b.calls() if call_matches(t, r"slice::<impl \[T\]>::iter$")]
    listed = set()
    if len(iters) == 1:
        listed = value_variants(b, iters[0]["args"][0])
    if not listed:
        ctx.anchor("T2-FROM-USIZE", fnp + "/list", "the array of candidates iterated by %s was not found" % fnp)
        return
    for name, disc in variants:
        ok = (enum_path + "::" + name) in listed
        ctx.instance("T2-FROM-USIZE", {"fn": fnp, "variant": name, "discriminant": disc, "listed": ok})
        if not ok:
            ctx.violation("T2-FROM-USIZE", fnp, "missing-" + name,
                          "%s::%s (= %s) is not in the list from_usize searches: the report %s is not decoded (DecModeMatcher::decode returns None, the bytes come out as Raw)" % (
                              enum_path.split("::")[-1], name, disc, example % int(disc)), sites=[b.loc])
    for x in sorted(listed):
        if x.rsplit("::", 1)[0] != enum_path:
            ctx.violation("T2-FROM-USIZE", fnp, "foreign-" + x.split("::")[-1], "from_usize lists %s which is not a %s" % (x, enum_path), sites=[b.loc])
    # comparison and returned element
    eqs = [(i, s["rv"]) for i, si, s in b.assigns() if s["rv"]["k"] == "bin" and s["rv"]["op"] == "Eq"]
    cmp_ok = False
    ret_ok = False
    elem = None
    if len(eqs) == 1:
        rv = eqs[0][1]
        for x, y in ((rv["a"], rv["b"]), (rv["b"], rv["a"])):
            lx, ly = _bare(x), _bare(y)
            if lx is None or ly is None or _chase_copy(b, lx) != 1:
                continue
            d = _single_def(b, ly)
            if d is None or d[1] == "term" or d[2]["k"] != "cast" or d[2].get("ty") != "usize":
                continue
            ld = _bare(d[2]["a"])
            dd = _single_def(b, ld) if ld is not None else None
            if dd is None or dd[1] == "term" or dd[2]["k"] != "discr" or dd[2].get("of") != enum_path or dd[2]["place"]["p"]:
                continue
            e = _deref_source(b, dd[2]["place"]["l"])
            if e is not None and _element_of(b, e) is not None:
                cmp_ok, elem = True, e
    for i, si, s in b.assigns():
        rv = s["rv"]
        if s["place"]["l"] == 0 and not s["place"]["p"] and rv["k"] == "agg" and rv.get("variant") == "Some":
            l = _bare(rv["fields"][0])
            ret_ok = l is not None and elem is not None and _deref_source(b, l) == elem
    ctx.instance("T2-FROM-USIZE", {"fn": fnp, "compares": "code == discriminant(element) as usize", "ok": cmp_ok})
    ctx.instance("T2-FROM-USIZE", {"fn": fnp, "returns": "Some(element that compared equal)", "ok": ret_ok})
    if not cmp_ok:
        ctx.violation("T2-FROM-USIZE", fnp, "comparison", "the argument is not compared with `*element as usize` (the enumerator's discriminant) of the iterated list", sites=[b.loc])
    if not ret_ok:
        ctx.violation("T2-FROM-USIZE", fnp, "returned-element", "from_usize does not return the element whose discriminant matched", sites=[b.loc])


def _t2_by_value(ctx, it, enum_path, variants, fnp, b):
    """from_usize evaluated for every code 0..=max discriminant+2 (and a few large ones): Some(the enumerator with that discriminant) / None.
    -> None when everything agrees, (kind, variant name, message) for the first disagreement; raises Unsupported when not evaluable"""
    src = ctx.src
    ename = enum_path.split("::")[-1]
    r = src.fn("from_usize", impl_self="^%s$" % re.escape(ename))
    if r is None:
        raise Unsupported("fn %s::from_usize not found in src.json" % ename)
    dmap = {}
    for n, d in variants:
        dmap.setdefault(int(d), n)
    if it.enum_discr is None:
        it.enum_discr = {}
    it.enum_discr[ename] = {n: int(d) for n, d in variants}
    top = max(dmap) + 2
    for code in list(range(0, top + 1)) + [1 << 16, 1 << 32, (1 << 64) - 1]:
        got = it.call_item(r[1], ename, [code], r[0], memo=False)
        want = some(EnumV(ename, dmap[code])) if code in dmap else NONE
        if got != want:
            if code in dmap and got == NONE:
                return ("missing", dmap[code], "%s::from_usize(%d) is None: %s (= %d) is not found" % (ename, code, dmap[code], code))
            if code in dmap:
                return ("returned-element", dmap[code], "%s::from_usize(%d) returns %r, the enumerator with that discriminant is %s" % (ename, code, got, dmap[code]))
            return ("comparison", None, "%s::from_usize(%d) returns %r although no enumerator has that discriminant" % (ename, code, got))
    return None


def t2(ctx, it=None):
    prog = ctx.prog
    ref = _ref("xterm_keys.json")
    ctx.rule("T2-FROM-USIZE", "DecMode/DecModeStatus::from_usize: every enumerator is listed, the code is compared with the discriminant, the matching element is returned", floor=18)
    ctx.rule("T2-DEC-NUMBERS", "discriminants of DecMode / DecModeStatus are the DEC private mode numbers / DECRPM status values", floor=14)
    for enum_path, refmap in (("terminal::DecMode", ref["dec_private_modes"]["modes"]), ("terminal::DecModeStatus", ref["decrpm_status"]["values"])):
        fnp = enum_path + "::from_usize"
        b = prog.inlined(fnp)
        variants = prog.enum_variants(enum_path)
        if b is None or not variants:
            ctx.anchor("T2-FROM-USIZE", fnp)
            continue
        example = {"terminal::DecMode": "ESC[?%d;1$y", "terminal::DecModeStatus": "ESC[?25;%d$y"}[enum_path]
        # (1) the value: from_usize evaluated over every code up to the largest discriminant (whichever way the lookup is written)
        verdict = "?"
        if it is not None:
            try:
                verdict = _t2_by_value(ctx, it, enum_path, variants, fnp, b)
            except (Unsupported, TypeError, KeyError, ValueError) as ex:
                ctx.note("T2: %s is not evaluable (%s): its MIR is read instead" % (fnp, ex))
        if verdict is None:
            for name, disc in variants:
                ctx.instance("T2-FROM-USIZE", {"fn": fnp, "variant": name, "discriminant": disc, "listed": True, "by": "evaluation of from_usize(%s)" % disc})
            ctx.instance("T2-FROM-USIZE", {"fn": fnp, "compares": "from_usize(code) is Some exactly for the discriminants (all codes 0..=max+2 evaluated)", "ok": True})
            ctx.instance("T2-FROM-USIZE", {"fn": fnp, "returns": "Some(the enumerator with that discriminant)", "ok": True})
        else:
            rec = _Recorder()
            _t2_by_shape(rec, prog, enum_path, fnp, b, variants, example)
            precise = [v for v in rec.items if v[0] == "violation"]
            if verdict == "?" or precise:
                rec.replay(ctx)              # not evaluable: the shape decides (fail closed); evaluable and wrong: the shape names the defect
            else:
                for name, disc in variants:
                    ctx.instance("T2-FROM-USIZE", {"fn": fnp, "variant": name, "discriminant": disc, "by": "evaluation"})
            if verdict != "?" and not precise:
                kind, vname, msg = verdict
                ctx.violation("T2-FROM-USIZE", fnp, (kind + "-" + vname) if kind == "missing" else kind, msg + (
                    ": the report %s is not decoded" % (example % int(dict(variants)[vname])) if kind == "missing" else ""), sites=[b.loc])
        # discriminants against the DEC numbers
        dmap = {n: int(d) for n, d in variants}
        for num, r in sorted(refmap.items(), key=lambda kv: int(kv[0])):
            v = r["variant"]
            if v not in dmap:
                continue
            ok = dmap[v] == int(num)
            ctx.instance("T2-DEC-NUMBERS", {"enum": enum_path, "variant": v, "discriminant": dmap[v], "reference": int(num), "what": r["name"], "ok": ok})
            if not ok:
                ctx.violation("T2-DEC-NUMBERS", enum_path, v, "%s::%s = %d but %s is number %s in the reference" % (enum_path, v, dmap[v], r["name"], num), sites=["src/terminal.rs"])


# =====================================================================================================================
# T3
# =====================================================================================================================
def _const_array(src, name):
    r = src.const(name, file=DEC)
    if r is None:
        return None
    e = r[1]["expr"]
    while e.get("k") in ("ref", "paren"):
        e = e["e"]
    if e.get("k") != "array":
        return None
    return r[1], e["elems"]


def t3(ctx, it):
    src = ctx.src
    ref = _ref("xterm256.json")
    ctx.rule("T3-TABLES", "decoder CUBE / GREYS = xterm cube levels and grey ramp; COLORS[0..16] follow the ECMA-48 colour order (bit0 red, bit1 green, bit2 blue; 8-15 bright)", floor=46)
    ctx.rule("T3-NAMED", "SGR 30-37 / 40-47 / 90-97 / 100-107 select COLORS[0-7] / COLORS[8-15] for fg / bg (first-match semantics of sgr_face's arms, all codes 0..=255)", floor=32)
    ctx.rule("T3-PALETTE", "38;5;n: sgr_color's indexed branch evaluated for all 256 indices = COLORS / xterm cube / grey ramp", floor=256)
    tables = {}
    for name, refkey in (("CUBE", "cube_levels"), ("GREYS", "grey_levels")):
        r = _const_array(src, name)
        levels = ref[refkey]["values"]
        if r is None:
            ctx.anchor("T3-TABLES", "decoder::" + name)
            continue
        vals = [lit_int(x) for x in r[1]]
        tables[name] = vals
        site = ["%s:%d" % (DEC, r[0]["line"])]
        if len(vals) != len(levels):
            ctx.violation("T3-TABLES", "decoder::" + name, "length", "%s has %d entries, xterm has %d" % (name, len(vals), len(levels)), sites=site)
        for i, v in enumerate(vals):
            ok = i < len(levels) and v == levels[i]
            ctx.instance("T3-TABLES", {"table": name, "index": i, "value": v, "xterm": levels[i] if i < len(levels) else None, "ok": ok})
            if not ok and i < len(levels):
                ctx.violation("T3-TABLES", "decoder::" + name, "entry-%d" % i, "decoder %s[%d] = %s, the xterm level is %d: colour %s;5;%d decodes to the wrong RGB" % (
                    name, i, v, levels[i], "38", (16 + i) if name == "CUBE" else (232 + i)), sites=site)
    r = _const_array(src, "COLORS")
    colors = None
    if r is None:
        ctx.anchor("T3-TABLES", "decoder::COLORS")
    else:
        site = ["%s:%d" % (DEC, r[0]["line"])]
        colors = []
        for x in r[1]:
            if x.get("k") == "call" and x["f"].get("p", "").endswith("RGBA::new") and len(x["args"]) == 4 and all(lit_int(a) is not None for a in x["args"]):
                colors.append(tuple(lit_int(a) for a in x["args"]))
            else:
                colors = None
                break
        if colors is None or len(colors) != 16:
            ctx.anchor("T3-TABLES", "decoder::COLORS/shape", "COLORS is not an array of 16 RGBA::new(r, g, b, a) literals")
            colors = None
        else:
            for i, (cr, cg, cb, ca) in enumerate(colors):
                j = i & 7
                ch = (cr, cg, cb)
                on = [ch[c] for c in range(3) if j >> c & 1]
                off = [ch[c] for c in range(3) if not j >> c & 1]
                if j in (0, 7):
                    ok = cr == cg == cb
                else:
                    ok = min(on) > max(off)
                ok = ok and ca == 255
                if i >= 8:
                    ok = ok and all(ch[c] >= colors[i - 8][c] for c in range(3))
                ctx.instance("T3-TABLES", {"table": "COLORS", "index": i, "rgba": [cr, cg, cb, ca], "ecma48_channels_on": [n for c, n in enumerate("rgb") if j >> c & 1], "ok": ok})
                if not ok:
                    ctx.violation("T3-TABLES", "decoder::COLORS", "entry-%d" % i,
                                  "COLORS[%d] = %s does not have the channels of palette colour %d (%s)" % (i, (cr, cg, cb, ca), i, ECMA48_COLOUR_ORDER), sites=site)
            lum = [sum(colors[i][:3]) for i in (0, 8, 7, 15)]
            if not (lum[0] < lum[1] < lum[2] < lum[3]):
                ctx.violation("T3-TABLES", "decoder::COLORS", "luminance-order", "black < bright black < white < bright white does not hold for entries 0, 8, 7, 15: %s" % lum, sites=site)

    # ---- named colour arms of sgr_face ---------------------------------------------------------------------------
    sp = ref["sgr_colour_params"]
    want = {}
    for base, role, off in ((sp["fg_normal_base"], "fg", 0), (sp["bg_normal_base"], "bg", 0), (sp["fg_bright_base"], "fg", 8), (sp["bg_bright_base"], "bg", 8)):
        for k in range(8):
            want[base + k] = (role, off + k)
    sf = src.fn("sgr_face", file=DEC)
    # (1) the value: sgr_face evaluated as a whole on the single parameter `code` - which colour field is set, to which COLORS entry
    by_eval = None
    if sf is not None and colors is not None:
        by_eval = {}
        try:
            for code in range(256):
                face = it.call_item(sf[1], None, [list(str(code).encode())], DEC, memo=False)
                if not isinstance(face, StructV):
                    raise Unsupported("sgr_face does not return a struct")
                setc = [(fname, v[1]) for fname, v in face.fields.items()
                        if isinstance(v, tuple) and not isinstance(v, EnumV) and len(v) == 2 and v[0] == "Some" and isinstance(v[1], tuple) and v[1][:1] == ("RGBA",)]
                if not setc:
                    by_eval[code] = None
                elif len(setc) == 1:
                    idxs = [i for i, c in enumerate(colors) if ("RGBA",) + c == setc[0][1]]
                    by_eval[code] = (setc[0][0], idxs[0] if len(idxs) == 1 else "RGBA%s" % (setc[0][1][1:],))
                else:
                    by_eval[code] = ("+".join(f for f, _ in setc), "several")
        except Unsupported as ex:
            ctx.note("T3-NAMED: sgr_face is not evaluable as a whole (%s): its match arms are read instead" % ex)
            by_eval = None
    # (2) fallback, the shape: the arm of the command match selected by first-match semantics
    mt = None
    if by_eval is None and sf is not None:
        cands = [n for n in find_all(sf[1]["body"], lambda n: n.get("k") == "match")
                 if sum(1 for a in n["arms"] if find_all(a["body"], lambda x: x.get("k") == "index" and x["e"].get("p") == "COLORS")) >= 2]
        if len(cands) == 1:
            mt = cands[0]
    if by_eval is None and mt is None:
        ctx.anchor("T3-NAMED", "decoder::sgr_face/match")
    else:
        site = ["%s:%d" % (DEC, (mt or sf[1])["line"])]
        for code in range(256):
            if by_eval is not None:
                got = by_eval[code]
            else:
                sel = None
                binds = {}
                try:
                    for arm in mt["arms"]:
                        binds = {}
                        if arm.get("guard") is None and it.match_pat(arm["pat"], some(code), binds):
                            sel = arm
                            break
                        if arm.get("guard") is not None:
                            raise Unsupported("guarded arm")
                except Unsupported as ex:
                    ctx.anchor("T3-NAMED", "decoder::sgr_face/arm", "arm pattern not evaluable for code %d: %s" % (code, ex))
                    break
                got = None
                if sel is not None:
                    idx = find_all(sel["body"], lambda x: x.get("k") == "index" and x["e"].get("p") == "COLORS")
                    if idx:
                        body = sel["body"]
                        role = None
                        if body.get("k") == "assign" and body["l"].get("k") == "field" and len(idx) == 1:
                            role = body["l"]["name"]
                            rhs = body["r"]
                            if not (rhs.get("k") == "call" and rhs["f"].get("p") == "Some" and rhs["args"][0] is idx[0]):
                                role = None
                        try:
                            iv = it.eval(idx[0]["i"], Frame(dict(binds), None, DEC))
                        except Unsupported as ex:
                            iv = "not evaluable (%s)" % ex
                        got = (role, iv)
            exp = want.get(code)
            if exp is not None:
                ctx.instance("T3-NAMED", {"code": code, "selected": got, "reference": exp, "ok": got == exp})
                if got != exp:
                    ctx.violation("T3-NAMED", "decoder::sgr_face", "code-%d" % code,
                                  "SGR %d must set %s to palette colour %d (COLORS[%d]); the decoder gives %s — `ESC[%dm` decodes to the wrong colour" % (
                                      code, exp[0], exp[1], exp[1], "no named colour" if got is None else "%s = COLORS[%s]" % got, code), sites=site)
            elif got is not None:
                ctx.violation("T3-NAMED", "decoder::sgr_face", "code-%d" % code, "SGR %d is not a named-colour code but it sets %s to COLORS[%s]" % (code, got[0], got[1]), sites=site)

    # ---- the indexed form 38;5;n: sgr_color evaluated as a whole for every index (whichever way its branches are written) ----
    lay = ref["layout"]
    sc = src.fn("sgr_color", file=DEC)
    if sc is None or colors is None or "CUBE" not in tables or "GREYS" not in tables:
        ctx.anchor("T3-PALETTE", "decoder::sgr_color/indexed-branch")
    else:
        site = ["%s:%d" % (DEC, sc[1]["line"])]
        cube, greys = ref["cube_levels"]["values"], ref["grey_levels"]["values"]
        sel = list(str(ref["sgr_colour_params"]["selector_indexed"]).encode())

        def decode(n):
            return it.call_item(sc[1], None, [[list(sel), list(str(n).encode())]], DEC, memo=False)
        for n in range(lay["palette_size"]):
            if n < lay["system_count"]:
                exp = some(("RGBA",) + colors[n])
            elif n < lay["grey_base"]:
                j = n - lay["cube_base"]
                exp = some(("RGBA", cube[j // lay["stride_red"]], cube[(j // lay["stride_green"]) % lay["cube_side"]], cube[j % lay["cube_side"]], 255))
            else:
                gv = greys[n - lay["grey_base"]]
                exp = some(("RGBA", gv, gv, gv, 255))
            try:
                got = decode(n)
            except Panic as ex:
                got = "panic (%s)" % ex
            except Unsupported as ex:
                ctx.anchor("T3-PALETTE", "decoder::sgr_color/eval", "sgr_color not evaluable for 38;5;%d: %s" % (n, ex))
                break
            ctx.instance("T3-PALETTE", {"index": n, "rgba": list(got[1][1:]) if isinstance(got, tuple) and len(got) == 2 and isinstance(got[1], tuple) else repr(got), "ok": got == exp})
            if got != exp:
                kind = "system" if n < lay["system_count"] else ("cube" if n < lay["grey_base"] else "grey")
                ctx.violation("T3-PALETTE", "decoder::sgr_color", "%s-index" % kind,
                              "`ESC[38;5;%dm` decodes to %r, the palette colour is %r" % (n, got, exp), sites=site)
        try:
            over = decode(lay["palette_size"])
        except Unsupported:
            over = "?"
        if over != NONE:
            ctx.violation("T3-PALETTE", "decoder::sgr_color", "index-256", "palette index 256 is not rejected (got %r)" % (over,), sites=site)


# =====================================================================================================================
# T4
# =====================================================================================================================
def t4(ctx, it, consts):
    src = ctx.src
    ref = _ref("kitty_keys.json")
    ctx.rule("T4-KITTY", "keyboard_decode_key agrees with the kitty functional key table (27 13 9 127, 57376..=57398 -> F13..F35), never maps the private-use block to a text key, text keys are their code point", floor=41)
    ctx.rule("T4-KITTY-MODS", "kitty modifier field: KeyMod constants = kitty bit values, the field is decoded as from_bits(value - 1)", floor=9)
    fn = src.fn("keyboard_decode_key", file=DEC)
    if fn is None:
        ctx.anchor("T4-KITTY", "decoder::keyboard_decode_key")
        return
    site = ["%s:%d" % (DEC, fn[1]["line"])]

    def dec(code):
        return it.call_item(fn[1], None, [code], DEC)

    def show(v):
        if isinstance(v, tuple) and len(v) == 2 and v[0] == "Some":
            k = v[1]
            if isinstance(k, EnumV):
                return k.name
            if isinstance(k, tuple):
                return "%s(%s)" % (k[0].split("::")[-1], k[1] if not isinstance(k[1], tuple) else "U+%04X" % k[1][1])
        return "None" if v == NONE else repr(v)

    fk = ref["functional_keys_u"]
    rows = [(int(c), (n, None)) for c, n in fk["named"].items()]
    fr = fk["f_range"]
    rows += [(c, ("F", fr["first_key"] + c - fr["first_code"])) for c in range(fr["first_code"], fr["last_code"] + 1)]
    try:
        for code, (name, arg) in sorted(rows):
            got = dec(code)
            if arg is None:
                ok = got[0] == "Some" and isinstance(got[1], EnumV) and got[1].ty == "KeyName" and got[1].name == name
            else:
                ok = got == some(("KeyName::F", arg))
            mapped = got != NONE
            ctx.instance("T4-KITTY", {"code": code, "decoded": show(got), "reference": name if arg is None else "F%d" % arg, "ok": ok or not mapped})
            if mapped and not ok:
                ctx.violation("T4-KITTY", "decoder::keyboard_decode_key", "code-%d" % code,
                              "`ESC[%du` is %s in the kitty table but decodes to %s" % (code, name if arg is None else "F%d" % arg, show(got)), sites=site)
        pua = ref["private_use_area"]
        bad = None
        for code in range(pua["first"], pua["last"] + 1):
            got = dec(code)
            if got != NONE and isinstance(got[1], tuple) and got[1][0] == "KeyName::Char":
                bad = code
                break
        ctx.instance("T4-KITTY", {"private_use_block": [pua["first"], pua["last"]], "codes_evaluated": pua["last"] - pua["first"] + 1, "text_key_found": bad})
        if bad is not None:
            ctx.violation("T4-KITTY", "decoder::keyboard_decode_key", "private-use-as-text",
                          "`ESC[%du` (a functional key code of the private-use block) decodes to the text key U+%04X" % (bad, bad), sites=site)
        tk = ref["text_keys"]
        for code in tk["samples"]:
            got = dec(code)
            ok = got == some(("KeyName::Char", ("char", code)))
            ctx.instance("T4-KITTY", {"code": code, "decoded": show(got), "reference": "text key U+%04X" % code, "ok": ok})
            if not ok:
                ctx.violation("T4-KITTY", "decoder::keyboard_decode_key", "text-%d" % code, "`ESC[%du` is the text key U+%04X, decoded as %s" % (code, code, show(got)), sites=site)
        for code in tk["not_scalar"]:
            got = dec(code)
            bad_char = got != NONE and isinstance(got[1], tuple) and got[1][0] == "KeyName::Char"
            ctx.instance("T4-KITTY", {"code": code, "decoded": show(got), "reference": "not a Unicode scalar value / not a text key", "ok": not bad_char})
            if bad_char:
                ctx.violation("T4-KITTY", "decoder::keyboard_decode_key", "nonscalar-%d" % code, "code %d is not a text key but decodes to %s" % (code, show(got)), sites=site)
    except (Unsupported, TypeError, IndexError) as ex:
        ctx.anchor("T4-KITTY", "decoder::keyboard_decode_key/eval", "keyboard_decode_key not evaluable: %s" % ex)

    # modifiers
    kb = ref["modifiers"]["bits"]
    for name, bit in sorted(kb.items(), key=lambda kv: kv[1]):
        have = consts.get(MOD_CONST[name])
        ctx.instance("T4-KITTY-MODS", {"const": "KeyMod::" + MOD_CONST[name], "bits": have, "kitty_bit": bit, "ok": have == bit})
        if have != bit:
            ctx.violation("T4-KITTY-MODS", "keys::KeyMod", MOD_CONST[name], "KeyMod::%s = %s, kitty encodes %s as %d: `ESC[97;%du` carries the wrong modifier" % (MOD_CONST[name], have, name, bit, bit + 1), sites=[KEYS])
    kd = src.fn("decode", impl_self=r"^KittyKeyboardMatcher$")
    ok = False
    what = None
    evaluated = False
    if kd is not None:
        # (1) the value: decode evaluated as a whole on `ESC[97;<v>u` for every modifier value 1..=256 and without the field
        try:
            bad = None
            for v in [None] + list(range(1, 257)):
                data = list(("\x1b[97u" if v is None else "\x1b[97;%du" % v).encode())
                got = it.call_item(kd[1], "KittyKeyboardMatcher", [None, data], DEC, memo=False)
                if not (isinstance(got, tuple) and got[:1] == ("Some",) and isinstance(got[1], tuple) and got[1][0] == "TerminalEvent::Key" and isinstance(got[1][1], StructV)):
                    raise Unsupported("decode(`ESC[97;%su`) = %r" % (v, got))
                bits = _bits(got[1][1].fields["mode"])
                want_bits = 0 if v is None else _bits(it.call("KeyMod", "from_bits", [v - 1]))
                if bits != want_bits and bad is None:
                    bad = (v, bits, want_bits)
            evaluated = True
            ok = bad is None
            what = "value - 1 (evaluated for 1..=256)" if ok else "`ESC[97;%su` carries modifier bits %d, expected %d" % bad
        except (Unsupported, KeyError, AttributeError, TypeError) as ex:
            ctx.note("T4-KITTY-MODS: KittyKeyboardMatcher::decode is not evaluable as a whole (%s): the from_bits call is read instead" % ex)
    if kd is not None and not evaluated:
        # (2) fallback, the shape: the innermost match arm holding KeyMod::from_bits
        arms = [a for m in find_all(kd[1]["body"], lambda n: n.get("k") == "match") for a in m["arms"]
                if find_all(a["body"], lambda x: x.get("k") == "call" and x["f"].get("p") == "KeyMod::from_bits")]
        arms = [a for a in arms if not any(b is not a and find_all(a["body"], lambda x, b=b: x is b["body"]) for b in arms)]      # innermost
        if len(arms) == 1:
            arm = arms[0]
            pat = arm["pat"]
            var = None
            if pat.get("k") == "tstruct" and pat["path"] == "Some" and pat["elems"][0].get("k") == "ident":
                var = pat["elems"][0]["name"]
            call = find_all(arm["body"], lambda x: x.get("k") == "call" and x["f"].get("p") == "KeyMod::from_bits")[0]
            what = expr_text(call["args"][0])
            if var is not None:
                try:
                    vals = [(v, it.eval(call["args"][0], Frame({var: v}, None, DEC))) for v in (1, 2, 3, 5, 9, 17, 33, 65, 129, 256)]
                    ok = all(r == v - 1 for v, r in vals)
                    # values for which the arm is not taken must mean "no modifier": guard is `var > 1` or absent
                    if ok and arm.get("guard") is not None:
                        ok = all(it.eval(arm["guard"], Frame({var: v}, None, DEC)) is True for v in range(2, 257))
                except Unsupported as ex:
                    what = "not evaluable: %s" % ex
    ctx.instance("T4-KITTY-MODS", {"fn": "KittyKeyboardMatcher::decode", "from_bits_argument": what, "is_value_minus_one": ok})
    if not ok:
        ctx.violation("T4-KITTY-MODS", "decoder::KittyKeyboardMatcher::decode", "modifier-offset",
                      "the modifier field must be decoded as from_bits(value - 1) (kitty: value = 1 + bit mask); found from_bits(%s)" % what, sites=[DEC])


# =====================================================================================================================
# T5
# =====================================================================================================================
_BITOPS = {"&", "|", "^", "<<", ">>", "%", "/", "*", "+"}


def _contains_path(e, name):
    return bool(find_all(e, lambda n: n.get("k") == "path" and n.get("p") == name))


def _strip_refs(e):
    while isinstance(e, dict) and (e.get("k") == "ref" or (e.get("k") == "un" and e.get("op") == "*")):
        e = e["e"]
    return e


def _is_bitnode(n):
    return (n.get("k") == "bin" and n["op"] in _BITOPS) or n.get("k") == "cast"


class _BitScan:
    """Where does a value (the SGR button value) go?  Walks a function body and, through plain argument passing, the bodies of the
    crate-local helpers it is handed to; plain copies (`let x = v;`) are the same value.  Collects
      roots      maximal shift/mask/cast expressions over the value, with their bit provenance (they bound the bits looked at),
      outside    uses that are none of the above (the value escapes: its influence cannot be bounded),
      calls      calls of `want_call` (path) seen in any visited scope, with the environment of that scope."""

    def __init__(self, src, file, impl_self, want_call, max_depth=3):
        self.src, self.file, self.impl_self, self.want_call, self.max_depth = src, file, impl_self, want_call, max_depth
        self.roots, self.outside, self.calls, self.problems = [], [], [], []
        self.visited = set()

    def callee(self, n):
        """(fn item, index of the first explicit argument) of a call / method call on self to a function of the same file"""
        if n.get("k") == "call" and n["f"].get("k") == "path":
            p = n["f"]["p"]
            segs = p.split("::")
            if len(segs) == 1:
                c = [item for (f, s_, tr, item, t) in self.src.fns if not t and f == self.file and s_ is None and item["name"] == p]
                return (c[0], 0) if len(c) == 1 else None
            if len(segs) == 2 and segs[0] in ("Self", self.impl_self) and self.impl_self:
                r = self.src.fn(segs[1], impl_self="^%s$" % re.escape(self.impl_self), file=self.file)
                if r is not None:
                    return r[1], 0
            return None
        if n.get("k") == "mcall" and _strip_refs(n["recv"]).get("p") == "self" and self.impl_self:
            r = self.src.fn(n["m"], impl_self="^%s$" % re.escape(self.impl_self), file=self.file)
            if r is not None and r[1]["sig"]["inputs"] and r[1]["sig"]["inputs"][0]["name"] == "self":
                return r[1], 1
        return None

    def scan(self, nodes, env, depth=0):
        env = dict(env)
        alias_lets = set()
        # plain copies of a tracked value are the same value
        changed = True
        while changed:
            changed = False
            for st in find_all(nodes, lambda n: n.get("k") == "let" and n.get("init") is not None):
                init = _strip_refs(st["init"])
                if st["pat"].get("k") == "ident" and init.get("k") == "path" and init["p"] in env and st["pat"]["name"] not in env:
                    env[st["pat"]["name"]] = env[init["p"]]
                    alias_lets.add(id(st))
                    changed = True

        def mentions(n):
            return bool(find_all(n, lambda x: x.get("k") == "path" and x.get("p") in env))

        def rec(n, in_root):
            if isinstance(n, list):
                for x in n:
                    rec(x, in_root)
                return
            if not isinstance(n, dict):
                return
            k = n.get("k")
            if k == "let" and id(n) in alias_lets:
                return
            if k in ("call", "mcall") and not in_root:
                c = self.callee(n)
                if c is not None:
                    item, first = c
                    params = item["sig"]["inputs"][first:]
                    args = n.get("args") or []
                    sub_env = {}
                    for prm, a in zip(params, args):
                        a0 = _strip_refs(a)
                        pn = prm.get("pat", {}).get("name") if prm.get("pat", {}).get("k") == "ident" else None
                        if a0.get("k") == "path" and a0["p"] in env:
                            if pn is None:
                                self.outside.append(expr_text(n))
                            else:
                                sub_env[pn] = env[a0["p"]]
                        elif _is_bitnode(a0) and mentions(a0):
                            try:
                                pv = bf.provenance(a0, env)
                                self.roots.append((a0, pv))
                                if pn is not None:
                                    sub_env[pn] = pv
                            except bf.BitflowError as ex:
                                self.problems.append(str(ex))
                        else:
                            rec(a, False)
                    if k == "mcall":
                        rec(n["recv"], False)
                    if sub_env:
                        key = (id(item), tuple(sorted((kk, tuple(map(str, vv)) if isinstance(vv, list) else str(vv)) for kk, vv in sub_env.items())))
                        if depth >= self.max_depth:
                            self.outside.append(expr_text(n) + " (helper nesting too deep)")
                        elif key not in self.visited:
                            self.visited.add(key)
                            self.scan(item["body"], sub_env, depth + 1)
                    return
            if k == "call" and n["f"].get("k") == "path" and n["f"]["p"] == self.want_call:
                self.calls.append((n, env))
            if "k" in n:
                if k == "path" and n.get("p") in env and not in_root:
                    self.outside.append(n["p"])
                if not in_root and _is_bitnode(n) and mentions(n):
                    try:
                        self.roots.append((n, bf.provenance(n, env)))
                    except bf.BitflowError as ex:
                        self.problems.append(str(ex))
                    in_root = True
            for kk, v in n.items():
                if kk in ("line", "tokens"):
                    continue
                rec(v, in_root)
        rec(nodes, False)


def t5_mouse(ctx, it, consts):
    src = ctx.src
    ref = _ref("sgr_mouse.json")
    bv = ref["button_value"]
    ctx.rule("T5-MOUSE-BITS", "MouseEventMatcher::decode: bit provenance of the modifier / button / wheel expressions over the button value = xterm layout", floor=5)
    ctx.rule("T5-MOUSE-TABLE", "MouseEventMatcher::decode evaluated for every value of the used bits x final M/m: name, modifiers, press flag, column-1, row-1", floor=256)
    md = src.fn("decode", impl_self=r"^MouseEventMatcher$")
    where = "decoder::MouseEventMatcher::decode"
    if md is None:
        ctx.anchor("T5-MOUSE-BITS", where)
        return
    body = md[1]["body"]
    site = ["%s:%d" % (DEC, md[1]["line"])]
    # the variable bound to the first number of the payload
    ev = None
    rest = []
    for st in body["stmts"]:
        pairs = []
        if st["k"] == "let" and st.get("init") is not None:
            if st["pat"].get("k") == "ident":
                pairs = [(st["pat"], st["init"])]
            elif st["pat"].get("k") == "tuple" and st["init"].get("k") == "tuple" and len(st["pat"]["elems"]) == len(st["init"]["elems"]):
                pairs = list(zip(st["pat"]["elems"], st["init"]["elems"]))         # let (event, col, row) = (nums.next()?, ..)
        hit = None
        if ev is None:
            for pt, i in pairs:
                if pt.get("k") == "ident" and i.get("k") == "try" and i["e"].get("k") == "mcall" and i["e"]["m"] == "next":
                    hit = (pt, i)
                    break
        if hit is not None:
            ev = hit[0]["name"]
            rest += [i for pt, i in pairs if i is not hit[1]]
        else:
            rest.append(st)
    if ev is None:
        ctx.anchor("T5-MOUSE-BITS", where + "/first-number")
        return
    env = {ev: bf.sym("b", 64)}
    scan = _BitScan(src, DEC, "MouseEventMatcher", "KeyMod::from_bits")
    scan.scan(rest, env)
    if scan.problems:
        ctx.anchor("T5-MOUSE-BITS", where + "/bit-expression", "bit expression over the button value not understood: %s" % scan.problems[0])
        return
    roots = [r for r, p in scan.roots]
    support = set()
    for r, p in scan.roots:
        support |= {i for (s_, i) in bf.support(p)}
    outside = len(scan.outside)
    ok_uses = outside == 0 and bool(roots)
    ctx.instance("T5-MOUSE-BITS", {"button_value_variable": ev, "bit_expressions": [expr_text(r) for r in roots], "other_uses": outside, "bits_used": sorted(support), "ok": ok_uses})
    if not ok_uses:
        ctx.violation("T5-MOUSE-BITS", where, "button-value-use", "the button value is used outside shift/mask expressions (%d uses: %s): the set of bits it depends on cannot be bounded" % (
            outside, ", ".join(scan.outside[:4])), sites=site)
        return
    known = {0, 1} | {m.bit_length() - 1 for m in bv["modifiers"].values()} | {bv["wheel"].bit_length() - 1, bv["motion"].bit_length() - 1}
    if not support <= known:
        ctx.violation("T5-MOUSE-BITS", where, "unknown-bits", "the decoder looks at bits %s of the button value which have no meaning in the SGR layout" % sorted(support - known), sites=site)
    # modifiers: argument of KeyMod::from_bits
    calls = [c for c, e_ in scan.calls]
    if len(calls) != 1:
        ctx.anchor("T5-MOUSE-BITS", where + "/from_bits")
    else:
        try:
            p = bf.provenance(calls[0]["args"][0], scan.calls[0][1])
            allbits = consts.get("ALL", 0)
            p = [x if (allbits >> i) & 1 else 0 for i, x in enumerate(p)]       # from_bits masks with KeyMod::ALL (T1-KEYMOD checks from_bits)
            for name, mask in sorted(bv["modifiers"].items(), key=lambda kv: kv[1]):
                cb = consts.get(MOD_CONST[name])
                k = cb.bit_length() - 1 if cb else None
                got = p[k] if k is not None and k < len(p) else None
                want = ("b", mask.bit_length() - 1)
                ctx.instance("T5-MOUSE-BITS", {"modifier": name, "KeyMod_bit": k, "comes_from": "button value bit %s" % (got[1] if isinstance(got, tuple) else got), "xterm_mask": mask, "ok": got == want})
                if got != want:
                    ctx.violation("T5-MOUSE-BITS", where, "modifier-" + name,
                                  "%s is bit %d (mask %d) of the SGR button value, but KeyMod::%s is filled from %s (expression %s)" % (
                                      name, mask.bit_length() - 1, mask, MOD_CONST[name], "bit %d" % got[1] if isinstance(got, tuple) else "constant %s" % got, expr_text(calls[0]["args"][0])), sites=site)
            used = {consts.get(MOD_CONST[n], 0).bit_length() - 1 for n in bv["modifiers"]}
            stray = [i for i, x in enumerate(p) if x != 0 and i not in used]
            ctx.instance("T5-MOUSE-BITS", {"other_KeyMod_bits_set_from_button_value": stray, "ok": not stray})
            if stray:
                ctx.violation("T5-MOUSE-BITS", where, "modifier-stray", "KeyMod bits %s are filled from the button value although the layout has only shift/alt/ctrl: %s" % (stray, bf.render(p)), sites=site)
        except bf.BitflowError as ex:
            ctx.anchor("T5-MOUSE-BITS", where + "/from_bits-arg", "modifier expression not understood: %s" % ex)

    # ---- complete table over the used bits ----------------------------------------------------------------------
    top = max(support) if support else 0
    if top > 9:
        ctx.anchor("T5-MOUSE-TABLE", where + "/too-many-bits")
        return
    press = consts.get("PRESS")
    wheel_seen = {}
    x, y = 33, 26
    n_bad = 0
    for e in range(1 << (top + 1)):
        for final in "Mm":
            data = list(("\x1b[<%d;%d;%d%s" % (e, x, y, final)).encode())
            try:
                got = it.call_item(md[1], "MouseEventMatcher", [None, data], DEC)
                evv = got[1][1]
                name = evv.fields["name"].name
                bits = _bits(evv.fields["mode"])
                row, col = evv.fields["pos"].fields["row"], evv.fields["pos"].fields["col"]
                assert got[0] == "Some" and got[1][0] == "TerminalEvent::Mouse"
            except (Unsupported, AttributeError, KeyError, TypeError, IndexError, AssertionError) as ex:
                ctx.anchor("T5-MOUSE-TABLE", where + "/eval", "decode not evaluable for `ESC[<%d;%d;%d%s`: %s" % (e, x, y, final, ex))
                return
            want_bits = (press if final == "M" else 0)
            for mn, mask in bv["modifiers"].items():
                if e & mask:
                    want_bits |= consts.get(MOD_CONST[mn], 0)
            low = e & bv["button_mask"]
            if e & bv["wheel"]:
                wb = bv["wheel_buttons"].get(str(low))
                want_name = None
                if wb is not None:
                    wheel_seen.setdefault(wb, set()).add(name)
                    ok_name = name in WHEEL_NAMES
                else:
                    # buttons 6/7 (horizontal wheel) have no name of their own in the library; whatever it reports for them, it is not
                    # one of the names that denote a different button (left/middle/right) or the vertical wheel
                    ok_name = name not in WHEEL_NAMES and name not in (BUTTON_NAME["left"], BUTTON_NAME["middle"], BUTTON_NAME["right"])
            else:
                want_name = BUTTON_NAME[bv["buttons"][str(low)]]
                ok_name = name == want_name
            ok_pos = (row, col) == (y - 1, x - 1)
            ok = ok_name and bits == want_bits and ok_pos
            ctx.instance("T5-MOUSE-TABLE", {"input": "ESC[<%d;%d;%d%s" % (e, x, y, final), "name": name, "mode_bits": bits, "row": row, "col": col, "ok": ok})
            if ok:
                continue
            n_bad += 1
            inp = "ESC[<%d;%d;%d%s" % (e, x, y, final)
            if not ok_name:
                hw = bool(e & bv["wheel"]) and bv["wheel_buttons"].get(str(low)) is None
                ctx.violation("T5-MOUSE-TABLE", where, "name-" + ("wheel-horizontal" if hw else "wheel" if e & bv["wheel"] else bv["buttons"][str(low)]),
                              "`%s` is a %s event but decodes to %s" % (inp, "horizontal wheel (button 6/7)" if hw else "wheel" if e & bv["wheel"] else want_name, name), sites=site)
            if bits != want_bits:
                diff = bits ^ want_bits
                shape = "press-flag" if diff == press else "modifiers"
                ctx.violation("T5-MOUSE-TABLE", where, shape, "`%s` must carry mode bits %d (shift=4 alt=8 ctrl=16 of the button value, PRESS iff final M) but decodes to bits %d" % (inp, want_bits, bits), sites=site)
            if not ok_pos:
                ctx.violation("T5-MOUSE-TABLE", where, "coordinates", "`%s` is column %d row %d (1-based, column first): expected Position{row: %d, col: %d}, decoded row %d col %d" % (inp, x, y, y - 1, x - 1, row, col), sites=site)
    names = [wheel_seen.get(w, set()) for w in sorted(set(bv["wheel_buttons"].values()))]
    okw = all(len(s) == 1 for s in names) and len(set().union(*names)) == len(names) if names else False
    ctx.instance("T5-MOUSE-BITS", {"wheel_buttons": {w: sorted(wheel_seen.get(w, ())) for w in bv["wheel_buttons"].values()}, "distinct_library_names": okw})
    if not okw:
        ctx.violation("T5-MOUSE-BITS", where, "wheel-names", "wheel buttons 4 and 5 (button value 64 and 65, any modifiers) must map to the two wheel names, one each; got %s" % {w: sorted(s) for w, s in wheel_seen.items()}, sites=site)


def _position_classes(d, cap=6):
    """{length: [byte class at position i]} over all accepted words of an acyclic DFA (None if a word is longer than cap)"""
    res = {}
    bad = [False]

    def dfs(q, path):
        if d.acc[q]:
            cl = res.setdefault(len(path), [0] * len(path))
            for i, a in enumerate(path):
                cl[i] |= d.masks[a]
        if len(path) >= cap:
            if any(t >= 0 for t in d.trans[q]):
                bad[0] = True
            return
        for a, t in enumerate(d.trans[q]):
            if t >= 0:
                dfs(t, path + [a])
    dfs(d.start, [])
    return None if bad[0] else res


def _class_sym(name, mask, width):
    """provenance of a byte known to lie in the class `mask`: bits that are equal in all members are constants"""
    members = [b for b in range(256) if (mask >> b) & 1]
    bits = []
    for i in range(8):
        vals = {(b >> i) & 1 for b in members}
        bits.append(vals.pop() if len(vals) == 1 else (name, i))
    return bits + [0] * (width - 8)


def t5_utf8(ctx):
    src = ctx.src
    where = "decoder::utf8_decode"
    ctx.rule("T5-UTF8", "utf8_decode assembles the RFC 3629 payload bits (lead & mask, then << 6 | cont & 63 per continuation byte) for the byte classes its grammars admit", floor=4)
    fn = src.fn("utf8_decode", file=DEC)
    if fn is None:
        ctx.anchor("T5-UTF8", where)
        return
    site = ["%s:%d" % (DEC, fn[1]["line"])]
    gs = grammar.extract(src)
    classes = {}
    for name, g in sorted(gs.items()):
        if name == "UTF8DFA" or name.startswith("UTF8Matcher"):
            if g.rx is None:
                ctx.anchor("T5-UTF8", "grammar-" + name, "grammar %s not folded: %s" % (name, g.problem))
                return
            pc = _position_classes(g.asbuilt_dfa)
            if pc is None:
                ctx.anchor("T5-UTF8", "grammar-" + name, "grammar %s admits words longer than 6 bytes" % name)
                return
            for L, cl in pc.items():
                cur = classes.setdefault(L, [0] * L)
                for i, m in enumerate(cl):
                    cur[i] |= m
    if not classes:
        ctx.anchor("T5-UTF8", "utf8-grammars")
        return
    # utf8_decode evaluated on one symbolic byte per position (bits fixed by the byte class are constants): whichever way the
    # assembly is written (loop, fold, unrolled, helper), every bit of the result is a constant or one input bit
    bit = _bit_interp(src)
    for L in sorted(classes):
        exp_lead = RFC3629["lead_payload_bits"].get(L)
        if exp_lead is None:
            ctx.instance("T5-UTF8", {"length": L, "ok": False})
            ctx.violation("T5-UTF8", where, "length-%d" % L, "the grammars admit %d-byte characters but RFC 3629 defines 1..4 bytes" % L, sites=site)
            continue
        arg = [bf.Val(_class_sym("b%d" % i, classes[L][i], 8)) for i in range(L)]
        try:
            got = bit.call_item(fn[1], None, [arg], DEC, memo=False)
        except Panic as ex:
            ctx.instance("T5-UTF8", {"length": L, "ok": False, "problem": str(ex)})
            ctx.violation("T5-UTF8", where, "length-%d" % L, "the grammars admit %d-byte characters but utf8_decode panics on that length (%s)" % (L, ex), sites=site)
            continue
        except _BitProblem as ex:
            ctx.instance("T5-UTF8", {"length": L, "ok": False, "problem": str(ex)})
            ctx.violation("T5-UTF8", where, "layout-%d" % L,
                          "%d-byte sequence: the code is not assembled as a pure bit layout of the input bytes (%s); RFC 3629: lead keeps %d bits, each continuation byte 6, shifted by 6" % (L, ex, exp_lead), sites=site)
            continue
        except Unsupported as ex:
            ctx.anchor("T5-UTF8", where + "/shape", "utf8_decode is not evaluable on a %d-byte sequence: %s" % (L, ex))
            return
        if isinstance(got, bf.Val):
            # `char::from(byte)` / `byte as char`: the declared return type is char, the value is the scalar with these bits
            got = ("char", got)
        if not (isinstance(got, tuple) and len(got) == 2 and got[0] == "char" and isinstance(got[1], bf.Val)):
            ctx.instance("T5-UTF8", {"length": L, "ok": False, "result": repr(got)[:80]})
            ctx.violation("T5-UTF8", where, "conversion", "the assembled code is not handed unchanged to char::from_u32 (%d-byte sequence gives %r)" % (L, got), sites=site)
            continue
        cur = bf.zext(got[1].bits, 32)
        want = []
        for i in range(L - 1, 0, -1):
            want += _class_sym("b%d" % i, classes[L][i], 8)[:RFC3629["continuation_payload_bits"]]
        want += _class_sym("b0", classes[L][0], 8)[:exp_lead]
        want += [0] * (32 - len(want))
        ok = cur == want
        ctx.instance("T5-UTF8", {"length": L, "classes": [regex.cls_text(m) for m in classes[L]], "code_bits": bf.render(cur), "rfc3629": bf.render(want), "ok": ok})
        if not ok:
            ctx.violation("T5-UTF8", where, "layout-%d" % L,
                          "%d-byte sequence: code = %s, RFC 3629 says %s (lead keeps %d bits, each continuation byte 6)" % (L, bf.render(cur), bf.render(want), exp_lead), sites=site)


# =====================================================================================================================
# T6
# =====================================================================================================================
def t6(ctx):
    src = ctx.src
    ctx.rule("T6-SELF-DELIMIT", "tagged union of the as-built event grammars: an accepting state with a live continuation carries only the key table's tag", floor=20)
    try:
        gs = grammar.extract(src)
        w = grammar.read_wiring(src)
        names = grammar.event_matcher_names(src)
        named = []
        for n in names:
            g = gs.get(n)
            if g is None or g.rx is None:
                ctx.anchor("T6-SELF-DELIMIT", "grammar-" + n, "grammar %s not folded: %s" % (n, g.problem if g else "missing"))
                return
            named.append((n, regex.build_asbuilt(g.rx, w.model())))
        d = regex.tagged_union(named)
        ext = regex.accepting_extendable(d)
    except Exception as ex:      # grammar.Unfoldable and friends: fail closed
        ctx.anchor("T6-SELF-DELIMIT", "tagged-union", "tagged union not computable: %s" % ex)
        return
    if w.problems:
        ctx.note("T6: wiring templates not read for %s (textbook template used; C15 reports them)" % sorted({c for c, t in w.problems}))
    words = regex.shortest_words(d)
    n_acc = 0
    for q in range(d.n):
        if not d.acc[q]:
            continue
        n_acc += 1
        tags = frozenset(d.tags[q]) if d.tags[q] else frozenset()
        hit = [e for e in ext if e["state"] == q]
        e = hit[0] if hit else None
        ctx.instance("T6-SELF-DELIMIT", {"accepting_word": _bt(words.get(q, b"")), "tags": sorted(tags), "extendable": e is not None,
                                          "extension": _bt(e["extension"]) if e else None})
    seen_words = {e["word"] for e in ext}
    for e in ext:
        others = sorted(set(e["tags"]) - {"BasicEventsMatcher"})
        if others:
            for o in others:
                ctx.violation("T6-SELF-DELIMIT", o, "extendable",
                              "%s accepts `%s` and the union automaton can continue with `%s` to another accepted word (%s): the decoder keeps reading, so the complete report is merged with / delayed by what follows" % (
                                  o, _bt(e["word"]), _bt(e["extension"]), ",".join(sorted(e["ext_tags"]))), sites=[gs[o].site or DEC])
    ctx.note("T6: %d accepting states, %d extendable (all tagged BasicEventsMatcher unless reported): %s" % (
        n_acc, len(seen_words), ", ".join(_bt(e["word"]) for e in ext)))


# =====================================================================================================================
# T7
# =====================================================================================================================
def _locals_in(x, out):
    """locals read by a MIR fragment, as (local, index of the leading field projection or None)"""
    if isinstance(x, dict):
        if "l" in x and isinstance(x["l"], int) and ("p" in x or x.get("k") == "index"):
            p = x.get("p") or []
            fi = p[0].get("i") if p and isinstance(p[0], dict) and p[0].get("k") == "field" and isinstance(p[0].get("i"), int) else None
            out.add((x["l"], fi))
        for k, v in x.items():
            if k not in ("line", "expk", "exp"):
                _locals_in(v, out)
    elif isinstance(x, list):
        for v in x:
            _locals_in(v, out)


def _feeders(b, operand):
    """blocks of the Iterator::next calls whose result flows (through data dependences) into the operand; stops at those calls.
    Field sensitive for tuples / structs built by one aggregate statement: `(a, b, c).1` depends on b only."""
    out = set()
    todo = set()
    _locals_in(operand, todo)
    seen = set()
    while todo:
        l, fi = todo.pop()
        if (l, fi) in seen:
            continue
        seen.add((l, fi))
        if 0 < l <= b.arg_count:
            continue
        defs = b.defs_of(l)
        for bb, si, rv in defs:
            if si == "term":
                if call_matches(rv, NEXT_RX):
                    out.add(bb)
                    continue
                _locals_in(rv.get("args", []), todo)
            elif fi is not None and len(defs) == 1 and rv.get("k") == "agg" and not rv.get("is_enum") and rv.get("ak") in ("tuple", "adt") and fi < len(rv.get("fields") or []):
                _locals_in(rv["fields"][fi], todo)
            else:
                _locals_in(rv, todo)
    return out


def _agg_sources(b, operand, adt, depth=0, seen=None):
    """(bb, si) of the `adt` aggregate statements whose value the operand can hold, looking through whole-local moves, `Some(x)`/`Ok(x)` wrapping,
    `?` (Try::branch / from_residual) and payload projections (how a value built inside an expanded helper `-> Option<adt>` reaches the caller's
    local); payload-less aggregates (`None`) on the way are skipped.  None when some definition is not understood."""
    seen = set() if seen is None else seen
    if operand.get("k") not in ("copy", "move") or depth > 40:
        return None
    l = operand["place"]["l"]
    if l in seen:
        return set()
    seen.add(l)
    if 0 < l <= b.arg_count:
        return None
    out = set()
    for bb, si, rv in b.defs_of(l):
        if si == "term":
            if call_matches(rv, r"FromResidual.*::from_residual$"):
                r_ = set()         # the early exit of `?`: None / Err(..), carries no value of the success type
            elif call_matches(rv, r"Try>?::branch$|Option::<T>::(ok_or|ok_or_else)$|Result::<T, E>::ok$") and rv["args"]:
                r_ = _agg_sources(b, rv["args"][0], adt, depth + 1, seen)
            else:
                return None
        elif rv["k"] == "use" and rv["a"]["k"] in ("copy", "move"):
            r_ = _agg_sources(b, rv["a"], adt, depth + 1, seen)
        elif rv["k"] == "agg" and rv.get("ak") == "adt" and rv.get("adt") == adt:
            r_ = {(bb, si)}
        elif rv["k"] == "agg" and rv.get("ak") == "adt" and len(rv["fields"]) == 1 and rv["fields"][0]["k"] in ("copy", "move"):
            r_ = _agg_sources(b, rv["fields"][0], adt, depth + 1, seen)
        elif rv["k"] == "agg" and rv.get("ak") == "adt" and not rv["fields"]:
            r_ = set()
        else:
            return None
        if r_ is None:
            return None
        out |= r_
    return out


def _next_ordinals(b):
    """{block of a next() call: (iterator place, ordinal among the calls on that iterator by dominance)}"""
    cfg = b.cfg()
    groups = {}
    for bb, t in b.calls():
        if call_matches(t, NEXT_RX) and t["args"]:
            groups.setdefault(arg_place(b, t, 0), []).append(bb)
    out = {}
    for place, bbs in groups.items():
        for bb in bbs:
            k = sum(1 for o in bbs if o != bb and cfg.dominates(o, bb))
            out[bb] = (place, k)
        if sorted(k for (p, k) in (out[x] for x in bbs)) != list(range(len(bbs))):
            return None
    return out


def _num_rx():
    return regex.Rx("some", (regex.Rx("pred", (), regex.cls(b"0123456789")),))


def _form_rx(parts):
    """parts: bytes literals and 'N' (a decimal number) / ('alt', bytes) one byte of a set"""
    args = []
    for p in parts:
        if p == "N":
            args.append(_num_rx())
        elif isinstance(p, tuple):
            args.append(regex.Rx("pred", (), regex.cls(p[1])))
        else:
            args.append(regex.Rx("lit", (), p))
    return regex.Rx("seq", tuple(args))


T7_FORMS = {
    # matcher: (documented form, payload numbers, front bytes before the first number, back bytes after the last, citation key)
    "CursorPositionMatcher": ([b"\x1b[", "N", b";", "N", b"R"], 2, 2, 1),
    "MouseEventMatcher": ([b"\x1b[<", "N", b";", "N", b";", "N", ("alt", b"Mm")], 3, 3, 1),
    "DecModeMatcher": ([b"\x1b[?", "N", b";", "N", b"$y"], 2, 3, 2),
    "TermSizeMatcher": ([b"\x1b[8;", "N", b";", "N", b"t", b"\x1b[4;", "N", b";", "N", b"t"], 2, 3, 1),   # per ESC-split piece `[8;h;wt`
}


def _t7_fields(c, name, path, b, specs):
    """field order of one decode body (plain or with helpers inlined); reports into the recorder / context c"""
    site = [b.loc]
    ords = _next_ordinals(b)
    if ords is None:
        c.anchor("T7-FIELD-ORDER", path + "/next-order", "the next() calls on one iterator are not totally ordered by dominance")
        return
    form, count, front, back = T7_FORMS[name]
    # numbers iterators: place -> (numbers_decode call, payload expr)
    nd = {}
    for bb, t in b.calls():
        if call_matches(t, r"^decoder::numbers_decode$"):
            dest = t["dest"]
            if not dest["p"]:
                nd["_%d" % dest["l"]] = (bb, t)
    for place, (bb, t) in sorted(nd.items()):
        pe = expr(b, t["args"][0])
        sep = expr(b, t["args"][1])
        m = re.match(r"^index::index\((?P<base>.*), Range\{start: (?P<s>\d+), end: Sub\(slice::len\((?P<base2>.*)\), (?P<e>\d+)\)\}\)$", pe)
        ok = bool(m) and m.group("base") == m.group("base2") and int(m.group("s")) == front and int(m.group("e")) == back and sep == "59"
        c.instance("T7-FIELD-ORDER", {"fn": path, "numbers_iterator": place, "payload": pe[:160], "separator": sep, "expected_slice": "[%d..len-%d]" % (front, back), "ok": ok})
        if not ok:
            c.violation("T7-FIELD-ORDER", path, "payload-slice",
                          "numbers are parsed from %s split at %s; the documented form has %d bytes before the first and %d after the last number, separated by ';'" % (pe[:120], sep, front, back), sites=site)
    aggs = []
    for i, si, s in b.assigns():
        rv = s["rv"]
        if rv["k"] == "agg" and rv.get("ak") == "adt":
            aggs.append((i, si, s))
    # TermSize: which Size aggregate is `cells` / `pixels`, and which chunk feeds it
    role_of = {}
    if name == "TermSizeMatcher":
        ts = [(i, si, s) for i, si, s in aggs if s["rv"]["adt"] == "terminal::TerminalSize"]
        if len(ts) != 1:
            c.anchor("T7-FIELD-ORDER", path + "/TerminalSize")
            return
        rv = ts[0][2]["rv"]
        for fname, f in zip(rv["fnames"], rv["fields"]):
            srcs = _agg_sources(b, f, "terminal::Size")
            if srcs is not None and len(srcs) == 1:
                role_of[next(iter(srcs))] = fname
    used_specs = set()
    for i, si, s in aggs:
        rv = s["rv"]
        for k, (adt, variant, fields, one_based, role) in enumerate(specs):
            if rv["adt"] != adt or (variant is not None and rv.get("variant") != variant):
                continue
            if role is not None and role_of.get((i, si)) != role:
                continue
            if k in used_specs:
                c.anchor("T7-FIELD-ORDER", path + "/two-aggregates-" + adt.split("::")[-1])
                continue
            used_specs.add(k)
            for fname, f in zip(rv["fnames"], rv["fields"]):
                if fname not in fields:
                    continue
                fb = _feeders(b, f)
                got = sorted(ords.get(x, ("?", -1)) for x in fb)
                label = "%s%s.%s" % (adt.split("::")[-1], ("::" + variant) if variant else "", fname) + ((" (" + role + ")") if role else "")
                ok = len(got) == 1 and got[0][1] == fields[fname] and got[0][0] in nd
                chunk_ok = True
                chunk = None
                if ok and name == "TermSizeMatcher":
                    cb = _feeders(b, nd[got[0][0]][1]["args"][0])
                    chunk = sorted(ords.get(x, ("?", -1))[1] for x in cb)
                    chunk_ok = chunk == [{"cells": 1, "pixels": 2}[role]]
                base_ok = True
                if ok and one_based:
                    base_ok = re.match(r"^num::checked_sub\(.*, 1\)@(Continue|Some)\.0$|^Sub\(.*, 1\)$", expr(b, f)) is not None
                c.instance("T7-FIELD-ORDER", {"fn": path, "field": label, "fed_by_number": [g_[1] for g_ in got], "documented_number": fields[fname],
                                                "chunk": chunk, "minus_one": base_ok if one_based else None, "ok": ok and chunk_ok and base_ok})
                if not ok:
                    c.violation("T7-FIELD-ORDER", path, "field-" + label.replace(" ", ""),
                                  "%s must receive number #%d of the payload (%s) but is computed from number(s) %s" % (
                                      label, fields[fname], "".join(p if p == "N" else (_bt(p) if isinstance(p, bytes) else "(M|m)") for p in form), [g_[1] for g_ in got]), sites=site)
                elif not chunk_ok:
                    c.violation("T7-FIELD-ORDER", path, "chunk-" + role, "%s must be read from the %s report (ESC-separated piece %d) but comes from piece %s" % (
                        label, "`8;h;w t`" if role == "cells" else "`4;h;w t`", {"cells": 1, "pixels": 2}[role], chunk), sites=site)
                elif not base_ok:
                    c.violation("T7-FIELD-ORDER", path, "base-" + label.replace(" ", ""), "%s is a 1-based coordinate in the report and must be stored minus one; found %s" % (label, expr(b, f)[:80]), sites=site)
    for k, (adt, variant, fields, one_based, role) in enumerate(specs):
        if k not in used_specs:
            c.anchor("T7-FIELD-ORDER", path + "/aggregate-" + adt.split("::")[-1] + ("-" + role if role else ""), "the aggregate %s built by %s was not found" % (adt, path))


def t7(ctx):
    prog, src = ctx.prog, ctx.src
    xr = _ref("xterm_keys.json")
    mr = _ref("sgr_mouse.json")
    ctx.rule("T7-FORM", "the as-built grammars of the four numeric reports equal their documented forms (numbers = [0-9]+)", floor=4)
    ctx.rule("T7-FIELD-ORDER", "the n-th number of the payload reaches the documented event field (order of Iterator::next calls feeding each aggregate field; payload slice = the numbers)", floor=16)
    gs = grammar.extract(src)
    for name, (form, count, front, back) in T7_FORMS.items():
        g = gs.get(name)
        if g is None or g.rx is None:
            ctx.anchor("T7-FORM", "grammar-" + name)
            continue
        try:
            dref = regex.compile_rx(_form_rx(form))
            diff = regex.distinguish(g.asbuilt_dfa, dref)
        except Exception as ex:
            ctx.anchor("T7-FORM", "grammar-" + name, "form of %s not comparable: %s" % (name, ex))
            continue
        ctx.instance("T7-FORM", {"matcher": name, "form": "".join(p if p == "N" else (_bt(p) if isinstance(p, bytes) else "(%s)" % "|".join(chr(c) for c in p[1])) for p in form), "equal": diff is None})
        if diff is not None:
            wd, in_repo, in_ref = diff
            ctx.violation("T7-FORM", name, "grammar-form",
                          "`%s` is %s by the matcher but %s by the documented form of the report" % (_bt(wd), "accepted" if in_repo else "rejected", "accepted" if in_ref else "rejected"), sites=[g.site or DEC])

    cpr = xr["reports"]["cursor_position"]["order"]
    size_order = xr["reports"]["text_area_chars"]["order"]
    mparams = mr["form"]["parameters"]
    want = {
        "CursorPositionMatcher": [("terminal::Position", None, {"row": cpr.index("row"), "col": cpr.index("col")}, True, None)],
        "MouseEventMatcher": [("terminal::Position", None, {"row": mparams.index("row"), "col": mparams.index("column")}, True, None),
                              ("terminal::Mouse", None, {"mode": mparams.index("button")}, False, None)],
        "DecModeMatcher": [("terminal::TerminalEvent", "DecMode", {"mode": 0, "status": 1}, False, None)],
        "TermSizeMatcher": [("terminal::Size", None, {"height": size_order.index("height"), "width": size_order.index("width")}, False, "cells"),
                            ("terminal::Size", None, {"height": size_order.index("height"), "width": size_order.index("width")}, False, "pixels")],
    }
    for name, specs in want.items():
        path = "<decoder::%s as decoder::Matcher>::decode" % name
        plain = prog.body(path)
        if plain is None:
            ctx.anchor("T7-FIELD-ORDER", path)
            continue
        # the function as written; when that does not satisfy the rule, the function with its small private single-caller helpers
        # expanded in place (prog.inlined): extracting a helper does not change which number reaches which field
        rec = _Recorder()
        _t7_fields(rec, name, path, plain, specs)
        # (then also helpers shared with other functions: multi=True)
        for multi in (False, True):
            if not any(k in ("violation", "anchor") for k, a_, kw in rec.items):
                break
            inl = prog.inlined(path, multi=multi)
            if inl is not None and inl is not plain:
                rec2 = _Recorder()
                _t7_fields(rec2, name, path, inl, specs)
                if not any(k in ("violation", "anchor") for k, a_, kw in rec2.items):
                    rec = rec2
                elif not any(k == "violation" for k, a_, kw in rec.items) and any(k == "violation" for k, a_, kw in rec2.items):
                    rec = rec2      # the expanded view names the wrong field; the plain one only misses the aggregate
        rec.replay(ctx)


# =====================================================================================================================

# =====================================================================================================================
# T8  OSC colour report components (rgb:h/hh/hhh/hhhh)
# =====================================================================================================================
def t8_color(ctx, it):
    """parse_color's component conversion, evaluated over all 1-, 2-, 3-digit values and, for 4 digits, every high byte with the low bytes
    00 01 7f 80 fe ff: an n-digit component (n >= 2) yields its most significant 8 bits, one digit h yields hh — the convention of the
    12-bit arm, and the one that returns exactly the 8-bit value a terminal replicates into 16 bits"""
    src = ctx.src
    ctx.rule("T8-COLOR-COMPONENT", "parse_color: an n-digit hex component yields its most significant 8 bits (n = 2, 3, 4) resp. hh for a single digit h; "
                                   "0 and 5+ digits are rejected; the three components fill red, green, blue in order", floor=5)
    r = src.fn("parse_color", file=DEC)
    if r is None:
        ctx.anchor("T8-COLOR-COMPONENT", "decoder::parse_color/parse_component")
        return
    item = r[1]
    site = ["%s:%d" % (DEC, item["line"])]
    ctx.trust("RGBA::from_str", "parse_color first tries rasterize's `str::parse::<RGBA>` which accepts only `#hex` and SVG colour names (read once in rasterize-0.6.9/src/color.rs): an `rgb:` string falls through")
    it.extern_fns["usize::from_str_radix"] = lambda a: ("Ok", int(a[0], a[1])) if isinstance(a[0], str) and re.fullmatch(r"[0-9a-fA-F]+", a[0]) and a[1] == 16 else ("Err", "ParseIntError")
    for ty in ("u8", "u16", "u32", "u64"):
        it.extern_fns[ty + "::from_str_radix"] = (lambda bits: lambda a: ("Ok", int(a[0], a[1])) if isinstance(a[0], str) and re.fullmatch(r"[0-9a-fA-F]+", a[0]) and a[1] == 16
                                                   and int(a[0], 16) < (1 << bits) else ("Err", "ParseIntError"))(int(ty[1:]))
    it.extern_methods["parse"] = lambda recv, args: ("Err", "ColorError") if isinstance(recv, str) and recv.startswith("rgb:") else _unsup("str::parse of %r" % (recv,))

    def ev(text):
        got = it.call_item(item, None, ["rgb:%s/%s/%s" % (text, text, text)], file=DEC, memo=False)
        if got == NONE:
            return NONE
        if isinstance(got, tuple) and len(got) == 2 and got[0] == "Some" and isinstance(got[1], tuple) and len(got[1]) == 5 and got[1][0] == "RGBA" \
                and got[1][1] == got[1][2] == got[1][3] and got[1][4] == 255:
            return some(got[1][1])
        return got

    for n in (1, 2, 3, 4):
        if n < 4:
            vals = range(16 ** n)
        else:
            vals = [hi << 8 | lo for hi in range(256) for lo in (0x00, 0x01, 0x7f, 0x80, 0xfe, 0xff)]
        bad = None
        cnt = 0
        try:
            for v in vals:
                text = "%0*x" % (n, v)
                want = some(v * 17 if n == 1 else v >> (4 * (n - 2)))
                got = ev(text)
                cnt += 1
                if got != want:
                    bad = (text, got, want)
                    break
        except Unsupported as ex:
            ctx.anchor("T8-COLOR-COMPONENT", "decoder::parse_color/eval", "parse_color not evaluable for %d-digit components: %s" % (n, ex))
            return
        ctx.instance("T8-COLOR-COMPONENT", {"digits": n, "values_evaluated": cnt, "first_mismatch": None if bad is None else "%s -> %r, expected %r" % bad})
        if bad is not None:
            ctx.violation("T8-COLOR-COMPONENT", "decoder::parse_color", "digits-%d" % n,
                          "component `%s` of an `rgb:` colour report decodes to %r, its most significant 8 bits are %r (the other digit counts truncate; "
                          "`rgb:%s/..` is not reported as the transmitted colour)" % (bad[0], bad[1], bad[2], bad[0]), sites=site)
    for text in ("", "fffff"):
        try:
            got = ev(text)
        except Unsupported as ex:
            ctx.anchor("T8-COLOR-COMPONENT", "decoder::parse_color/eval", "parse_color not evaluable for %r: %s" % (text, ex))
            return
        if got != NONE:
            ctx.violation("T8-COLOR-COMPONENT", "decoder::parse_color", "digits-%d" % len(text), "a component with %d digits is accepted (%r)" % (len(text), got), sites=site)
    try:
        got = it.call_item(item, None, ["rgb:12/345/6789"], file=DEC, memo=False)
    except Unsupported as ex:
        got = "not evaluable (%s)" % ex
    ok = got == some(("RGBA", 0x12, 0x34, 0x67, 255))
    ctx.instance("T8-COLOR-COMPONENT", {"input": "rgb:12/345/6789", "decoded": repr(got), "channels_in_order_red_green_blue_opaque": ok})
    if not ok:
        ctx.violation("T8-COLOR-COMPONENT", "decoder::parse_color", "channel-order", "`rgb:12/345/6789` must decode to RGBA(0x12, 0x34, 0x67, 255) (red/green/blue in order, opaque); got %r" % (got,), sites=site)


# =====================================================================================================================
# T9  free text carried by an event = the whole span between the fixed delimiters
# =====================================================================================================================
_SEP_NAME = {0x3b: "semicolon", 0x2c: "comma", 0x3d: "equals", 0x3a: "colon"}


class _MapV(dict):
    """BTreeMap model: frozen key -> value"""


class _TextIt(_It):
    """+ struct-like enum variant literals (`TerminalEvent::KittyImage { id, .. }` -> StructV("TerminalEvent::KittyImage")), identity conversions
    between owned and borrowed text / byte strings"""

    def _e_struct(self, e, fr):
        segs = [x for x in e["path"].split("::") if x]
        if len(segs) >= 2 and segs[-1] not in self._structs:
            ty = fr.self_ty if segs[-2] == "Self" else segs[-2]
            if ty in self._enums and segs[-1] in self._enums[ty] and not e.get("rest"):
                return StructV(ty + "::" + segs[-1], {f["name"]: self.eval(f["e"], fr) for f in e["fields"]})
        return super()._e_struct(e, fr)

    def _e_call(self, e, fr):
        f = e["f"]
        if f.get("k") == "path" and f["p"] not in self.extern_fns and f["p"] not in fr.vars:
            q = re.sub(r"^(::)?(std|core|alloc)::(\w+::)*(?=\w+::\w+$)", "", f["p"])         # std::str::from_utf8 -> str::from_utf8
            if q in self.extern_fns:
                return self.extern_fns[q]([self.place(a, fr) for a in e.get("args") or []])
        return super()._e_call(e, fr)

    def _closure_call(self, f, args):
        if isinstance(f, EnumV) and "%s::%s" % (f.ty, f.name) in self.extern_fns:          # `.map(TerminalEvent::Paste)`: a tuple variant used as a function
            return self.extern_fns["%s::%s" % (f.ty, f.name)](list(args))
        return super()._closure_call(f, args)

    def std_method(self, recv, m, a):
        if not a and isinstance(recv, (str, list, bytes)) and m in ("into", "into_owned", "to_vec", "into_boxed_str", "into_string", "as_slice"):
            return copyv(recv) if m == "to_vec" else recv
        if not a and isinstance(recv, str) and m in ("to_string", "to_owned", "as_str", "clone", "as_ref", "borrow"):
            return recv                      # (`trim` is deliberately not an identity here)
        if isinstance(recv, bool) and len(a) == 1 and m in ("then", "then_some"):
            return NONE if not recv else some(self._closure_call(a[0], []) if m == "then" else a[0])
        if isinstance(recv, (list, bytes)) and m in ("rsplitn", "rsplit") and len(a) == (2 if m == "rsplitn" else 1) and isinstance(a[-1], (ClosureV, FnRef, LocalFn)):
            limit = a[0] if m == "rsplitn" else len(recv) + 2          # pieces from the back, the last one is the unsplit front
            out, cur = [], []
            for x in reversed(list(recv)):
                if len(out) < limit - 1 and self._truth(a[-1], [x]):
                    out.append(cur[::-1])
                    cur = []
                else:
                    cur.append(x)
            out.append(cur[::-1])
            return out
        return super().std_method(recv, m, a)


def _text_interp(src):
    it = _std_externs(_TextIt(src))

    def lossy(a):
        return bytes(a[0]).decode("utf-8", "replace")

    def strict(a):
        try:
            return ("Ok", bytes(a[0]).decode("utf-8"))
        except (UnicodeDecodeError, ValueError, TypeError):
            return ("Err", "Utf8Error")
    for pth in ("String::from_utf8_lossy",):
        it.extern_fns[pth] = lossy
    for pth in ("String::from_utf8", "str::from_utf8"):
        it.extern_fns[pth] = strict
    it.extern_fns["String::from"] = lambda a: a[0] if isinstance(a[0], str) else _unsup("String::from of %r" % (a[0],))
    it.extern_fns["Vec::from"] = lambda a: list(a[0]) if isinstance(a[0], (list, bytes)) else _unsup("Vec::from of %r" % (a[0],))
    it.extern_fns["char::from"] = lambda a: ("char", a[0])
    it.extern_fns["TerminalEvent::Paste"] = lambda a: ("TerminalEvent::Paste", a[0])
    it.extern_fns["TerminalEvent::Termcap"] = lambda a: ("TerminalEvent::Termcap", a[0])
    it.extern_fns["BTreeMap::new"] = lambda a: _MapV()

    def insert(recv, args):
        if not isinstance(recv, _MapV):
            _unsup("insert on %s" % type(recv).__name__)
        k = freeze(args[0])
        old = recv.get(k)
        recv[k] = args[1]
        return NONE if old is None else some(old)
    it.extern_methods["insert"] = insert
    return it


def _text_corpus(admit):
    """texts (bytes) grouped by the byte class they exercise; `admit` = the bytes the grammar admits inside the text.
    Every separator byte a decoder may split on occurs 0, 1, 2 and 3 times, at the start, inside, at the end and adjacent."""
    ascii_ok = [b for b in sorted(admit) if b < 0x80]
    groups = [("empty / OK / no separator", [b"", b"OK", b"x", b"ENOENT no such image", b"OKAY", b"NOK", b"ok"])]
    groups.append(("each admissible ASCII byte alone", [bytes([b]) for b in ascii_ok]))
    groups.append(("each admissible ASCII byte inside", [b"a" + bytes([b]) + b"z" for b in ascii_ok]))
    for sb in sorted(_SEP_NAME):
        if sb not in admit:
            continue
        s1 = bytes([sb])
        ts = []
        for n in (1, 2, 3):
            ts += [b"e" + (s1 + b"m") * n, s1 * n, s1 * n + b"t", b"t" + s1 * n, b"OK" + s1 * n, (s1 + b"OK") * n, b"OK" + (s1 + b"OK") * n]
        groups.append(("separator %s 1, 2 and 3 times" % _SEP_NAME[sb], ts))
    mixed = [b"EBADF: bad fd; key=value, retry", b"i=1,p=2;OK", b"x,i=9", b"x,p=9;i=9", b"a=b=c", b"k=v;k=v;k=v", b"1;2;3", b"::;;,,==", b"=;=,", b"OK;i=5,p=6"]
    groups.append(("separators mixed / text that looks like a control part", [t for t in mixed if all(c in admit for c in t)]))
    utf = [u"é".encode("utf-8"), u"€".encode("utf-8"), u"\U0001d11e".encode("utf-8"), u"a;é=€,\U0001d11e:z".encode("utf-8"), u"é;é;é".encode("utf-8")]
    groups.append(("multi-byte UTF-8 text", [t for t in utf if all(c in admit for c in t)]))
    return groups


def _span_shape(got, want):
    """name of the way `got` differs from the transmitted span `want` (both bytes)"""
    if got is None:
        return "reported-without-text"
    if len(got) < len(want) and want.startswith(got) and want[len(got)] in _SEP_NAME:
        return "cut-at-" + _SEP_NAME[want[len(got)]]
    if len(got) < len(want) and want.endswith(got) and want[len(want) - len(got) - 1] in _SEP_NAME:
        return "head-dropped-at-" + _SEP_NAME[want[len(want) - len(got) - 1]]
    for sb, nm in sorted(_SEP_NAME.items()):
        if got == want.replace(bytes([sb]), b""):
            return "drops-" + nm
    return "text-differs"


def t9_text(ctx):
    """KittyImageMatcher / BracketedPasteMatcher::decode evaluated as a whole (sa.consteval) on sequences the as-built grammar accepts:
    the text field of the event is the entire span between the fixed introducer / first control terminator and the final delimiter."""
    src = ctx.src
    ctx.rule("T9-TEXT-SPAN", "free text carried by an event (kitty image response message, bracketed paste) is the WHOLE transmitted span between the fixed "
                             "delimiters: decode evaluated on grammar-accepted sequences whose text holds every admissible ASCII byte and each separator byte "
                             "(; , = :) 0, 1, 2 and 3 times; kitty id / placement are the transmitted numbers whatever the text contains", floor=18)
    gs = grammar.extract(src)
    it = _text_interp(src)
    specs = [
        # matcher, prefixes (bytes before the text, with what they denote), suffix, extraction
        ("KittyImageMatcher", [(b"\x1b_Gi=7;", {"id": 7, "placement": NONE}), (b"\x1b_Gi=7,p=2;", {"id": 7, "placement": some(2)}),
                               (b"\x1b_Ga=q,i=31,p=4;", {"id": 31, "placement": some(4)})], b"\x1b\\"),
        ("BracketedPasteMatcher", [(b"\x1b[200~", {})], b"\x1b[201~"),
    ]
    for name, prefixes, suffix in specs:
        where = "decoder::%s::decode" % name
        g = gs.get(name)
        fn = src.fn("decode", impl_self="^%s$" % name)
        if g is None or g.rx is None or fn is None:
            ctx.anchor("T9-TEXT-SPAN", where, "%s: %s" % (name, "decode not found" if fn is None else "grammar not folded (%s)" % (g.problem if g else "missing")))
            continue
        site = ["%s:%d" % (DEC, fn[1]["line"])]
        d = g.asbuilt_dfa
        admit = {b for b in range(256) if regex.accepts(d, prefixes[0][0] + b"a" + bytes([b]) + b"z" + suffix)}
        if not all(regex.accepts(d, p + suffix) or regex.accepts(d, p + b"x" + suffix) for p, _ in prefixes) or not admit:
            ctx.anchor("T9-TEXT-SPAN", where + "/form", "the grammar of %s no longer has the form <introducer> text <terminator> the rule builds its inputs from" % name)
            continue
        seen = set()
        for gi, (label, texts) in enumerate(_text_corpus(admit)):
            n_eval, bad = 0, None
            for ti, text in enumerate(texts):
                for pi, (prefix, fields) in enumerate(prefixes):
                    if pi and (ti + pi) % len(prefixes) and len(texts) > 12:
                        continue                      # the large per-byte groups rotate through the control parts
                    data = prefix + text + suffix
                    if not regex.accepts(d, data):
                        continue
                    try:
                        ev = it.call_item(fn[1], name, [None, list(data)], DEC, memo=False)
                    except Panic as ex:
                        ev = "panic (%s)" % ex
                    except (Unsupported, TypeError, KeyError, IndexError, AttributeError, ValueError) as ex:
                        ctx.anchor("T9-TEXT-SPAN", where + "/eval", "%s::decode is not evaluable on `%s`: %s: %s" % (name, _bt(data), type(ex).__name__, ex))
                        bad = "anchor"
                        break
                    n_eval += 1
                    want = text.decode("utf-8")
                    got, others = _t9_event_text(name, ev)
                    problems = []
                    if name == "KittyImageMatcher":
                        ok_text = (got is None and text == b"OK") if (got is None or text == b"OK") else got == want
                        for fname, fv in fields.items():
                            if others is not None and others.get(fname) != fv:
                                problems.append((fname, "`%s` carries %s %r but decodes with %s = %r" % (_bt(data), fname, fv, fname, others.get(fname))))
                    else:
                        ok_text = got == want
                    if others is None:
                        problems.append(("rejected", "`%s` is a complete %s sequence but decodes to %r" % (_bt(data), name[:-7], ev)))
                    elif not ok_text:
                        shape = _span_shape(None if got is None else got.encode("utf-8"), text)
                        problems.append((shape, "`%s` transmits the text `%s` but the event carries %s: the text of the event must be the whole span between `%s` and `%s`" % (
                            _bt(data), _bt(text), "no text" if got is None else "`%s`" % _bt(got.encode("utf-8")), _bt(prefix), _bt(suffix))))
                    for shape, msg in problems:
                        bad = bad or msg
                        if shape not in seen:
                            seen.add(shape)
                            ctx.violation("T9-TEXT-SPAN", where, shape, msg, sites=site)
                if bad == "anchor":
                    break
            if bad == "anchor":
                break
            ctx.instance("T9-TEXT-SPAN", {"fn": where, "texts": label, "sequences_evaluated": n_eval, "first_mismatch": bad, "ok": bad is None})


def _t9_event_text(name, ev):
    """(text carried by the event | None, other fields | None when the value is not the expected event)"""
    if name == "KittyImageMatcher":
        if isinstance(ev, tuple) and len(ev) == 2 and ev[0] == "Some" and isinstance(ev[1], StructV) and ev[1].ty == "TerminalEvent::KittyImage":
            f = ev[1].fields
            err = f.get("error")
            if err == NONE:
                return None, f
            if isinstance(err, tuple) and len(err) == 2 and err[0] == "Some" and isinstance(err[1], str):
                return err[1], f
        return None, None
    if isinstance(ev, tuple) and len(ev) == 2 and ev[0] == "Some" and isinstance(ev[1], tuple) and len(ev[1]) == 2 and ev[1][0] == "TerminalEvent::Paste" and isinstance(ev[1][1], str):
        return ev[1][1], {}
    return None, None


def run(ctx):
    ctx.explanation = (
        "Decided (tables and layouts, each row / bit / state enumerated): T1 the folded key table of basic_events_nfa is a function and agrees with the "
        "xterm/VT220/rxvt/fixterms reference on every shared byte string incl. the modifier parameter (m -> KeyMod::from_bits(m-1)) and KeyMod's bit "
        "values; T2 DecMode/DecModeStatus::from_usize list every enumerator, compare discriminants, discriminants = DEC numbers; T3 CUBE/GREYS/COLORS "
        "and the SGR colour arms (named colours for every code 0..255, all 256 palette indices); T4 kitty functional keys, private-use block, modifier "
        "field; T5 SGR mouse bit layout (provenance + complete enumeration over the used bits x M/m) and UTF-8 bit assembly vs RFC 3629; T6 only "
        "key-table states of the tagged union automaton are extendable (a complete parsed report is never merged with what follows); T7 the four numeric "
        "report grammars equal their documented forms and the n-th payload number reaches the documented field; T8 the `rgb:` colour component conversion "
        "of OSC colour reports (all 1-3 digit values, all high bytes of 4-digit values); T9 the free text of a kitty image response / bracketed paste is the "
        "whole span between the fixed delimiters (decode evaluated on grammar-accepted sequences: every admissible ASCII byte, the separator bytes ; , = : "
        "0-3 times, control-part look-alikes, multi-byte UTF-8), kitty id / placement unaffected by the text. NOT decided: that numeric field values "
        "are copied unchanged for every value (number_decode, iterator plumbing and overflow behaviour are value-level: C02 covers their safety), "
        "texts that are not valid UTF-8, the rest of the payloads of OSC colour / termcap / device attribute reports, and the decoder loop itself (C03).")
    ctx.assume("a reference row constrains only byte strings / codes the repository also maps; the wheel direction names are the library's own (its test pins 65 -> MouseWheelUp)")
    ctx.trust("numbers_decode-model", "the evaluations model numbers_decode as: split at the separator, keep the pieces that are decimal numbers, in order, and number_decode as the decimal value of an all-digit string (C02 checks number_decode itself)")
    ctx.trust("sa/grammar.py fold", "the key table and grammars are the denotation of decoder.rs computed by sa.grammar (validated by C15's rules)")
    it = _interp(ctx.src)
    try:
        consts = _keymod_consts(it)
    except Unsupported as ex:
        ctx.rule("T1-KEYMOD", "KeyMod constants", floor=1)
        ctx.anchor("T1-KEYMOD", "keys::KeyMod/constants", "KeyMod's constants not evaluable: %s" % ex)
        consts = {}
    parts = [("T1", lambda: t1(ctx, it, consts)), ("T2", lambda: t2(ctx, it)), ("T3", lambda: t3(ctx, it)), ("T4", lambda: t4(ctx, it, consts)),
             ("T5-MOUSE", lambda: t5_mouse(ctx, it, consts)), ("T5-UTF8", lambda: t5_utf8(ctx)), ("T6", lambda: t6(ctx)), ("T7", lambda: t7(ctx)), ("T8", lambda: t8_color(ctx, it)), ("T9", lambda: t9_text(ctx))]
    for name, fn in parts:
        try:
            fn()
        except Exception as ex:       # fail closed, keep the other families running
            import traceback
            ctx.note("%s: %s" % (name, traceback.format_exc().strip().splitlines()[-1]))
            ctx.violation("ENGINE", "ANCHOR", name + "-exception", "rule family %s met a construct it does not understand (fail closed): %s: %s" % (name, type(ex).__name__, ex))
    ctx.exhaustive = {
        "T1 key table rows": True, "T2 enumerators": True, "T3 SGR codes 0..255 and palette indices 0..255": True, "T4 private-use block": True,
        "T5 mouse button-value bits x final byte": True, "T6 accepting states of the union automaton": True,
        "T9 admissible ASCII bytes of the text (alone and inside) and separator multiplicities 0..3": True, "T9 all texts": False,
        "numeric field values": False,
    }
