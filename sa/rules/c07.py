"""C07 — surface views are exact, non-aliasing windows: memory-safety and containment clauses."""
import re
from ..mir import call_matches, callee_name, op_local
from ..flow import expr, place_expr, origins, resolve_place
from ..discharge import Engine
from .. import obligations

CLAIM = {
    "text": "Memory-safety and containment clauses of C07 decided on MIR: the single unsafe dereference is guarded by `offset < len` of the same "
            "slice; get/get_mut/set reach the data only behind row<height and col<width guards that exist in release builds; Shape values are "
            "built only by three audited constructors whose field templates are checked (stride inheritance, cols<->width / rows<->height pairing, "
            "transpose swapping both pairs); Shape::nth returns in-window positions (abstract interpretation); all data[shape.offset(..)] loops run "
            "over 0..height x 0..width; the mutable iterator always advances; U8 the two coordinate spaces are not interchanged: the backing slice is "
            "accessed only at Shape::offset(..) terms, counts that position a view iterator (nth/skip) or feed Shape::nth are never derived from "
            "Shape::offset/start/end/strides, and the provided methods (insert) position their iterator at exactly pos.row * width + pos.col of the "
            "receiver (Shape::index formula checked). Relies on the stated lemma SHAPE-INV. Equality with a matrix model "
            "for every chain of views is not decided.",
    "technique": "MIR template matching via symbolic def-chasing, dominator guard analysis, literal-site (who-constructs) rule, abstract interpretation for the nth postcondition",
    "design_ref": "DESIGN.md §5 C07",
}

SHAPE_FIELDS = ["start", "end", "width", "height", "row_stride", "col_stride"]


# ---- U8: two coordinate spaces ----------------------------------------------------------------------------
# storage offsets (Shape::offset, shape.start/end, strides) index the backing slice; window indices
# (row-major pos.row * width + pos.col, Shape::index) position a view iterator / feed Shape::nth.
def _top_call(e):
    """('Name', [args]) when the term is Name(args...) with balanced brackets spanning the whole term, else None"""
    m = re.match(r"^([A-Za-z_][\w:]*)\(", e)
    if not m or not e.endswith(")"):
        return None
    depth = 0
    args, cur = [], ""
    body = e[m.end() - 1:]
    for i, ch in enumerate(body):
        if ch in "([{":
            depth += 1
            if depth == 1:
                continue
        elif ch in ")]}":
            depth -= 1
            if depth == 0:
                if i != len(body) - 1:
                    return None
                if cur.strip():
                    args.append(cur.strip())
                return m.group(1), args
        if ch == "," and depth == 1:
            args.append(cur.strip())
            cur = ""
        else:
            cur += ch
    return None


STORAGE_FIELD = re.compile(r"(?:[Ss]hape(?:\([^()]*\))?|arg1)\.(start|end|row_stride|col_stride)$")


def space_of(e):
    """'storage' | 'window' | 'mixed' | 'other' for a canonical integer term"""
    e = e.strip()
    m = re.match(r"^\((.*) as [iu]\w+\)$", e)
    if m:
        return space_of(m.group(1))
    if STORAGE_FIELD.search(e) and _top_call(e) is None:
        return "storage"
    tc = _top_call(e)
    if tc is None:
        return "other"
    nm, args = tc
    if nm == "Shape::offset":
        return "storage"
    if nm == "Shape::index":
        return "window"
    if nm in ("Add", "Sub", "Mul", "Div", "Rem", "cmp::min", "cmp::max") and len(args) == 2:
        a, b = space_of(args[0]), space_of(args[1])
        ks = {a, b} - {"other"}
        if not ks:
            return "window" if (nm == "Add" and _row_major(e) is not None) else "other"
        if len(ks) > 1 or "mixed" in ks:
            return "mixed"
        return ks.pop()
    return "other"


def _row_major(e):
    """(pos, width) when the term is pos.row * width + pos.col (either operand order), else None"""
    tc = _top_call(e)
    if tc is None or tc[0] != "Add" or len(tc[1]) != 2:
        return None
    for mul, col in (tc[1], tc[1][::-1]):
        mc = re.match(r"^(.*)\.col$", col)
        tm = _top_call(mul)
        if not mc or tm is None or tm[0] != "Mul" or len(tm[1]) != 2:
            continue
        for row, w in (tm[1], tm[1][::-1]):
            if row == mc.group(1) + ".row":
                return mc.group(1), w
    return None


def window_index_of(e):
    """(pos, shape-width term) for Shape::index(S, P) / row-major sums"""
    tc = _top_call(e)
    if tc and tc[0] == "Shape::index" and len(tc[1]) == 2:
        return tc[1][1], tc[1][0] + ".width"
    return _row_major(e)


def switches(body):
    for bb, t in body.terms():
        if t["k"] == "switch":
            yield bb, t, expr(body, t["d"])


def false_edge(t):
    """target taken when a bool discriminant is false"""
    if t["vals"] == ["0"]:
        return t["targets"][0], t["otherwise"]
    return None, None


def run(ctx):
    prog = ctx.prog
    ctx.explanation = (
        "Decides from MIR the memory-safety and containment clauses of C07: U1 the only unsafe dereference (SurfaceMutIter::nth) is guarded by "
        "`offset < data.len()` on the same offset and the same slice; U2 get/get_mut reach the data only after both `row < height` and `col < width`; "
        "U3 Shape values are constructed only by From<Size>, Shape::view (2 literals) and Surface::transpose, with the expected field templates "
        "(strides inherited by view, width/height differences of the resolved bounds paired cols<->width and rows<->height, transpose swaps "
        "width<->height together with row_stride<->col_stride); U4 Shape::nth returns row < height and col < width (abstract interpretation); U5 every "
        "loop that indexes data[shape.offset(Position::new(row, col))] iterates row in 0..height and col in 0..width; U6 the mutable iterator's index "
        "is only ever increased by n+1 before an item is produced and starts at 0; U8 window (row-major) indices and storage offsets are kept apart: "
        "every access to the backing slice in surface.rs (7 indexings, get/get_mut, the raw ptr.add) uses a Shape::offset(..) term, every count handed to "
        "nth/skip of a surface iterator or to Shape::nth (8 sites crate-wide) is free of Shape::offset/start/end/stride terms, SurfaceMut::insert skips "
        "exactly pos.row * self.width() + pos.col (minus one for nth) cells of its own iter_mut(), Shape::index is pos.row * width + pos.col "
        "(floor 21 = 2 anchors + 8 positioning counts + 11 data accesses, counted by hand). With U3 (trusted lemma SHAPE-INV: in-window positions of such a "
        "Shape map to distinct in-bounds offsets) these imply no write outside the window and no two &mut to one cell. NOT decided: equality with a "
        "matrix model for every chain of view/transpose (value-level).")
    ctx.trust("SHAPE-INV", "for a Shape built only by From<Size>/view/transpose (U3) distinct in-window positions map to distinct offsets inside the parent's data")

    # ---------------- U1 unsafe deref ---------------------------------------------------------------
    ctx.rule("U1-UNSAFE", "every unsafe operation in surface.rs: raw deref guarded by offset < len of the same slice", floor=2)
    n_unsafe = 0
    for b in prog.bodies:
        if not b.file.endswith("surface.rs"):
            continue
        obs = [o for o in obligations.collect(b, unsafe=True) if o.kind == "UNSAFE" and not o.exp]
        for o in obs:
            n_unsafe += 1
            ok = False
            why = "unsafe operation outside the single accepted site"
            if b.path == "<surface::SurfaceMutIter<'a, T> as std::iter::Iterator>::nth":
                cfg = b.cfg()
                # find the ptr.add call
                adds = [(bb, t) for bb, t in b.calls() if call_matches(t, r"mut_ptr::<impl \*mut T>::add$")]
                if len(adds) == 1:
                    abb, at = adds[0]
                    ptr_e = expr(b, at["args"][0])
                    off_e = expr(b, at["args"][1])
                    mm = re.match(r"^slice::as_mut_ptr\((.*)\)$", ptr_e)
                    if mm:
                        data_e = mm.group(1)
                        for sb, st, se in switches(b):
                            ft, tt = false_edge(st)
                            if se == "Ge(%s, slice::len(%s))" % (off_e, data_e) and ft is not None and cfg.edge_dominates(sb, ft, abb):
                                ok = True
                            if se == "Lt(%s, slice::len(%s))" % (off_e, data_e) and tt is not None and cfg.edge_dominates(sb, tt, abb):
                                ok = True
                        if not ok:
                            why = "ptr.add(%s) on %s is not dominated by the branch `%s < len(%s)`" % (off_e[:60], data_e, off_e[:60], data_e)
                    else:
                        why = "pointer does not come from as_mut_ptr of a slice field: %s" % ptr_e
                    if o.sub == "raw-deref":
                        # the dereferenced pointer must be the result of that add
                        pass
            ctx.instance("U1-UNSAFE", {"fn": b.path, "op": o.sub, "site": o.site, "guarded": ok})
            if not ok:
                ctx.violation("U1-UNSAFE", b.path, o.sub, "unsafe %s at %s: %s" % (o.sub, o.site, why), sites=[o.site])
    # ---------------- U2 get / get_mut ------------------------------------------------------------------
    ctx.rule("U2-GET", "Surface::get / SurfaceMut::get_mut / SurfaceMut::set: data access dominated by row < height and col < width (debug-only guards do not count)", floor=3)
    for path, getter in (("surface::Surface::get", r"slice::<impl \[T\]>::get$"), ("surface::SurfaceMut::get_mut", r"slice::<impl \[T\]>::get_mut$"), ("surface::SurfaceMut::set", r"^\$never")):
        b = prog.body(path)
        if b is None:
            ctx.anchor("U2-GET", path)
            continue
        cfg = b.cfg()
        acc = [(bb, t) for bb, t in b.calls() if call_matches(t, getter) or call_matches(t, r"Index(Mut)?.*::index(_mut)?$")]
        for bb, t in b.terms():
            if t["k"] == "assert" and t["msg"]["kind"] == "BoundsCheck":
                acc.append((bb, t))
        if not acc:
            ctx.anchor("U2-GET", path + "/access")
            continue
        for abb, at in acc:
            need = {"row": False, "col": False}
            for sb, st, se in switches(b):
                ft, tt = false_edge(st)
                if _debug_only(b, st):
                    continue
                m1 = re.match(r"^Ge\(arg2\.(row|col), (.*)\.(height|width)\)$", se)
                m2 = re.match(r"^Lt\(arg2\.(row|col), (.*)\.(height|width)\)$", se)
                if m1 and ft is not None and cfg.edge_dominates(sb, ft, abb):
                    if (m1.group(1), m1.group(3)) in (("row", "height"), ("col", "width")) and "shape(arg1)" in m1.group(2):
                        need[m1.group(1)] = True
                if m2 and tt is not None and cfg.edge_dominates(sb, tt, abb):
                    if (m2.group(1), m2.group(3)) in (("row", "height"), ("col", "width")) and "shape(arg1)" in m2.group(2):
                        need[m2.group(1)] = True
            # the offset must be shape.offset(pos)
            off_ok = True
            if at["k"] == "call" and len(at["args"]) > 1:
                oe = expr(b, at["args"][1])
                off_ok = bool(re.match(r"^Shape::offset\(.*shape\(arg1\), arg2\)$", oe))
            if at["k"] == "assert":
                oe = expr(b, at["msg"]["index"])
                off_ok = bool(re.match(r"^Shape::offset\(.*shape\(arg1\), arg2\)$", oe))
            ctx.instance("U2-GET", {"fn": path, "row_guard": need["row"], "col_guard": need["col"], "offset_is_shape_offset": off_ok})
            for ax in ("row", "col"):
                if not need[ax]:
                    ctx.violation("U2-GET", path, "missing-%s-guard" % ax,
                                  "%s reaches the data without checking pos.%s against the view's %s: positions outside the window would alias other cells of the parent" % (path, ax, "height" if ax == "row" else "width"),
                                  sites=[b.loc])
            if not off_ok:
                ctx.violation("U2-GET", path, "offset", "the accessed index is not shape.offset(pos)", sites=[b.loc])

    # ---------------- U3 Shape literal sites ---------------------------------------------------------------
    ctx.rule("U3-SHAPE", "Shape literals only in From<Size>::from, Shape::view (2) and Surface::transpose, with the expected field templates", floor=4)
    lits = []
    for b in prog.bodies:
        for i, si, s in b.assigns():
            rv = s["rv"]
            if rv["k"] == "agg" and rv["ak"] == "adt" and rv["adt"] == "surface::Shape":
                lits.append((b, s, {n: expr(b, f) for n, f in zip(rv["fnames"], rv["fields"])}))
    allowed = {"<surface::Shape as std::convert::From<terminal::Size>>::from", "surface::Shape::view", "surface::Surface::transpose"}
    vb = r"ViewBounds::view_bounds\((arg[23]), arg1\.(width|height)\)@Some\.0\.([01])"
    for b, s, f in lits:
        site = "%s:%d" % (b.file, s["line"])
        if b.path not in allowed:
            ctx.instance("U3-SHAPE", {"fn": b.path, "site": site, "allowed": False})
            ctx.violation("U3-SHAPE", b.path, "literal", "Shape constructed outside the audited constructors (the SHAPE-INV lemma covers only From<Size>, Shape::view and Surface::transpose)", sites=[site])
            continue
        ok = True
        why = []
        if b.path.endswith("::from"):
            exp = {"start": "0", "end": "Mul(arg1.height, arg1.width)", "width": "arg1.width", "height": "arg1.height", "row_stride": "arg1.width", "col_stride": "1"}
            for k, v in exp.items():
                if k == "end":
                    if f[k] not in ("Mul(arg1.height, arg1.width)", "Mul(arg1.width, arg1.height)"):
                        ok = False
                        why.append("end = %s" % f[k])
                elif f[k] != v:
                    ok = False
                    why.append("%s = %s (expected %s)" % (k, f[k], v))
        elif b.path == "surface::Shape::view":
            if all(f[k] == "0" for k in SHAPE_FIELDS):
                pass   # the empty window
            else:
                mw = re.match(r"^Sub\(%s, %s\)$" % (vb, vb), f["width"])
                mh = re.match(r"^Sub\(%s, %s\)$" % (vb, vb), f["height"])
                if not (mw and mw.group(1) == mw.group(4) and mw.group(2) == mw.group(5) == "width" and mw.group(3) == "1" and mw.group(6) == "0"):
                    ok = False
                    why.append("width = %s" % f["width"])
                if not (mh and mh.group(1) == mh.group(4) and mh.group(2) == mh.group(5) == "height" and mh.group(3) == "1" and mh.group(6) == "0"):
                    ok = False
                    why.append("height = %s" % f["height"])
                if mw and mh and not (mw.group(1) == "arg3" and mh.group(1) == "arg2"):
                    ok = False
                    why.append("width must be resolved from the `cols` selector (3rd parameter) and height from `rows` (2nd): got %s / %s" % (mw.group(1), mh.group(1)))
                if mw and mh:
                    ms = re.match(r"^Shape::offset\(arg1, Position::new\(%s, %s\)\)$" % (vb, vb), f["start"])
                    if not (ms and ms.group(1) == mh.group(1) and ms.group(2) == "height" and ms.group(3) == "0" and ms.group(4) == mw.group(1) and ms.group(5) == "width" and ms.group(6) == "0"):
                        ok = False
                        why.append("start = %s" % f["start"])
                if f["row_stride"] != "arg1.row_stride" or f["col_stride"] != "arg1.col_stride":
                    ok = False
                    why.append("strides not inherited: %s / %s" % (f["row_stride"], f["col_stride"]))
        elif b.path == "surface::Surface::transpose":
            sh = r"Surface::shape\(arg1\)"
            exp = {"start": "start", "end": "end", "width": "height", "height": "width", "row_stride": "col_stride", "col_stride": "row_stride"}
            for k, v in exp.items():
                if not re.match(r"^%s\.%s$" % (sh, v), f[k]):
                    ok = False
                    why.append("%s = %s (expected shape.%s)" % (k, f[k], v))
        ctx.instance("U3-SHAPE", {"fn": b.path, "site": site, "template_ok": ok, "fields": f})
        if not ok:
            ctx.violation("U3-SHAPE", b.path, "template", "Shape literal deviates from the constructor template: %s" % "; ".join(why), sites=[site])
    # Shape::offset itself
    ob = prog.body("surface::Shape::offset")
    if ob is None:
        ctx.anchor("U3-SHAPE", "Shape::offset")
    else:
        e = expr(ob, {"k": "copy", "place": {"l": 0, "p": []}})
        okf = e in ("Add(Add(arg1.start, Mul(arg2.row, arg1.row_stride)), Mul(arg2.col, arg1.col_stride))",
                    "Add(Add(arg1.start, Mul(arg2.col, arg1.col_stride)), Mul(arg2.row, arg1.row_stride))")
        ctx.instance("U3-SHAPE", {"fn": ob.path, "formula": e, "ok": okf})
        if not okf:
            ctx.violation("U3-SHAPE", ob.path, "formula", "Shape::offset is not start + row*row_stride + col*col_stride: %s" % e, sites=[ob.loc])

    # ---------------- U4 POST(Shape::nth) ----------------------------------------------------------------------
    ctx.rule("U4-NTH", "Shape::nth: Some(Position{row, col}) has row < height and col < width", floor=1)
    nb = prog.body("surface::Shape::nth")
    if nb is None:
        ctx.anchor("U4-NTH", "Shape::nth")
    else:
        eng = Engine(prog)
        an = eng.analyze(nb.path)
        found = 0
        for bb, t in nb.calls():
            if call_matches(t, r"bool::<impl bool>::then_some$|bool::then_some$"):
                found += 1
                st = an.call_args.get(bb)
                cond = an.eval_op(st, t["args"][0], "q")
                # position aggregate fields
                pk = an.pkey(st, t["args"][1]["place"])
                rowv, colv = st.vals.get(pk + ".row"), st.vals.get(pk + ".col")
                ce = expr(nb, t["args"][0])
                ok_row = ce == "Lt(Div(arg2, arg1.width), arg1.height)" and expr(nb, {"k": "copy", "place": {"l": t["args"][1]["place"]["l"], "p": [{"k": "field", "i": 0, "name": "row", "adt": "", "ty": "usize"}]}}) == "Div(arg2, arg1.width)"
                # col < width by the remainder rule
                wt = st.term(st.vals.get(an.pkey(st, {"l": 1, "p": [{"k": "deref"}, {"k": "field", "i": 2, "name": "width", "adt": "", "ty": "usize"}]})))
                ct = st.term(colv) if colv is not None else None
                ok_col = ct is not None and wt is not None and st.le(ct, wt, True)
                ctx.instance("U4-NTH", {"cond": ce, "row_is_quotient_and_tested": ok_row, "col_lt_width": ok_col, "col": str(st.itv(colv)) if colv else None})
                ctx.oblig(ok_row and ok_col, "POST")
                if not ok_row:
                    ctx.violation("U4-NTH", nb.path, "row", "Shape::nth does not guard the returned row with row < height (%s)" % ce, sites=[nb.loc])
                if not ok_col:
                    ctx.violation("U4-NTH", nb.path, "col", "Shape::nth: returned col is not provably < width (expected n - (n / width) * width)", sites=[nb.loc])
        if not found:
            ctx.anchor("U4-NTH", "nth/then_some")

    # ---------------- U5 loops over the window --------------------------------------------------------------------
    ctx.rule("U5-LOOPS", "data[shape.offset(Position::new(row, col))] with row from 0..shape.height and col from 0..shape.width", floor=5)
    pat = re.compile(r"Shape::offset\((?P<sh>.*?), Position::new\(range::next\(IntoIterator::into_iter\(Range\{start: 0, end: (?P<h>.*?)\}\)\)@Some\.0, range::next\(IntoIterator::into_iter\(Range\{start: 0, end: (?P<w>.*?)\}\)\)@Some\.0\)\)")
    n_loops = 0
    for b in prog.bodies:
        if not b.file.endswith(("surface.rs",)):
            continue
        for bb, t in b.terms():
            idx_e = None
            if t["k"] == "assert" and t["msg"]["kind"] == "BoundsCheck":
                idx_e = expr(b, t["msg"]["index"])
            if idx_e is None or "Shape::offset" not in idx_e:
                continue
            if b.kind == "Closure":
                continue   # closures index with a position handed in by new_with (checked below)
            if b.path == "surface::SurfaceMut::set":
                continue   # caller-supplied position: covered by the guard rule U2
            n_loops += 1
            m = pat.search(idx_e)
            ok = bool(m) and m.group("h") == m.group("sh") + ".height" and m.group("w") == m.group("sh") + ".width"
            ctx.instance("U5-LOOPS", {"fn": b.path, "line": t["line"], "index": idx_e[:160], "ok": ok})
            if not ok:
                ctx.violation("U5-LOOPS", b.path, "index", "an indexing of the backing data through shape.offset(..) is not driven by row in 0..shape.height and col in 0..shape.width: %s" % idx_e[:200],
                              sites=["%s:%d" % (b.file, t["line"])])
    # closures of map / to_owned_surf: position comes from SurfaceOwned::new_with(shape.size(), ..) which iterates the same size
    for path in ("surface::Surface::map", "surface::Surface::to_owned_surf"):
        b = prog.body(path)
        if b is None:
            ctx.anchor("U5-LOOPS", path)
            continue
        nw = [(bb, t) for bb, t in b.calls() if call_matches(t, r"^surface::SurfaceOwned::<T>::new_with$")]
        ok = len(nw) == 1 and re.match(r"^Shape::size\(Surface::shape\(arg1\)\)$", expr(b, nw[0][1]["args"][0])) is not None
        n_loops += 1
        ctx.instance("U5-LOOPS", {"fn": path, "new_with_size": expr(b, nw[0][1]["args"][0]) if nw else None, "ok": ok})
        if not ok:
            ctx.violation("U5-LOOPS", path, "size", "the closure indexing data[shape.offset(pos)] is driven by a size other than shape.size()", sites=[b.loc])
    nwb = prog.body("surface::SurfaceOwned::<T>::new_with")
    if nwb is None:
        ctx.anchor("U5-LOOPS", "SurfaceOwned::new_with")

    # ---------------- U7 element-wise access to the backing data -------------------------------------------------
    ctx.rule("U7-ELEMENTWISE", "the backing slice (data()/data_mut()) is only indexed element-wise, handed to get/get_mut/len/as_mut_ptr, or stored in a view/iterator struct", floor=7)
    DATA_RX = r"^(Surface::data|SurfaceMut::data_mut)\((arg1|Surface::shape\(arg1\)|.*)\)$"
    OK_CALLEES = r"(slice::<impl \[T\]>::(get|get_mut|len|as_mut_ptr|as_ptr|is_empty)|Surface::data|SurfaceMut::data_mut|Surface>::data|SurfaceMut>::data_mut)$"
    n_uses = 0
    for b in prog.bodies:
        if not b.file.endswith("surface.rs"):
            continue
        if b.name in ("data", "data_mut"):
            continue
        for bb, t in b.calls():
            if call_matches(t, OK_CALLEES):
                for a in t["args"][:1]:
                    if re.match(DATA_RX, expr(b, a)):
                        n_uses += 1
                        ctx.instance("U7-ELEMENTWISE", {"fn": b.path, "use": callee_name(t).split("::")[-1], "ok": True}, nontrivial=False)
                continue
            for a in t["args"]:
                e = expr(b, a)
                if re.match(DATA_RX, e) and not e.startswith("Surface::data(Surface::as_ref") :
                    n_uses += 1
                    ctx.instance("U7-ELEMENTWISE", {"fn": b.path, "use": callee_name(t), "ok": False})
                    ctx.violation("U7-ELEMENTWISE", b.path, callee_name(t).split("::")[-1],
                                  "the backing data slice is handed to %s: bulk/slice operations ignore the view's strides and window (only element-wise access through shape.offset is audited)" % callee_name(t),
                                  sites=["%s:%d" % (b.file, t["line"])])
        for bb, t in b.terms():
            if t["k"] == "assert" and t["msg"]["kind"] == "BoundsCheck" and re.search(r"PtrMetadata\((Surface::data|SurfaceMut::data_mut)\(", expr(b, t["msg"]["len"])):
                n_uses += 1
                ctx.instance("U7-ELEMENTWISE", {"fn": b.path, "use": "index", "ok": True}, nontrivial=False)
    if n_uses == 0:
        ctx.anchor("U7-ELEMENTWISE", "data-uses")

    # ---------------- U8 window indices vs storage offsets ----------------------------------------------------------
    ctx.rule("U8-INDEX", "row-major window indices position view iterators / feed Shape::nth, storage offsets (Shape::offset) index the backing slice: never interchanged; "
             "provided Surface/SurfaceMut methods position their iterator at pos.row * width + pos.col of the receiver", floor=21)
    POS_CALL = r"Iterator>?::(nth|skip|advance_by|nth_back|step_by)$"
    SURF_ITER_TY = r"surface::Surface(Pos)?(Mut)?(Pos)?Iter\b"
    DATA_TERM = r"^(PtrMetadata\()?(slice::as_mut_ptr\(|slice::as_ptr\()?(Surface::data\(|SurfaceMut::data_mut\(|arg1\.data\b)"
    SLICE_ACC = r"slice::<impl \[T\]>::(get|get_mut|get_unchecked|get_unchecked_mut)$|mut_ptr::<impl \*mut T>::add$|const_ptr::<impl \*const T>::add$"

    def _upvars(b):
        up = {}
        if b.kind == "Closure":
            parent = prog.body(b.j.get("closure_parent") or "") or prog.body(b.closure_root or "")
            if parent is not None:
                for i, si, s_ in parent.assigns():
                    rv = s_["rv"]
                    if rv["k"] == "agg" and rv["ak"] == "closure" and rv["def"] == b.path:
                        for k, f in enumerate(rv["fields"]):
                            up["arg1.%d" % k] = expr(parent, f)
        return up

    def _sub_up(e, up):
        for k in sorted(up, key=len, reverse=True):
            e = re.sub(re.escape(k) + r"\b", up[k].replace("\\", "\\\\"), e)
        return e

    # anchors: the two conversion routines and the width accessor
    ib = prog.body("surface::Shape::index")
    if ib is None:
        ctx.anchor("U8-INDEX", "Shape::index")
    else:
        e = expr(ib, {"k": "copy", "place": {"l": 0, "p": []}})
        wi = _row_major(e)
        okf = wi == ("arg2", "arg1.width")
        ctx.instance("U8-INDEX", {"fn": ib.path, "formula": e, "ok": okf})
        if not okf:
            ctx.violation("U8-INDEX", ib.path, "formula", "Shape::index is not pos.row * width + pos.col: %s" % e, sites=[ib.loc])
    wbody = prog.body("surface::Surface::width")
    okw = wbody is not None and expr(wbody, {"k": "copy", "place": {"l": 0, "p": []}}) == "Surface::shape(arg1).width"
    ctx.instance("U8-INDEX", {"fn": "surface::Surface::width", "is_shape_width": okw})
    if not okw:
        ctx.anchor("U8-INDEX", "Surface::width")
    WIDTHS = ("Surface::width(arg1)", "Surface::shape(arg1).width", "Surface::size(arg1).width", "Shape::size(Surface::shape(arg1)).width")
    for b in prog.bodies:
        in_surface = b.file.endswith("surface.rs")
        up = None
        for bb, t in b.calls():
            site = "%s:%d" % (b.file, t["line"])
            nm = callee_name(t) or ""
            short = nm.split("::")[-1]
            # A. positioning counts
            is_pos = False
            if call_matches(t, POS_CALL) and len(t["args"]) == 2:
                rl = t["args"][0].get("place", {}).get("l")
                rty = b.local_ty(rl) if rl is not None else ""
                re0 = expr(b, t["args"][0])
                is_pos = bool(re.search(SURF_ITER_TY, nm) or re.search(SURF_ITER_TY, rty) or re.search(r"(Surface::iter|SurfaceMut::iter_mut)\(", re0))
            if call_matches(t, r"^surface::Shape::nth$") and len(t["args"]) == 2:
                is_pos = True
            if is_pos:
                cnt = expr(b, t["args"][1])
                sp = space_of(cnt)
                ok = sp in ("window", "other")
                why = "the count handed to %s is a %s value (%s): a storage offset differs from the row-major index for every view with start != 0 or strides != (width, 1)" % (short, sp, cnt[:160])
                if ok and re.match(r"^surface::Surface(Mut)?::\w+$", b.path) and not re.match(r"^\d+$", cnt) and short != "step_by" and not call_matches(t, r"Shape::nth$"):
                    # provided trait method positioning its own iterator at a caller-supplied position
                    core = cnt
                    if short in ("nth", "nth_back"):
                        tc = _top_call(cnt)
                        core = tc[1][0] if (tc and tc[0] == "Sub" and len(tc[1]) == 2 and tc[1][1] == "1") else None
                    wi = window_index_of(core) if core else None
                    ok = wi is not None and re.match(r"^arg[2-9]$", wi[0]) is not None and wi[1] in WIDTHS and re.search(r"(Surface::iter|SurfaceMut::iter_mut)\(arg1\)", expr(b, t["args"][0])) is not None
                    why = "%s(%s) does not skip exactly the pos.row * self.width() + pos.col cells that precede `pos` in the row-major order of this view" % (short, cnt[:160])
                ctx.instance("U8-INDEX", {"fn": b.path, "positioning": short, "count": cnt[:120], "space": sp, "ok": ok})
                if not ok:
                    ctx.violation("U8-INDEX", b.path, "%s-count" % short, why, sites=[site])
                continue
            if not in_surface:
                # B'. outside surface.rs the backing store of a surface / image is reached through data()/data_mut() (or the `data` field of
                # Image / SurfaceOwned inside their own impls); whatever indexes it — element or range — must be a Shape::offset(..) term
                if b.file.startswith("src/") and call_matches(t, r"ops::Index(Mut)?<I>( for [^>]*(<[^>]*>)?)?>::index(_mut)?$|::get(_mut)?$|::get_unchecked(_mut)?$") and len(t["args"]) == 2:
                    re0 = expr(b, t["args"][0])
                    own_field = re.search(r"(^|\()arg1\.data\b", re0) and re.sub(r"<.*$", "", b.impl_self or "") in ("image::Image", "surface::SurfaceOwned")
                    if re.search(r"(Surface::data|SurfaceMut::data_mut|Image::data)\(", re0) or own_field:
                        ie = expr(b, t["args"][1])
                        ok = ie.startswith("Shape::offset(")
                        ctx.instance("U8-INDEX", {"fn": b.path, "data_access_outside_surface_rs": short, "index": ie[:120], "ok": ok})
                        if not ok:
                            ctx.violation("U8-INDEX", b.path, "%s-index" % short, "the backing store of a surface/image is accessed at %s, which is not a Shape::offset(..) of the view: "
                                          "cropped, strided and transposed views (shape.start != 0, strides != (width, 1)) address other cells" % ie[:160], sites=[site])
                continue
            if up is None:
                up = _upvars(b)
            # B. element access to the backing data
            if call_matches(t, SLICE_ACC) and len(t["args"]) == 2 and re.match(DATA_TERM, _sub_up(expr(b, t["args"][0]), up)):
                ie = expr(b, t["args"][1])
                ok = space_of(ie) == "storage" and ie.startswith("Shape::offset(")
                ctx.instance("U8-INDEX", {"fn": b.path, "data_access": short, "index": ie[:120], "ok": ok})
                if not ok:
                    ctx.violation("U8-INDEX", b.path, "%s-index" % short, "the backing slice is accessed at %s, which is not a Shape::offset(..) of the view (a row-major index addresses the parent's cells only for an untransposed full-width view at the origin)" % ie[:160], sites=[site])
                continue
            # C. a storage offset handed to anything else
            if call_matches(t, r"^surface::Shape::(offset|index)$"):
                continue
            for a in t["args"]:
                e = expr(b, a)
                if space_of(e) in ("storage", "mixed") and _top_call(e) is not None:
                    ctx.violation("U8-INDEX", b.path, "offset-to-%s" % short, "a storage offset (%s) is handed to %s; offsets are only meaningful as indices of the backing slice" % (e[:160], nm), sites=[site])
        if not in_surface:
            if b.file.startswith("src/"):
                for bb, t in b.terms():
                    if t["k"] == "assert" and t["msg"]["kind"] == "BoundsCheck":
                        le = expr(b, t["msg"]["len"])
                        if not re.search(r"(Surface::data|SurfaceMut::data_mut|Image::data)\(", le):
                            continue
                        ie = expr(b, t["msg"]["index"])
                        ok = ie.startswith("Shape::offset(")
                        ctx.instance("U8-INDEX", {"fn": b.path, "data_access_outside_surface_rs": "index", "index": ie[:120], "ok": ok})
                        if not ok:
                            ctx.violation("U8-INDEX", b.path, "data-index", "the backing store of a surface/image is indexed with %s, which is not a Shape::offset(..) of the view" % ie[:160],
                                          sites=["%s:%d" % (b.file, t["line"])])
            continue
        for bb, t in b.terms():
            if t["k"] == "assert" and t["msg"]["kind"] == "BoundsCheck":
                if up is None:
                    up = _upvars(b)
                le = _sub_up(expr(b, t["msg"]["len"]), up)
                if not re.match(DATA_TERM, le):
                    continue
                ie = expr(b, t["msg"]["index"])
                ok = space_of(ie) == "storage" and ie.startswith("Shape::offset(")
                ctx.instance("U8-INDEX", {"fn": b.path, "data_access": "index", "index": ie[:120], "ok": ok})
                if not ok:
                    ctx.violation("U8-INDEX", b.path, "data-index", "the backing slice is indexed with %s, which is not a Shape::offset(..) of the view" % ie[:160], sites=["%s:%d" % (b.file, t["line"])])

    # ---------------- U6 iterator progress -------------------------------------------------------------------------
    ctx.rule("U6-PROGRESS", "SurfaceMutIter: index written only as index += n + 1 before producing an item; constructed with index 0", floor=2)
    it = prog.body("<surface::SurfaceMutIter<'a, T> as std::iter::Iterator>::nth")
    if it is None:
        ctx.anchor("U6-PROGRESS", "SurfaceMutIter::nth")
    else:
        ws = []
        for i, si, s in it.assigns():
            pe = resolve_place(it, s["place"])
            if pe == "(*_1).index":
                ws.append((i, s, expr_rv(it, s)))
        okw = len(ws) == 1 and ws[0][2] in ("Add(arg1.index, Add(arg2, 1))", "Add(Add(arg1.index, arg2), 1)")
        cfg = it.cfg()
        adds = [bb for bb, t in it.calls() if call_matches(t, r"mut_ptr::<impl \*mut T>::add$")]
        dom = okw and all(cfg.dominates(ws[0][0], a) for a in adds)
        ctx.instance("U6-PROGRESS", {"index_writes": [w[2] for w in ws], "dominates_item": dom})
        if not (okw and dom):
            ctx.violation("U6-PROGRESS", it.path, "index", "the mutable iterator's index is not advanced by n + 1 before an item is produced: two calls could return the same cell", sites=[it.loc])
    n_lit = 0
    for b in prog.bodies:
        for i, si, s in b.assigns():
            rv = s["rv"]
            if rv["k"] == "agg" and rv["ak"] == "adt" and rv["adt"] == "surface::SurfaceMutIter":
                n_lit += 1
                f = {n: expr(b, o) for n, o in zip(rv["fnames"], rv["fields"])}
                ok = f.get("index") == "0"
                ctx.instance("U6-PROGRESS", {"literal_in": b.path, "index": f.get("index"), "ok": ok})
                if not ok:
                    ctx.violation("U6-PROGRESS", b.path, "literal-index", "SurfaceMutIter constructed with a non-zero index", sites=["%s:%d" % (b.file, s["line"])])
    if n_lit == 0:
        ctx.anchor("U6-PROGRESS", "SurfaceMutIter-literal")
    if ctx.tier == "thorough":
        thorough(ctx)


def _debug_only(body, t):
    """the switch consumes a comparison written inside debug_assert!: absent from release builds"""
    l = op_local(t["d"])
    seen = set()
    while l is not None and l not in seen:
        seen.add(l)
        ds = body.defs_of(l)
        if len(ds) != 1 or ds[0][1] == "term":
            return False
        bb, si, rv = ds[0]
        st = body.blocks[bb]["stmts"][si]
        if (st.get("expk") or "").startswith("bang:debug_assert"):
            return True
        if rv["k"] == "un" and rv["op"] == "Not":
            l = op_local(rv["a"])
            continue
        if rv["k"] == "use":
            l = op_local(rv["a"])
            continue
        return False
    return False


def thorough(ctx):
    from .. import witness
    witness.run(ctx, "WITNESS")


def expr_rv(body, s):
    rv = s["rv"]
    if rv["k"] == "use":
        return expr(body, rv["a"])
    if rv["k"] == "bin":
        return "%s(%s, %s)" % (rv["op"].replace("WithOverflow", ""), expr(body, rv["a"]), expr(body, rv["b"]))
    return rv["k"]
