MUTANTS = [
    {"id": "C02-orig-number-overflow", "prop": "C02", "expect": "number_decode",
     "edits": [("src/decoder.rs", "                result = result.checked_mul(10)?.checked_add((b - b'0') as usize)?;", "                result = result * 10 + (b - b'0') as usize;")]},
    {"id": "C02-orig-cursor-zero-underflow", "prop": "C02", "expect": "CursorPositionMatcher",
     "edits": [("src/decoder.rs", "            row: nums.next()?.checked_sub(1)?,", "            row: nums.next()? - 1,")]},
    {"id": "C02-orig-mouse-zero-underflow", "prop": "C02", "expect": "MouseEventMatcher",
     "edits": [("src/decoder.rs", "        let col = nums.next()?.checked_sub(1)?;", "        let col = nums.next()? - 1;")]},
    {"id": "C02-orig-kitty-empty-index", "prop": "C02", "expect": "KittyKeyboardMatcher",
     "edits": [("src/decoder.rs", "        if let Some(level) = data.strip_prefix(b\"?\") {\n            let level = number_decode(level)?;", "        if data[0] == b'?' {\n            let level = number_decode(&data[1..])?;")]},
    {"id": "C02-orig-color-truncation", "prop": "C02", "expect": "sgr_color",
     "edits": [("src/decoder.rs", "                    let [r, g, b] = [r, g, b].map(|c| u8::try_from(c).ok());\n                    Some(RGBA::new(r?, g?, b?, 255))", "                    Some(RGBA::new(r as u8, g as u8, b as u8, 255))")]},
    {"id": "C02-orig-unchecked-char", "prop": "C02", "expect": "from_u32_unchecked",
     "edits": [("src/decoder.rs", "    char::from_u32(code).unwrap_or(char::REPLACEMENT_CHARACTER)", "    unsafe { std::char::from_u32_unchecked(code) }")]},
    {"id": "C02-raw-guard-removed", "prop": "C02", "expect": "RAW-NONEMPTY",
     "edits": [("src/decoder.rs", "                if reject.is_empty() {\n                    return None;\n                }\n                tracing::info!(\n                    \"[TTYEventDecoder.decode] unhandled: {:?}\",\n                    String::from_utf8_lossy(&reject)\n                );\n                Some(TerminalEvent::Raw(reject.into_vec()))", "                tracing::info!(\n                    \"[TTYEventDecoder.decode] unhandled: {:?}\",\n                    String::from_utf8_lossy(&reject)\n                );\n                Some(TerminalEvent::Raw(reject.into_vec()))")]},
    {"id": "C02-grammar-shorter-than-slice", "prop": "C02", "expect": "DecModeMatcher",
     "edits": [("src/decoder.rs", "        let mut nums = numbers_decode(&data[3..data.len() - 2], b';');\n        Some(TerminalEvent::DecMode {", "        let mut nums = numbers_decode(&data[9..data.len() - 2], b';');\n        Some(TerminalEvent::DecMode {")]},
    {"id": "C02-utf8-buffer-too-small", "prop": "C02", "expect": "UTF8-CAP",
     "edits": [("src/decoder.rs", "    buffer: [u8; 4],\n}\n\nimpl Default for Utf8Decoder", "    buffer: [u8; 3],\n}\n\nimpl Default for Utf8Decoder"), ("src/decoder.rs", "            buffer: [0; 4],", "            buffer: [0; 3],")]},
    {"id": "C02-utf8-no-reset-on-dead", "prop": "C02", "expect": "UTF8-CAP",
     "edits": [("src/decoder.rs", "                    use std::io::{Error, ErrorKind};\n                    self.reset();\n", "                    use std::io::{Error, ErrorKind};\n")]},
    {"id": "C02-termsize-grammar-loosened", "prop": "C02", "expect": "TermSizeMatcher",
     "edits": [("src/decoder.rs", "let nfa = NFA::sequence([NFA::from(\"\\x1b[8\"), size.clone(), NFA::from(\"\\x1b[4\"), size]);", "let nfa = NFA::sequence([NFA::from(\"\\x1b[8\"), size.clone(), NFA::from(\"\\x1b[\"), size.optional()]);")]},
    {"id": "C02-termcap-odd-hex", "prop": "C02", "expect": "hex_decode",
     "edits": [("src/decoder.rs", "        let hex = NFA::predicate(|b| b.is_ascii_hexdigit());\n        let hex = hex.clone() + hex;\n        let key_value", "        let hex = NFA::predicate(|b| b.is_ascii_hexdigit());\n        let key_value")]},
    {"id": "C02-mouse-modifier-shift-amount", "prop": "C02", "expect": "MouseEventMatcher", "known_miss": "value-level: a wrong (but in-range) shift amount changes the decoded modifier, not totality",
     "edits": [("src/decoder.rs", "KeyMod::from_bits(((event >> 2) & 7) as u32)", "KeyMod::from_bits(((event >> 3) & 7) as u32)")]},
    {"id": "C02-untagged-alternative", "prop": "C02", "expect": "TAGGED-ACCEPT",
     "edits": [("src/decoder.rs", "                        .tags_map(|_| MatcherTag::Matcher(index))\n                        .tag_stop_state(MatcherTag::Matcher(index))", "                        .tags_map(|_| MatcherTag::Matcher(index))")]},
    {"id": "C02-benign-rename", "prop": "C02", "benign": True,
     "edits": [("src/decoder.rs", "        let col = nums.next()?.checked_sub(1)?;\n        let row = nums.next()?.checked_sub(1)?;", "        let column = nums.next()?.checked_sub(1)?;\n        let line = nums.next()?.checked_sub(1)?;\n        let (col, row) = (column, line);")]},
    {"id": "C02-benign-saturating", "prop": "C02", "benign": True,
     "edits": [("src/decoder.rs", "            row: nums.next()?.checked_sub(1)?,", "            row: nums.next()?.saturating_sub(1),")]},
]


# ---- robustness: behaviour-preserving refactorings the lemma rules (UTF8-CAP, TAGGED-ACCEPT, GRAM-EVENHEX, RAW-NONEMPTY) must see through, and near misses
_D = "src/decoder.rs"
_RAW_EV = ("                if reject.is_empty() {\n                    return None;\n                }\n                tracing::info!(\n                    \"[TTYEventDecoder.decode] unhandled: {:?}\",\n"
           "                    String::from_utf8_lossy(&reject)\n                );\n                Some(TerminalEvent::Raw(reject.into_vec()))")
MUTANTS += [
    {"id": "C02-benign-utf8-push-commuted", "prop": "C02", "benign": True,
     "edits": [(_D, "        self.buffer[self.offset] = byte;\n        self.offset += 1;", "        self.buffer[self.offset] = byte;\n        self.offset = 1 + self.offset;")]},
    {"id": "C02-benign-utf8-reset-spelled-out-in-consume", "prop": "C02", "benign": True,
     "edits": [(_D, "        let result = utf8_decode(&self.buffer[..self.offset]);\n        self.reset();\n        result",
                "        let result = utf8_decode(&self.buffer[..self.offset]);\n        self.offset = 0;\n        self.state = UTF8DFA.start();\n        result")]},
    {"id": "C02-benign-utf8-accept-helper", "prop": "C02", "benign": True,
     "edits": [(_D, "                    self.push(*byte);\n                    buf.consume(consume);\n                    return Ok(Some(self.consume()));",
                "                    let decoded = self.accept(*byte);\n                    buf.consume(consume);\n                    return Ok(Some(decoded));"),
               (_D, "    fn reset(&mut self) {\n        self.state = UTF8DFA.start();", "    fn accept(&mut self, last: u8) -> char {\n        self.push(last);\n        self.consume()\n    }\n\n    fn reset(&mut self) {\n        self.state = UTF8DFA.start();")]},
    {"id": "C02-benign-utf8-dead-arm-helper", "prop": "C02", "benign": True,
     "edits": [(_D, "                    use std::io::{Error, ErrorKind};\n                    self.reset();\n                    buf.consume(consume);\n                    return Err(Error::new(ErrorKind::InvalidInput, \"utf8 decoder failed\"));",
                "                    buf.consume(consume);\n                    return Err(self.fail());"),
               (_D, "    fn reset(&mut self) {\n        self.state = UTF8DFA.start();", "    fn fail(&mut self) -> std::io::Error {\n        use std::io::{Error, ErrorKind};\n        self.reset();\n        Error::new(ErrorKind::InvalidInput, \"utf8 decoder failed\")\n    }\n\n    fn reset(&mut self) {\n        self.state = UTF8DFA.start();")]},
    {"id": "C02-benign-raw-len-guard", "prop": "C02", "benign": True,
     "edits": [(_D, _RAW_EV, _RAW_EV.replace("if reject.is_empty() {", "if reject.len() == 0 {"))]},
    {"id": "C02-benign-raw-positive-guard", "prop": "C02", "benign": True,
     "edits": [(_D, _RAW_EV, "                if 0 < reject.len() {\n                    tracing::info!(\n                        \"[TTYEventDecoder.decode] unhandled: {:?}\",\n                        String::from_utf8_lossy(&reject)\n                    );\n"
                "                    Some(TerminalEvent::Raw(reject.to_vec()))\n                } else {\n                    None\n                }")]},
    {"id": "C02-benign-hex-hoisted-nibbles", "prop": "C02", "benign": True,
     "edits": [(_D, "        .map(move |pair| Some((value(pair[0])? << 4) | value(pair[1])?))", "        .map(move |digits| {\n            let high = value(digits[0])?;\n            let low = value(digits[1])?;\n            Some((high << 4) | low)\n        })")]},
    {"id": "C02-benign-tagged-index-renamed", "prop": "C02", "benign": True,
     "edits": [(_D, "        let automata = NFA::choice(matchers.iter().enumerate().map(|(index, matcher)| {\n            match matcher.matcher() {\n                Either::Left(automata) => {\n                    automata\n"
                "                        // this call only here to convert type as [Void] cannot be created\n                        .tags_map(|_| MatcherTag::Matcher(index))\n                        .tag_stop_state(MatcherTag::Matcher(index))\n                }\n"
                "                Either::Right(automata) => automata.tags_map(MatcherTag::Item),\n            }\n        }))",
                "        let automata = NFA::choice(matchers.iter().enumerate().map(|entry| {\n            let (position, matcher) = entry;\n            match matcher.matcher() {\n                Either::Right(automata) => automata.tags_map(MatcherTag::Item),\n"
                "                Either::Left(automata) => {\n                    let tag = MatcherTag::Matcher(position);\n                    automata\n                        .tags_map(|_| MatcherTag::Matcher(position))\n                        .tag_stop_state(tag)\n                }\n"
                "            }\n        }))")]},
    # near misses: must be reported
    {"id": "C02-utf8-push-before-transition", "prop": "C02", "expect": "UTF8-CAP",
     "edits": [(_D, "            consume += 1;\n            match UTF8DFA.transition(self.state, *byte) {", "            consume += 1;\n            self.push(*byte);\n            match UTF8DFA.transition(self.state, *byte) {"),
               (_D, "                Some(state) if UTF8DFA.info(state).is_accepting => {\n                    self.push(*byte);\n", "                Some(state) if UTF8DFA.info(state).is_accepting => {\n"),
               (_D, "                Some(state) => {\n                    self.push(*byte);\n                    self.state = state;", "                Some(state) => {\n                    self.state = state;")]},
    {"id": "C02-utf8-offset-plus-two", "prop": "C02", "expect": "UTF8-CAP",
     "edits": [(_D, "        self.buffer[self.offset] = byte;\n        self.offset += 1;", "        self.buffer[self.offset] = byte;\n        self.offset += 2;")]},
    {"id": "C02-utf8-consume-keeps-offset", "prop": "C02", "expect": "UTF8-CAP",
     "edits": [(_D, "        let result = utf8_decode(&self.buffer[..self.offset]);\n        self.reset();\n        result",
                "        let result = utf8_decode(&self.buffer[..self.offset]);\n        self.state = UTF8DFA.start();\n        result")]},
    {"id": "C02-raw-guard-flipped", "prop": "C02", "expect": "RAW-NONEMPTY",
     "edits": [(_D, _RAW_EV, _RAW_EV.replace("if reject.is_empty() {", "if !reject.is_empty() {"))]},
    {"id": "C02-tagged-constant-index", "prop": "C02", "expect": "TAGGED-ACCEPT",
     "edits": [(_D, "                        .tag_stop_state(MatcherTag::Matcher(index))", "                        .tag_stop_state(MatcherTag::Matcher(0))")]},
]


MUTANTS += [
    {"id": "C02-benign-union-built-in-for-loop", "prop": "C02", "benign": True,
     "edits": [("src/decoder.rs", '        let automata = NFA::choice(matchers.iter().enumerate().map(|(index, matcher)| {\n            match matcher.matcher() {\n                Either::Left(automata) => {\n                    automata\n                        // this call only here to convert type as [Void] cannot be created\n                        .tags_map(|_| MatcherTag::Matcher(index))\n                        .tag_stop_state(MatcherTag::Matcher(index))\n                }\n                Either::Right(automata) => automata.tags_map(MatcherTag::Item),\n            }\n        }))\n        .compile();\n', '        let mut alternatives = Vec::with_capacity(matchers.len());\n        for (index, matcher) in matchers.iter().enumerate() {\n            let alternative = match matcher.matcher() {\n                Either::Left(automata) => automata\n                    .tags_map(|_| MatcherTag::Matcher(index))\n                    .tag_stop_state(MatcherTag::Matcher(index)),\n                Either::Right(automata) => automata.tags_map(MatcherTag::Item),\n            };\n            alternatives.push(alternative);\n        }\n        let automata = NFA::choice(alternatives).compile();\n')]},
]


MUTANTS += [
    {"id": "C02-benign-raw-shared-helper-map-ctor", "prop": "C02", "benign": True,
     "edits": [("src/decoder.rs", '        let event = self\n            .matcher\n            .decode(buf)?\n            .transpose()\n            .unwrap_or_else(|reject| {\n                if reject.is_empty() {\n                    return None;\n                }\n                tracing::info!(\n                    "[TTYEventDecoder.decode] unhandled: {:?}",\n                    String::from_utf8_lossy(&reject)\n                );\n                Some(TerminalEvent::Raw(reject.into_vec()))\n            });\n', '        let event = match self.matcher.decode(buf)? {\n            None => None,\n            Some(Ok(event)) => Some(event),\n            Some(Err(reject)) => unhandled_bytes(reject).map(TerminalEvent::Raw),\n        };\n'), ("src/decoder.rs", '        let cmd = self\n            .matcher\n            .decode(buf)?\n            .transpose()\n            .unwrap_or_else(|reject| {\n                if reject.is_empty() {\n                    return None;\n                }\n                tracing::info!(\n                    "[TTYEventDecoder.decode] unhandled: {:?}",\n                    String::from_utf8_lossy(&reject)\n                );\n                Some(TerminalCommand::Raw(reject.into_vec()))\n            });\n', '        let cmd = match self.matcher.decode(buf)? {\n            None => None,\n            Some(Ok(cmd)) => Some(cmd),\n            Some(Err(reject)) => unhandled_bytes(reject).map(TerminalCommand::Raw),\n        };\n'), ("src/decoder.rs", '#[derive(Clone)]\nenum Void {}\n', '/// Bytes rejected by the matcher automata, `None` when there is nothing to report\nfn unhandled_bytes(reject: MatcherBuffer) -> Option<Vec<u8>> {\n    if reject.is_empty() {\n        return None;\n    }\n    tracing::info!(\n        "[TTYEventDecoder.decode] unhandled: {:?}",\n        String::from_utf8_lossy(&reject)\n    );\n    Some(reject.into_vec())\n}\n\n#[derive(Clone)]\nenum Void {}\n')]},
    {"id": "C02-raw-shared-helper-wrong-guard", "prop": "C02", "expect": "RAW-NONEMPTY",
     "edits": [("src/decoder.rs", '        let event = self\n            .matcher\n            .decode(buf)?\n            .transpose()\n            .unwrap_or_else(|reject| {\n                if reject.is_empty() {\n                    return None;\n                }\n                tracing::info!(\n                    "[TTYEventDecoder.decode] unhandled: {:?}",\n                    String::from_utf8_lossy(&reject)\n                );\n                Some(TerminalEvent::Raw(reject.into_vec()))\n            });\n', '        let event = match self.matcher.decode(buf)? {\n            None => None,\n            Some(Ok(event)) => Some(event),\n            Some(Err(reject)) => unhandled_bytes(reject).map(TerminalEvent::Raw),\n        };\n'), ("src/decoder.rs", '        let cmd = self\n            .matcher\n            .decode(buf)?\n            .transpose()\n            .unwrap_or_else(|reject| {\n                if reject.is_empty() {\n                    return None;\n                }\n                tracing::info!(\n                    "[TTYEventDecoder.decode] unhandled: {:?}",\n                    String::from_utf8_lossy(&reject)\n                );\n                Some(TerminalCommand::Raw(reject.into_vec()))\n            });\n', '        let cmd = match self.matcher.decode(buf)? {\n            None => None,\n            Some(Ok(cmd)) => Some(cmd),\n            Some(Err(reject)) => unhandled_bytes(reject).map(TerminalCommand::Raw),\n        };\n'), ("src/decoder.rs", '#[derive(Clone)]\nenum Void {}\n', '/// Bytes rejected by the matcher automata, `None` when there is nothing to report\nfn unhandled_bytes(reject: MatcherBuffer) -> Option<Vec<u8>> {\n    if reject.len() > 64 {\n        return None;\n    }\n    tracing::info!(\n        "[TTYEventDecoder.decode] unhandled: {:?}",\n        String::from_utf8_lossy(&reject)\n    );\n    Some(reject.into_vec())\n}\n\n#[derive(Clone)]\nenum Void {}\n')]},
]


MUTANTS += [
    {"id": "C02-benign-number-decode-try-fold-ascii-guard", "prop": "C02", "benign": True,
     "edits": [("src/decoder.rs", "    let mut result = 0usize;\n    for b in data.iter() {\n        match b {\n            b'0'..=b'9' => {\n                // numbers that do not fit are reported as unrecognized\n                result = result.checked_mul(10)?.checked_add((b - b'0') as usize)?;\n            }\n            _ => return None,\n        }\n    }\n    Some(result)\n}\n\n", "    data.iter().try_fold(0usize, |result, b| {\n        if !b.is_ascii_digit() {\n            return None;\n        }\n        // numbers that do not fit are reported as unrecognized\n        result.checked_mul(10)?.checked_add(usize::from(b - b'0'))\n    })\n}\n\n")]},
    {"id": "C02-number-decode-try-fold-wrong-class", "prop": "C02", "expect": "number_decode",
     "edits": [("src/decoder.rs", "    let mut result = 0usize;\n    for b in data.iter() {\n        match b {\n            b'0'..=b'9' => {\n                // numbers that do not fit are reported as unrecognized\n                result = result.checked_mul(10)?.checked_add((b - b'0') as usize)?;\n            }\n            _ => return None,\n        }\n    }\n    Some(result)\n}\n\n", "    data.iter().try_fold(0usize, |result, b| {\n        if !b.is_ascii_hexdigit() {\n            return None;\n        }\n        // numbers that do not fit are reported as unrecognized\n        result.checked_mul(10)?.checked_add(usize::from(b - b'A'))\n    })\n}\n\n")]},
]


MUTANTS += [
    {"id": "C02-benign-utf8-push-inlined-by-hand", "prop": "C02", "benign": True,
     "edits": [("src/decoder.rs", '                    self.push(*byte);\n                    buf.consume(consume);\n                    return Ok(Some(self.consume()));', '                    self.buffer[self.offset] = *byte;\n                    self.offset += 1;\n                    buf.consume(consume);\n                    return Ok(Some(self.consume()));'), ("src/decoder.rs", '                    self.push(*byte);\n                    self.state = state;', '                    self.buffer[self.offset] = *byte;\n                    self.offset += 1;\n                    self.state = state;'), ("src/decoder.rs", '    fn push(&mut self, byte: u8) {\n        self.buffer[self.offset] = byte;\n        self.offset += 1;\n    }\n\n', '')]},
    {"id": "C02-utf8-push-inlined-store-after-increment", "prop": "C02", "expect": "Utf8Decoder",
     "edits": [("src/decoder.rs", '                    self.push(*byte);\n                    buf.consume(consume);\n                    return Ok(Some(self.consume()));', '                    self.buffer[self.offset] = *byte;\n                    self.offset += 1;\n                    buf.consume(consume);\n                    return Ok(Some(self.consume()));'), ("src/decoder.rs", '                    self.push(*byte);\n                    self.state = state;', '                    self.state = state;\n                    self.offset += 1;\n                    self.buffer[self.offset] = *byte;'), ("src/decoder.rs", '    fn push(&mut self, byte: u8) {\n        self.buffer[self.offset] = byte;\n        self.offset += 1;\n    }\n\n', '')]},
]


# ---- round 4 (C03-J): the Raw constructor handed to a private generic helper that applies it under the guard
_EV_OLD = '        let event = self\n            .matcher\n            .decode(buf)?\n            .transpose()\n            .unwrap_or_else(|reject| {\n                if reject.is_empty() {\n                    return None;\n                }\n                tracing::info!(\n                    "[TTYEventDecoder.decode] unhandled: {:?}",\n                    String::from_utf8_lossy(&reject)\n                );\n                Some(TerminalEvent::Raw(reject.into_vec()))\n            });\n        Ok(event)\n    }\n}\n'
MUTANTS += [
    {"id": 'C02-benign-raw-ctor-through-helper', "prop": "C02", "benign": True,
     "edits": [("src/decoder.rs", _EV_OLD, '        let decoded = self.matcher.decode(buf)?;\n        Ok(item_or_raw(decoded, TerminalEvent::Raw))\n    }\n}\n\nfn item_or_raw<T>(decoded: Option<Result<T, MatcherBuffer>>, raw: impl FnOnce(Vec<u8>) -> T) -> Option<T> {\n    match decoded {\n        None => None,\n        Some(Ok(item)) => Some(item),\n        Some(Err(reject)) if reject.is_empty() => None,\n        Some(Err(reject)) => Some(raw(reject.into_vec())),\n    }\n}\n')]},
    {"id": 'C02-benign-raw-ctor-through-helper-len-guard', "prop": "C02", "benign": True,
     "edits": [("src/decoder.rs", _EV_OLD, '        let decoded = self.matcher.decode(buf)?;\n        Ok(item_or_raw(decoded, TerminalEvent::Raw))\n    }\n}\n\nfn item_or_raw<T>(decoded: Option<Result<T, MatcherBuffer>>, raw: impl FnOnce(Vec<u8>) -> T) -> Option<T> {\n    match decoded {\n        None => None,\n        Some(Ok(item)) => Some(item),\n        Some(Err(reject)) => {\n            if reject.len() > 0 {\n                let make = raw;\n                Some(make(reject.into_vec()))\n            } else {\n                None\n            }\n        }\n    }\n}\n')]},
    {"id": 'C02-raw-ctor-through-helper-unguarded', "prop": "C02", "expect": 'RAW-NONEMPTY',
     "edits": [("src/decoder.rs", _EV_OLD, '        let decoded = self.matcher.decode(buf)?;\n        Ok(item_or_raw(decoded, TerminalEvent::Raw))\n    }\n}\n\nfn item_or_raw<T>(decoded: Option<Result<T, MatcherBuffer>>, raw: impl FnOnce(Vec<u8>) -> T) -> Option<T> {\n    match decoded {\n        None => None,\n        Some(Ok(item)) => Some(item),\n        Some(Err(reject)) => Some(raw(reject.into_vec())),\n    }\n}\n')]},
    {"id": 'C02-raw-ctor-through-helper-flipped-guard', "prop": "C02", "expect": 'RAW-NONEMPTY',
     "edits": [("src/decoder.rs", _EV_OLD, '        let decoded = self.matcher.decode(buf)?;\n        Ok(item_or_raw(decoded, TerminalEvent::Raw))\n    }\n}\n\nfn item_or_raw<T>(decoded: Option<Result<T, MatcherBuffer>>, raw: impl FnOnce(Vec<u8>) -> T) -> Option<T> {\n    match decoded {\n        None => None,\n        Some(Ok(item)) => Some(item),\n        Some(Err(reject)) if !reject.is_empty() => None,\n        Some(Err(reject)) => Some(raw(reject.into_vec())),\n    }\n}\n')]},
]


# ---- round M3: named constant for the UTF-8 buffer capacity; Raw / `x - b'0'` inside a closure that runs only under `cond.then(|| ..)`
_RAW_THEN = ("                (!reject.is_empty()).then(|| {\n                    tracing::info!(\n                        \"[TTYEventDecoder.decode] unhandled: {:?}\",\n"
             "                        String::from_utf8_lossy(&reject)\n                    );\n                    TerminalEvent::Raw(reject.into_vec())\n                })")
_NUM_OLD = ("        match b {\n            b'0'..=b'9' => {\n                // numbers that do not fit are reported as unrecognized\n"
            "                result = result.checked_mul(10)?.checked_add((b - b'0') as usize)?;\n            }\n            _ => return None,\n        }\n")


def _cap_edits(n, ty="[u8; UTF8_CAP]"):
    return [(_D, "    buffer: [u8; 4],\n}\n\nimpl Default for Utf8Decoder", "    buffer: %s,\n}\n\nconst UTF8_CAP: usize = %s;\n\nimpl Default for Utf8Decoder" % (ty, n)),
            (_D, "            buffer: [0; 4],", "            buffer: [0; UTF8_CAP],")]


MUTANTS += [
    {"id": "C02-benign-utf8-capacity-named-const", "prop": "C02", "benign": True, "edits": _cap_edits("4")},
    {"id": "C02-benign-utf8-capacity-const-expression", "prop": "C02", "benign": True, "edits": _cap_edits("2 * 2")},
    {"id": "C02-utf8-capacity-named-const-too-small", "prop": "C02", "expect": "UTF8-CAP", "edits": _cap_edits("3")},
    {"id": "C02-benign-raw-under-bool-then", "prop": "C02", "benign": True, "edits": [(_D, _RAW_EV, _RAW_THEN)]},
    {"id": "C02-benign-raw-under-len-then", "prop": "C02", "benign": True, "edits": [(_D, _RAW_EV, _RAW_THEN.replace("(!reject.is_empty()).then", "(reject.len() > 0).then"))]},
    {"id": "C02-raw-under-bool-then-flipped", "prop": "C02", "expect": "RAW-NONEMPTY", "edits": [(_D, _RAW_EV, _RAW_THEN.replace("(!reject.is_empty()).then", "reject.is_empty().then"))]},
    {"id": "C02-raw-under-unrelated-then", "prop": "C02", "expect": "RAW-NONEMPTY", "edits": [(_D, _RAW_EV, _RAW_THEN.replace("(!reject.is_empty()).then", "(reject.len() < 64).then"))]},
    {"id": "C02-benign-digit-under-is-ascii-digit-then", "prop": "C02", "benign": True,
     "edits": [(_D, _NUM_OLD, "        let digit = b.is_ascii_digit().then(|| (b - b'0') as usize)?;\n        result = result.checked_mul(10)?.checked_add(digit)?;\n")]},
    {"id": "C02-digit-under-wider-class-then", "prop": "C02", "expect": "number_decode",
     "edits": [(_D, _NUM_OLD, "        let digit = b.is_ascii_graphic().then(|| (b - b'0') as usize)?;\n        result = result.checked_mul(10)?.checked_add(digit)?;\n")]},
    {"id": "C02-digit-under-negated-then", "prop": "C02", "expect": "number_decode",
     "edits": [(_D, _NUM_OLD, "        let digit = (!b.is_ascii_digit()).then(|| (b - b'0') as usize)?;\n        result = result.checked_mul(10)?.checked_add(digit)?;\n")]},
]
