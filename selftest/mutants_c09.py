MUTANTS = [
    {"id": "C09-write-returns-len-always", "prop": "C09", "expect": "WRITER-FOLD",
     "edits": [("src/render.rs", "                TerminalCommand::Image(image, _) => {\n                    self.parent.put_image(image);\n                }\n                _ => continue,\n            }\n        }\n        Ok(cur.position() as usize)", "                TerminalCommand::Image(image, _) => {\n                    self.parent.put_image(image);\n                }\n                _ => continue,\n            }\n        }\n        Ok(buf.len())")]},
    {"id": "C09-fresh-decoder-per-write", "prop": "C09", "expect": "WRITER-FOLD",
     "edits": [("src/render.rs", "impl std::io::Write for TerminalWriter<'_> {\n    fn write(&mut self, buf: &[u8]) -> std::io::Result<usize> {\n        let mut cur = std::io::Cursor::new(buf);\n        while let Some(ch) = self.decoder.decode(&mut cur)? {", "impl std::io::Write for TerminalWriter<'_> {\n    fn write(&mut self, buf: &[u8]) -> std::io::Result<usize> {\n        let mut cur = std::io::Cursor::new(buf);\n        let mut decoder = std::mem::take(&mut self.decoder);\n        while let Some(ch) = decoder.decode(&mut cur)? {")]},
    {"id": "C09-len-return-on-success-edge", "prop": "C09", "expect": "WRITER-FOLD",
     "edits": [("src/render.rs", "impl<W> std::io::Write for Utf8CellWriter<W>\nwhere\n    W: CellWrite,\n{\n    fn write(&mut self, buf: &[u8]) -> std::io::Result<usize> {\n        let mut cur = std::io::Cursor::new(buf);\n        while let Some(ch) = self.decoder.decode(&mut cur)? {\n            if !self.parent.put_char(ch) {", "impl<W> std::io::Write for Utf8CellWriter<W>\nwhere\n    W: CellWrite,\n{\n    fn write(&mut self, buf: &[u8]) -> std::io::Result<usize> {\n        let mut cur = std::io::Cursor::new(buf);\n        while let Some(ch) = self.decoder.decode(&mut cur)? {\n            if self.parent.put_char(ch) {")]},
    {"id": "C09-fill-loop-beyond-height", "prop": "C09", "expect": "CONTAIN",
     "edits": [("src/render.rs", "for row in cursor_start.row..min(self.cursor.row + 1, shape.height) {", "for row in cursor_start.row..self.cursor.row + 1 {")]},
    {"id": "C09-direct-data-write", "prop": "C09", "expect": "CONTAIN",
     "edits": [("src/render.rs", "            if let Some(cell_ref) = self.surf.get_mut(pos) {\n                cell_ref.overlay(cell.with_face(face));\n                true\n            } else {\n                false\n            }", "            let offset = self.surf.shape().offset(pos);\n            if let Some(cell_ref) = self.surf.data_mut().get_mut(offset) {\n                cell_ref.overlay(cell.with_face(face));\n                true\n            } else {\n                false\n            }")]},
    {"id": "C09-writer-ignores-wraps", "prop": "C09", "expect": "SHARED-LAYOUT",
     "edits": [("src/render.rs", "            self.size().width,\n            self.wraps,\n            &mut self.size,\n            &mut self.cursor,", "            self.size().width,\n            true,\n            &mut self.size,\n            &mut self.cursor,")]},
    {"id": "C09-benign-rename-cursor", "prop": "C09", "benign": True,
     "edits": [("src/render.rs", "impl std::io::Write for TerminalWriter<'_> {\n    fn write(&mut self, buf: &[u8]) -> std::io::Result<usize> {\n        let mut cur = std::io::Cursor::new(buf);\n        while let Some(ch) = self.decoder.decode(&mut cur)? {\n            if !self.put_char(ch) {\n                return Ok(buf.len());\n            }\n        }\n        Ok(cur.position() as usize)", "impl std::io::Write for TerminalWriter<'_> {\n    fn write(&mut self, buf: &[u8]) -> std::io::Result<usize> {\n        let mut reader = std::io::Cursor::new(buf);\n        while let Some(ch) = self.decoder.decode(&mut reader)? {\n            if !self.put_char(ch) {\n                return Ok(buf.len());\n            }\n        }\n        Ok(reader.position() as usize)")]},
    {"id": "C09-fallback-width-by-char-count", "prop": "C09", "expect": "MEASURE-FALLBACK",
     "edits": [("src/render.rs", "                            .map(|c| c.width().unwrap_or(0))\n                            .sum(),", "                            .map(|_| 1)\n                            .sum(),")]},
    {"id": "C09-sink-full-on-nowrap-overflow", "prop": "C09", "expect": "SINK-FULL",
     "edits": [("src/render.rs", "            true\n        } else {\n            true\n        }\n    }\n}\n\nimpl std::io::Write for TerminalWriter", "            true\n        } else {\n            self.wraps || self.cursor.col < self.size().width\n        }\n    }\n}\n\nimpl std::io::Write for TerminalWriter")]},
    # ---- WRAPS-AGREE: the writer Text::render drives carries the wraps flag Text::layout measured with ----
    {"id": "C09-seedD-render-via-put-text", "prop": "C09", "expect": "WRAPS-AGREE",
     "edits": [("src/view/text.rs", '        let mut writer = surf.writer(ctx).with_wraps(self.wraps);\n        self.cells.iter().for_each(|cell| {\n            writer.put_cell(cell.clone());\n        });\n', "        surf.writer(ctx).put_text(self);\n")]},
    {"id": "C09-render-drops-with-wraps", "prop": "C09", "expect": "WRAPS-AGREE",
     "edits": [("src/view/text.rs", "let mut writer = surf.writer(ctx).with_wraps(self.wraps);", "let mut writer = surf.writer(ctx);")]},
    {"id": "C09-render-via-with-text", "prop": "C09", "expect": "WRAPS-AGREE",
     "edits": [("src/view/text.rs", '        let mut writer = surf.writer(ctx).with_wraps(self.wraps);\n        self.cells.iter().for_each(|cell| {\n            writer.put_cell(cell.clone());\n        });\n', "        surf.writer(ctx).with_text(self);\n")]},
    {"id": "C09-render-set-wraps-back", "prop": "C09", "expect": "WRAPS-AGREE",
     "edits": [("src/view/text.rs", "let mut writer = surf.writer(ctx).with_wraps(self.wraps);", "let mut writer = surf.writer(ctx).with_wraps(self.wraps);\n        writer.set_wraps(true);")]},
    {"id": "C09-render-inverted-wraps", "prop": "C09", "expect": "WRAPS-AGREE",
     "edits": [("src/view/text.rs", "let mut writer = surf.writer(ctx).with_wraps(self.wraps);", "let mut writer = surf.writer(ctx).with_wraps(!self.wraps);")]},
    {"id": "C09-writer-default-nowrap", "prop": "C09", "expect": "WRAPS-AGREE",
     "edits": [("src/render.rs", "        Self {\n            ctx,\n            wraps: true,\n            face: Default::default(),", "        Self {\n            ctx,\n            wraps: false,\n            face: Default::default(),")]},
    {"id": "C09-with-wraps-inverted", "prop": "C09", "expect": "WRAPS-AGREE",
     "edits": [("src/render.rs", "        self.set_wraps(wraps);\n        self\n", "        self.set_wraps(!wraps);\n        self\n")]},
    {"id": "C09-benign-put-text-with-wraps", "prop": "C09", "benign": True,
     "edits": [("src/view/text.rs", '        let mut writer = surf.writer(ctx).with_wraps(self.wraps);\n        self.cells.iter().for_each(|cell| {\n            writer.put_cell(cell.clone());\n        });\n', "        surf.writer(ctx).with_wraps(self.wraps).put_text(self);\n")]},
    {"id": "C09-benign-set-wraps-statement", "prop": "C09", "benign": True,
     "edits": [("src/view/text.rs", "let mut writer = surf.writer(ctx).with_wraps(self.wraps);", "let mut writer = surf.writer(ctx);\n        writer.set_wraps(self.wraps);")]},
    {"id": "C09-benign-for-loop-getter", "prop": "C09", "benign": True,
     "edits": [("src/view/text.rs", '        let mut writer = surf.writer(ctx).with_wraps(self.wraps);\n        self.cells.iter().for_each(|cell| {\n            writer.put_cell(cell.clone());\n        });\n', "        let wraps = self.wraps();\n        let mut out = surf.writer(ctx).with_face(Face::default()).with_wraps(wraps);\n        for cell in self.cells.iter() {\n            out.put_cell(cell.clone());\n        }\n")]},
    {"id": "C09-benign-put-text-honours-wraps", "prop": "C09", "benign": True,
     "edits": [("src/view/text.rs", '        let mut writer = surf.writer(ctx).with_wraps(self.wraps);\n        self.cells.iter().for_each(|cell| {\n            writer.put_cell(cell.clone());\n        });\n', "        surf.writer(ctx).put_text(self);\n"),
               ("src/render.rs", '        text.cells().iter().cloned().for_each(|cell| {\n            self.put_cell(cell);\n        });\n        self\n', '        let wraps = self.set_wraps(text.wraps());\n        text.cells().iter().cloned().for_each(|cell| {\n            self.put_cell(cell);\n        });\n        self.set_wraps(wraps);\n        self\n')]},
]

# ---- robustness round: behaviour-preserving refactorings that must stay silent, and their breaking twins -------------------
R_ = "src/render.rs"
T_ = "src/view/text.rs"
_FILL_OLD = """        } else if cursor_start != self.cursor {
            // cursor has been moved by special character, and we want to fill
            // skipped cells with current face
            let shape = self.surf.shape();
            let data = self.surf.data_mut();

            let start = shape.offset(cursor_start);
            let end = shape.offset(self.cursor);

            for row in cursor_start.row..min(self.cursor.row + 1, shape.height) {
                for col in 0..shape.width {
                    let offset = shape.offset(Position::new(row, col));
                    if (start..end).contains(&offset) {
                        let cell = &mut data[offset];
                        cell.face = cell.face.overlay(&face);
                    }
                }
            }
            true
        } else {
            true
        }
    }
}
"""
_FILL_CALL = """        } else {
            if cursor_start != self.cursor {
                self.fill_skipped(cursor_start, face);
            }
            true
        }
    }
}

impl TerminalWriter<'_> {
    fn fill_skipped(&mut self, from: Position, face: Face) {
        let to = self.cursor;
        let shape = self.surf.shape();
        let data = self.surf.data_mut();
        let start = shape.offset(from);
        let end = shape.offset(to);
        for row in %s {
            for col in 0..shape.width {
                let offset = shape.offset(Position::new(row, col));
                if (start..end).contains(&offset) {
                    let skipped = &mut data[offset];
                    skipped.face = skipped.face.overlay(&face);
                }
            }
        }
    }
}
"""
_TW_WRITE = "impl std::io::Write for TerminalWriter<'_> {\n    fn write(&mut self, buf: &[u8]) -> std::io::Result<usize> {\n        let mut cur = std::io::Cursor::new(buf);\n        while let Some(ch) = self.decoder.decode(&mut cur)? {\n            if !self.put_char(ch) {\n                return Ok(buf.len());\n            }\n        }\n        Ok(cur.position() as usize)"
_TW_HEAD = "impl std::io::Write for TerminalWriter<'_> {\n    fn write(&mut self, buf: &[u8]) -> std::io::Result<usize> {\n        let mut cur = std::io::Cursor::new(buf);\n"
_GET_MUT = "            if let Some(cell_ref) = self.surf.get_mut(pos) {\n                cell_ref.overlay(cell.with_face(face));\n                true\n            } else {\n                false\n            }"
_TEXT_LAYOUT = "        self.cells.iter().for_each(|cell| {\n            cell.layout(ctx, ct.max.width, self.wraps, &mut size, &mut cursor);\n        });\n"
_TEXT_RENDER = "        let mut writer = surf.writer(ctx).with_wraps(self.wraps);\n        self.cells.iter().for_each(|cell| {\n            writer.put_cell(cell.clone());\n        });\n"
_STR_LAYOUT = "        self.chars().for_each(|c| {\n            Cell::new_char(face, c).layout(ctx, ct.max.width, true, &mut size, &mut cursor);\n        });\n"
MUTANTS += [
    # helper extraction (seeded/benign C09-A)
    {"id": "C09-benign-fill-helper", "prop": "C09", "benign": True,
     "edits": [(R_, _FILL_OLD, _FILL_CALL % "from.row..min(to.row + 1, shape.height)")]},
    {"id": "C09-fill-helper-beyond-height", "prop": "C09", "expect": "CONTAIN",
     "edits": [(R_, _FILL_OLD, _FILL_CALL % "from.row..to.row + 1")]},
    # hoisted invariants + exact fast path (seeded/benign C09-C)
    {"id": "C09-benign-fill-hoisted", "prop": "C09", "benign": True,
     "edits": [(R_, "            for row in cursor_start.row..min(self.cursor.row + 1, shape.height) {\n                for col in 0..shape.width {\n                    let offset = shape.offset(Position::new(row, col));\n                    if (start..end).contains(&offset) {",
                "            if start >= end {\n                return true;\n            }\n            let skipped = start..end;\n            let row_end = min(self.cursor.row + 1, shape.height);\n            for row in cursor_start.row..row_end {\n                for col in 0..shape.width {\n                    let offset = shape.offset(Position::new(row, col));\n                    if skipped.contains(&offset) {")]},
    {"id": "C09-benign-fill-min-swapped-rows-local", "prop": "C09", "benign": True,
     "edits": [(R_, "            for row in cursor_start.row..min(self.cursor.row + 1, shape.height) {", "            let rows = cursor_start.row..min(shape.height, self.cursor.row + 1);\n            for row in rows {")]},
    {"id": "C09-fill-cols-beyond-width", "prop": "C09", "expect": "CONTAIN",
     "edits": [(R_, "                for col in 0..shape.width {\n                    let offset = shape.offset(Position::new(row, col));\n                    if (start..end)", "                for col in 0..shape.width + 1 {\n                    let offset = shape.offset(Position::new(row, col));\n                    if (start..end)")]},
    {"id": "C09-fill-offset-shifted", "prop": "C09", "expect": "CONTAIN",
     "edits": [(R_, "                        let cell = &mut data[offset];\n", "                        let cell = &mut data[offset + 1];\n")]},
    # loop <-> iterator chain in the measuring routines
    {"id": "C09-benign-text-layout-for-loop", "prop": "C09", "benign": True,
     "edits": [(T_, _TEXT_LAYOUT, "        let (max_width, wraps) = (ct.max.width, self.wraps);\n        for cell in &self.cells {\n            cell.layout(ctx, max_width, wraps, &mut size, &mut cursor);\n        }\n")]},
    {"id": "C09-text-layout-for-loop-always-wraps", "prop": "C09", "expect": "C09/",
     "edits": [(T_, _TEXT_LAYOUT, "        let (max_width, wraps) = (ct.max.width, true);\n        for cell in &self.cells {\n            cell.layout(ctx, max_width, wraps, &mut size, &mut cursor);\n        }\n")]},
    {"id": "C09-benign-str-layout-for-loop", "prop": "C09", "benign": True,
     "edits": [(T_, _STR_LAYOUT, "        for c in self.chars() {\n            Cell::new_char(face, c).layout(ctx, ct.max.width, true, &mut size, &mut cursor);\n        }\n")]},
    {"id": "C09-benign-text-layout-helper", "prop": "C09", "benign": True,
     "edits": [(T_, "        let mut size = Size::empty();\n        let mut cursor = Position::origin();\n" + _TEXT_LAYOUT, "        let size = self.measure(ctx, ct.max.width);\n"),
               (T_, "impl View for Text {\n", "impl Text {\n    fn measure(&self, ctx: &ViewContext, width: usize) -> Size {\n        let mut size = Size::empty();\n        let mut cursor = Position::origin();\n        for cell in self.cells.iter() {\n            cell.layout(ctx, width, self.wraps, &mut size, &mut cursor);\n        }\n        size\n    }\n}\n\nimpl View for Text {\n")]},
    {"id": "C09-text-layout-helper-min-width", "prop": "C09", "expect": "SHARED-LAYOUT",
     "edits": [(T_, "        let mut size = Size::empty();\n        let mut cursor = Position::origin();\n" + _TEXT_LAYOUT, "        let size = self.measure(ctx, ct.min.width);\n"),
               (T_, "impl View for Text {\n", "impl Text {\n    fn measure(&self, ctx: &ViewContext, width: usize) -> Size {\n        let mut size = Size::empty();\n        let mut cursor = Position::origin();\n        for cell in self.cells.iter() {\n            cell.layout(ctx, width, self.wraps, &mut size, &mut cursor);\n        }\n        size\n    }\n}\n\nimpl View for Text {\n")]},
    {"id": "C09-benign-text-render-helper", "prop": "C09", "benign": True,
     "edits": [(T_, _TEXT_RENDER, "        let mut writer = surf.writer(ctx).with_wraps(self.wraps);\n        self.write_cells(&mut writer);\n"),
               (T_, "impl View for Text {\n", "impl Text {\n    fn write_cells(&self, writer: &mut impl CellWrite) {\n        for cell in self.cells.iter() {\n            writer.put_cell(cell.clone());\n        }\n    }\n}\n\nimpl View for Text {\n")]},
    # io::Write adapters
    {"id": "C09-benign-write-full-flag", "prop": "C09", "benign": True,
     "edits": [(R_, _TW_WRITE, _TW_HEAD + "        while let Some(ch) = self.decoder.decode(&mut cur)? {\n            let full = !self.put_char(ch);\n            if full {\n                return Ok(buf.len());\n            }\n        }\n        Ok(cur.position() as usize)")]},
    {"id": "C09-write-full-flag-inverted", "prop": "C09", "expect": "WRITER-FOLD",
     "edits": [(R_, _TW_WRITE, _TW_HEAD + "        while let Some(ch) = self.decoder.decode(&mut cur)? {\n            let full = self.put_char(ch);\n            if full {\n                return Ok(buf.len());\n            }\n        }\n        Ok(cur.position() as usize)")]},
    {"id": "C09-benign-write-loop-match", "prop": "C09", "benign": True,
     "edits": [(R_, _TW_WRITE, _TW_HEAD + "        loop {\n            match self.decoder.decode(&mut cur)? {\n                None => break,\n                Some(ch) => {\n                    if self.put_char(ch) {\n                        continue;\n                    }\n                    return Ok(buf.len());\n                }\n            }\n        }\n        let consumed = cur.position() as usize;\n        Ok(consumed)")]},
    # the sink-full signal
    {"id": "C09-benign-put-cell-let-else", "prop": "C09", "benign": True,
     "edits": [(R_, _GET_MUT, "            let Some(cell_ref) = self.surf.get_mut(pos) else {\n                return false;\n            };\n            cell_ref.overlay(cell.with_face(face));\n            true")]},
    {"id": "C09-benign-put-cell-match-reordered", "prop": "C09", "benign": True,
     "edits": [(R_, _GET_MUT, "            match self.surf.get_mut(pos) {\n                None => false,\n                Some(cell_ref) => {\n                    cell_ref.overlay(cell.with_face(face));\n                    true\n                }\n            }")]},
    {"id": "C09-benign-put-cell-is-some", "prop": "C09", "benign": True,
     "edits": [(R_, _GET_MUT, "            self.surf\n                .get_mut(pos)\n                .map(|cell_ref| {\n                    cell_ref.overlay(cell.with_face(face));\n                })\n                .is_some()")]},
    {"id": "C09-benign-put-cell-write-helper", "prop": "C09", "benign": True,
     "edits": [(R_, _GET_MUT, "            self.write_at(pos, cell.with_face(face))"),
               (R_, "impl std::io::Write for TerminalWriter<'_> {\n", "impl TerminalWriter<'_> {\n    fn write_at(&mut self, pos: Position, cell: Cell) -> bool {\n        match self.surf.get_mut(pos) {\n            Some(cell_ref) => {\n                cell_ref.overlay(cell);\n                true\n            }\n            None => false,\n        }\n    }\n}\n\nimpl std::io::Write for TerminalWriter<'_> {\n")]},
    {"id": "C09-put-cell-helper-full-when-unmoved", "prop": "C09", "expect": "SINK-FULL",
     "edits": [(R_, "            true\n        } else {\n            true\n        }\n    }\n}\n\nimpl std::io::Write for TerminalWriter", "            true\n        } else {\n            self.moved(cursor_start)\n        }\n    }\n}\n\nimpl TerminalWriter<'_> {\n    fn moved(&self, from: Position) -> bool {\n        from != self.cursor\n    }\n}\n\nimpl std::io::Write for TerminalWriter")]},
    {"id": "C09-benign-layout-width-hoisted", "prop": "C09", "benign": True,
     "edits": [(R_, "        let cursor_start = self.cursor;\n        if let Some(pos) = cell.layout(\n            &self.ctx,\n            self.size().width,\n            self.wraps,", "        let cursor_start = self.cursor;\n        let (width, wraps) = (self.size().width, self.wraps);\n        if let Some(pos) = cell.layout(\n            &self.ctx,\n            width,\n            wraps,")]},
    # measuring a glyph fallback
    {"id": "C09-benign-fallback-width-fold", "prop": "C09", "benign": True,
     "edits": [(R_, "                            .map(|c| c.width().unwrap_or(0))\n                            .sum(),", "                            .fold(0, |total, c| total + c.width().unwrap_or(0)),")]},
    {"id": "C09-fallback-width-fold-count", "prop": "C09", "expect": "MEASURE-FALLBACK",
     "edits": [(R_, "                            .map(|c| c.width().unwrap_or(0))\n                            .sum(),", "                            .fold(0, |total, _| total + 1),")]},
]

MUTANTS += [
    {"id": "C09-benign-set-wraps-assign", "prop": "C09", "benign": True,
     "edits": [(R_, "\n    fn set_wraps(&mut self, wraps: bool) -> bool {\n        std::mem::replace(&mut self.wraps, wraps)\n", "\n    fn set_wraps(&mut self, wraps: bool) -> bool {\n        let previous = self.wraps;\n        self.wraps = wraps;\n        previous\n")]},
    {"id": "C09-set-wraps-assign-ignores-arg", "prop": "C09", "expect": "WRAPS-AGREE",
     "edits": [(R_, "\n    fn set_wraps(&mut self, wraps: bool) -> bool {\n        std::mem::replace(&mut self.wraps, wraps)\n", "\n    fn set_wraps(&mut self, wraps: bool) -> bool {\n        let previous = self.wraps;\n        self.wraps = wraps || previous;\n        previous\n")]},
]

MUTANTS += [
    {"id": "C09-benign-fill-debug-assert", "prop": "C09", "benign": True,
     "edits": [(R_, "                    if (start..end).contains(&offset) {\n                        let cell = &mut data[offset];\n", "                    if (start..end).contains(&offset) {\n                        debug_assert!(offset < data.len());\n                        let cell = &mut data[offset];\n")]},
    {"id": "C09-benign-write-debug-assert", "prop": "C09", "benign": True,
     "edits": [(R_, _TW_WRITE, _TW_WRITE.replace("        Ok(cur.position() as usize)", "        debug_assert!(cur.position() as usize <= buf.len());\n        Ok(cur.position() as usize)"))]},
]

# ---- MEASURE-FALLBACK: the per-character width summed through other adaptors ---------------------------------------------------------
_FALLBACK_SUM = "                            .map(|c| c.width().unwrap_or(0))\n                            .sum(),"
MUTANTS += [
    {"id": "C09-benign-fallback-filter-map", "prop": "C09", "benign": True,
     "edits": [(R_, _FALLBACK_SUM, "                            .filter_map(|c| c.width())\n                            .sum(),")]},
    {"id": "C09-benign-fallback-filter-map-fn-item", "prop": "C09", "benign": True,
     "edits": [(R_, _FALLBACK_SUM, "                            .filter_map(UnicodeWidthChar::width)\n                            .sum(),")]},
    {"id": "C09-benign-fallback-flat-map", "prop": "C09", "benign": True,
     "edits": [(R_, _FALLBACK_SUM, "                            .flat_map(|c| c.width())\n                            .sum::<usize>(),")]},
    {"id": "C09-benign-fallback-map-flatten", "prop": "C09", "benign": True,
     "edits": [(R_, _FALLBACK_SUM, "                            .map(|c| c.width())\n                            .flatten()\n                            .sum(),")]},
    {"id": "C09-benign-fallback-unwrap-or-default", "prop": "C09", "benign": True,
     "edits": [(R_, _FALLBACK_SUM, "                            .map(|c| c.width().unwrap_or_default())\n                            .sum(),")]},
    {"id": "C09-benign-fallback-two-maps", "prop": "C09", "benign": True,
     "edits": [(R_, _FALLBACK_SUM, "                            .map(|c| c.width())\n                            .map(|w| w.unwrap_or(0))\n                            .sum(),")]},
    {"id": "C09-fallback-filter-map-then-one", "prop": "C09", "expect": "MEASURE-FALLBACK",
     "edits": [(R_, _FALLBACK_SUM, "                            .filter_map(|c| c.width())\n                            .map(|w| w.max(1))\n                            .sum(),")]},
    {"id": "C09-fallback-filter-map-is-some-count", "prop": "C09", "expect": "MEASURE-FALLBACK",
     "edits": [(R_, _FALLBACK_SUM, "                            .filter_map(|c| c.width().map(|_| 1))\n                            .sum(),")]},
    {"id": "C09-fallback-unwrap-or-one", "prop": "C09", "expect": "MEASURE-FALLBACK",
     "edits": [(R_, _FALLBACK_SUM, "                            .map(|c| c.width().unwrap_or(1))\n                            .sum(),")]},
]


# ---- round 4 (C09-J, C09-L, C10-K): fallback width in a private helper, exact fast path for the empty buffer, width through the max() getter
MUTANTS += [
    {"id": 'C09-benign-fallback-width-helper', "prop": "C09", "benign": True,
     "edits": [('src/render.rs', '                    Size {\n                        height: 1,\n                        width: glyph\n                            .fallback_str()\n                            .chars()\n                            .map(|c| c.width().unwrap_or(0))\n                            .sum(),\n                    }\n', '                    Size::new(1, glyph_fallback_width(glyph))\n'), ('src/render.rs', '#[derive(Clone, Copy, Default, PartialEq, Eq, Hash)]\nenum CellMark {', 'fn glyph_fallback_width(glyph: &Glyph) -> usize {\n    glyph.fallback_str().chars().map(|fallback_char| fallback_char.width().unwrap_or(0)).sum()\n}\n\n#[derive(Clone, Copy, Default, PartialEq, Eq, Hash)]\nenum CellMark {')]},
    {"id": 'C09-fallback-width-helper-counts-chars', "prop": "C09", "expect": 'MEASURE-FALLBACK',
     "edits": [('src/render.rs', '                    Size {\n                        height: 1,\n                        width: glyph\n                            .fallback_str()\n                            .chars()\n                            .map(|c| c.width().unwrap_or(0))\n                            .sum(),\n                    }\n', '                    Size::new(1, glyph_fallback_width(glyph))\n'), ('src/render.rs', '#[derive(Clone, Copy, Default, PartialEq, Eq, Hash)]\nenum CellMark {', 'fn glyph_fallback_width(glyph: &Glyph) -> usize {\n    glyph.fallback_str().chars().map(|_| 1usize).sum()\n}\n\n#[derive(Clone, Copy, Default, PartialEq, Eq, Hash)]\nenum CellMark {')]},
    {"id": 'C09-fallback-width-helper-unwrap-or-one', "prop": "C09", "expect": 'MEASURE-FALLBACK',
     "edits": [('src/render.rs', '                    Size {\n                        height: 1,\n                        width: glyph\n                            .fallback_str()\n                            .chars()\n                            .map(|c| c.width().unwrap_or(0))\n                            .sum(),\n                    }\n', '                    Size::new(1, glyph_fallback_width(glyph))\n'), ('src/render.rs', '#[derive(Clone, Copy, Default, PartialEq, Eq, Hash)]\nenum CellMark {', 'fn glyph_fallback_width(glyph: &Glyph) -> usize {\n    glyph.fallback_str().chars().map(|c| c.width().unwrap_or(1)).sum()\n}\n\n#[derive(Clone, Copy, Default, PartialEq, Eq, Hash)]\nenum CellMark {')]},
    {"id": 'C09-benign-write-empty-fast-path', "prop": "C09", "benign": True,
     "edits": [('src/render.rs', "impl std::io::Write for TerminalWriter<'_> {\n    fn write(&mut self, buf: &[u8]) -> std::io::Result<usize> {\n        let mut cur = std::io::Cursor::new(buf);\n", "impl std::io::Write for TerminalWriter<'_> {\n    fn write(&mut self, buf: &[u8]) -> std::io::Result<usize> {\n        if buf.is_empty() {\n            return Ok(0);\n        }\n        let mut cur = std::io::Cursor::new(buf);\n")]},
    {"id": 'C09-benign-write-empty-fast-path-len', "prop": "C09", "benign": True,
     "edits": [('src/render.rs', "impl std::io::Write for TerminalWriter<'_> {\n    fn write(&mut self, buf: &[u8]) -> std::io::Result<usize> {\n        let mut cur = std::io::Cursor::new(buf);\n", "impl std::io::Write for TerminalWriter<'_> {\n    fn write(&mut self, buf: &[u8]) -> std::io::Result<usize> {\n        if buf.len() == 0 {\n            return Ok(buf.len());\n        }\n        let mut cur = std::io::Cursor::new(buf);\n")]},
    {"id": 'C09-benign-write-empty-fast-path-negated', "prop": "C09", "benign": True,
     "edits": [('src/render.rs', "impl std::io::Write for TerminalWriter<'_> {\n    fn write(&mut self, buf: &[u8]) -> std::io::Result<usize> {\n        let mut cur = std::io::Cursor::new(buf);\n", "impl std::io::Write for TerminalWriter<'_> {\n    fn write(&mut self, buf: &[u8]) -> std::io::Result<usize> {\n        let any = !buf.is_empty();\n        if !any {\n            return Ok(0);\n        }\n        let mut cur = std::io::Cursor::new(buf);\n")]},
    {"id": 'C09-write-fast-path-on-nonempty', "prop": "C09", "expect": 'WRITER-FOLD',
     "edits": [('src/render.rs', "impl std::io::Write for TerminalWriter<'_> {\n    fn write(&mut self, buf: &[u8]) -> std::io::Result<usize> {\n        let mut cur = std::io::Cursor::new(buf);\n", "impl std::io::Write for TerminalWriter<'_> {\n    fn write(&mut self, buf: &[u8]) -> std::io::Result<usize> {\n        if !buf.is_empty() {\n            return Ok(0);\n        }\n        let mut cur = std::io::Cursor::new(buf);\n")]},
    {"id": 'C09-write-fast-path-short-buffer', "prop": "C09", "expect": 'WRITER-FOLD',
     "edits": [('src/render.rs', "impl std::io::Write for TerminalWriter<'_> {\n    fn write(&mut self, buf: &[u8]) -> std::io::Result<usize> {\n        let mut cur = std::io::Cursor::new(buf);\n", "impl std::io::Write for TerminalWriter<'_> {\n    fn write(&mut self, buf: &[u8]) -> std::io::Result<usize> {\n        if buf.len() < 2 {\n            return Ok(0);\n        }\n        let mut cur = std::io::Cursor::new(buf);\n")]},
    {"id": 'C09-write-fast-path-returns-one', "prop": "C09", "expect": 'WRITER-FOLD',
     "edits": [('src/render.rs', "impl std::io::Write for TerminalWriter<'_> {\n    fn write(&mut self, buf: &[u8]) -> std::io::Result<usize> {\n        let mut cur = std::io::Cursor::new(buf);\n", "impl std::io::Write for TerminalWriter<'_> {\n    fn write(&mut self, buf: &[u8]) -> std::io::Result<usize> {\n        if buf.is_empty() {\n            return Ok(1);\n        }\n        let mut cur = std::io::Cursor::new(buf);\n")]},
]

MUTANTS += [
    {"id": 'C09-benign-layout-width-through-getter', "prop": "C09", "benign": True,
     "edits": [('src/view/text.rs', 'cell.layout(ctx, ct.max.width, self.wraps, &mut size, &mut cursor);', 'cell.layout(ctx, ct.max().width, self.wraps, &mut size, &mut cursor);')]},
    {"id": 'C09-benign-str-layout-width-through-getter', "prop": "C09", "benign": True,
     "edits": [('src/view/text.rs', 'Cell::new_char(face, c).layout(ctx, ct.max.width, true, &mut size, &mut cursor);', 'let limit = ct.max();\n            Cell::new_char(face, c).layout(ctx, limit.width, true, &mut size, &mut cursor);')]},
    {"id": 'C09-layout-width-through-min-getter', "prop": "C09", "expect": 'SHARED-LAYOUT',
     "edits": [('src/view/text.rs', 'cell.layout(ctx, ct.max.width, self.wraps, &mut size, &mut cursor);', 'cell.layout(ctx, ct.min().width, self.wraps, &mut size, &mut cursor);')]},
    {"id": 'C09-layout-width-is-max-height', "prop": "C09", "expect": 'SHARED-LAYOUT',
     "edits": [('src/view/text.rs', 'cell.layout(ctx, ct.max.width, self.wraps, &mut size, &mut cursor);', 'cell.layout(ctx, ct.max().height, self.wraps, &mut size, &mut cursor);')]},
]


# ---- round 5 (seeded/benign C09-M): the measuring loop of `str::layout` and `Text::layout` in ONE private helper shared by both; the
# Cell::layout site is judged in each caller (arguments in the caller's vocabulary); near misses
_STR_L_OLD = ("        let mut size = Size::empty();\n        let mut cursor = Position::origin();\n        let face = Face::default();\n" + _STR_LAYOUT)
_TEXT_L_OLD = ("        let mut size = Size::empty();\n        let mut cursor = Position::origin();\n" + _TEXT_LAYOUT)
_SHARED_FN = ("fn cells_extent<C: std::borrow::Borrow<Cell>>(ctx: &ViewContext, cells: impl IntoIterator<Item = C>, max_width: usize, wraps: bool) -> Size {\n"
              "    let mut extent = Size::empty();\n    let mut cursor = Position::origin();\n    for cell in cells {\n"
              "        cell.borrow().layout(ctx, max_width, %s, &mut extent, &mut cursor);\n    }\n    extent\n}\n\nimpl View for String {\n")


def _shared(str_call, text_call, inner="wraps", vis=""):
    return [(T_, _STR_L_OLD, "        let face = Face::default();\n        let size = " + str_call + ";\n"),
            (T_, _TEXT_L_OLD, "        let size = " + text_call + ";\n"),
            (T_, "impl View for String {\n", vis + _SHARED_FN % inner)]


MUTANTS += [
    {"id": "C09-benign-shared-layout-helper", "prop": "C09", "benign": True,
     "edits": _shared("cells_extent(ctx, self.chars().map(|c| Cell::new_char(face, c)), ct.max.width, true)", "cells_extent(ctx, &self.cells, ct.max.width, self.wraps)")},
    {"id": "C09-benign-shared-layout-helper-hoisted-args", "prop": "C09", "benign": True,
     "edits": _shared("{\n            let width = ct.max.width;\n            cells_extent(ctx, self.chars().map(|c| Cell::new_char(face, c)), width, true)\n        }",
                      "{\n            let (width, wraps) = (ct.max.width, self.wraps);\n            cells_extent(ctx, self.cells.iter(), width, wraps)\n        }")},
    {"id": "C09-shared-layout-helper-str-nowrap", "prop": "C09", "expect": "SHARED-LAYOUT",
     "edits": _shared("cells_extent(ctx, self.chars().map(|c| Cell::new_char(face, c)), ct.max.width, false)", "cells_extent(ctx, &self.cells, ct.max.width, self.wraps)")},
    {"id": "C09-shared-layout-helper-text-min-width", "prop": "C09", "expect": "SHARED-LAYOUT",
     "edits": _shared("cells_extent(ctx, self.chars().map(|c| Cell::new_char(face, c)), ct.max.width, true)", "cells_extent(ctx, &self.cells, ct.min.width, self.wraps)")},
    {"id": "C09-shared-layout-helper-negates-wraps", "prop": "C09", "expect": "SHARED-LAYOUT",
     "edits": _shared("cells_extent(ctx, self.chars().map(|c| Cell::new_char(face, c)), ct.max.width, true)", "cells_extent(ctx, &self.cells, ct.max.width, self.wraps)", inner="!wraps")},
]

# io::Write adapter written as a lazy iterator chain (decode in from_fn, put_char in map / in the consumer's closure)
_U8_LOOP = "        while let Some(ch) = self.decoder.decode(&mut cur)? {\n            if !self.parent.put_char(ch) {\n                return Ok(buf.len());\n            }\n        }\n        Ok(cur.position() as usize)"
_U8_SPLIT = "        let (decoder, parent) = (&mut self.decoder, &mut self.parent);\n"


def _u8_chain(pred="!matches!(accepted, Ok(true))", inner="parent.put_char(ch)", ret="stopped.map_or_else(|| cur.position() as usize, |_| buf.len())", split=_U8_SPLIT, extra=""):
    return [(R_, _U8_LOOP, split + "        let stopped = std::iter::from_fn(|| decoder.decode(&mut cur).transpose())\n" + extra
             + "            .map(|ch| ch.map(|ch| " + inner + "))\n            .find(|accepted| " + pred + ")\n            .transpose()?;\n        Ok(" + ret + ")")]


MUTANTS += [
    {"id": "C09-benign-write-chain-find", "prop": "C09", "benign": True, "edits": _u8_chain()},
    {"id": "C09-benign-write-chain-find-is-some", "prop": "C09", "benign": True,
     "edits": _u8_chain(pred="match accepted {\n                Ok(done) => !*done,\n                Err(_) => true,\n            }", ret="if stopped.is_some() { buf.len() } else { cur.position() as usize }")},
    {"id": "C09-benign-write-chain-try-for-each", "prop": "C09", "benign": True,
     "edits": [(R_, _U8_LOOP, _U8_SPLIT + "        let full = std::iter::from_fn(|| decoder.decode(&mut cur).transpose())\n            .map(|ch| ch.map(|ch| parent.put_char(ch)))\n            .try_for_each(|r| match r {\n                Ok(true) => Ok(()),\n                Ok(false) => Err(None),\n                Err(e) => Err(Some(e)),\n            });\n        match full {\n            Ok(()) => Ok(cur.position() as usize),\n            Err(None) => Ok(buf.len()),\n            Err(Some(e)) => Err(e),\n        }")]},
    {"id": "C09-benign-write-chain-find-map", "prop": "C09", "benign": True,
     "edits": [(R_, _U8_LOOP, _U8_SPLIT + "        let stopped = std::iter::from_fn(|| decoder.decode(&mut cur).transpose())\n            .find_map(|r| match r.map(|ch| parent.put_char(ch)) {\n                Ok(true) => None,\n                Ok(false) => Some(Ok(())),\n                Err(e) => Some(Err(e)),\n            })\n            .transpose()?;\n        Ok(stopped.map_or_else(|| cur.position() as usize, |_| buf.len()))")]},
    {"id": "C09-write-chain-stops-on-accepted", "prop": "C09", "expect": "WRITER-FOLD", "edits": _u8_chain(pred="!matches!(accepted, Ok(false))")},
    {"id": "C09-write-chain-results-swapped", "prop": "C09", "expect": "WRITER-FOLD", "edits": _u8_chain(ret="stopped.map_or_else(|| buf.len(), |_| cur.position() as usize)")},
    {"id": "C09-write-chain-not-forwarded", "prop": "C09", "expect": "WRITER-FOLD", "edits": _u8_chain(inner="ch != '\\0'", split="        let decoder = &mut self.decoder;\n")},
    {"id": "C09-write-chain-fresh-decoder", "prop": "C09", "expect": "WRITER-FOLD",
     "edits": _u8_chain(split="        let mut fresh = std::mem::take(&mut self.decoder);\n        let (decoder, parent) = (&mut fresh, &mut self.parent);\n")},
    {"id": "C09-write-chain-filter-drops-items", "prop": "C09", "expect": "WRITER-FOLD", "edits": _u8_chain(extra="            .filter(|r| !matches!(r, Ok(' ')))\n")},
    {"id": "C09-write-chain-find-map-len-on-accept", "prop": "C09", "expect": "WRITER-FOLD",
     "edits": [(R_, _U8_LOOP, _U8_SPLIT + "        let stopped = std::iter::from_fn(|| decoder.decode(&mut cur).transpose())\n            .find_map(|r| match r.map(|ch| parent.put_char(ch)) {\n                Ok(false) => None,\n                Ok(true) => Some(Ok(())),\n                Err(e) => Some(Err(e)),\n            })\n            .transpose()?;\n        Ok(stopped.map_or_else(|| cur.position() as usize, |_| buf.len()))")]},
]

_U8_HEAD = "        let mut cur = std::io::Cursor::new(buf);\n        let (decoder, parent)"
MUTANTS += [
    {"id": "C09-benign-write-chain-empty-fast-path", "prop": "C09", "benign": True,
     "edits": _u8_chain() + [(R_, _U8_HEAD, "        if buf.is_empty() {\n            return Ok(0);\n        }\n        let mut cur = std::io::Cursor::new(buf);\n        let (decoder, parent)")]},
    {"id": "C09-benign-write-chain-empty-fast-path-len", "prop": "C09", "benign": True,
     "edits": _u8_chain() + [(R_, _U8_HEAD, "        if !(buf.len() > 0) {\n            return Ok(buf.len());\n        }\n        let mut cur = std::io::Cursor::new(buf);\n        let (decoder, parent)")]},
    {"id": "C09-write-chain-fast-path-on-nonempty", "prop": "C09", "expect": "WRITER-FOLD",
     "edits": _u8_chain() + [(R_, _U8_HEAD, "        if !buf.is_empty() {\n            return Ok(0);\n        }\n        let mut cur = std::io::Cursor::new(buf);\n        let (decoder, parent)")]},
    {"id": "C09-write-chain-fast-path-short-buffer", "prop": "C09", "expect": "WRITER-FOLD",
     "edits": _u8_chain() + [(R_, _U8_HEAD, "        if buf.len() < 2 {\n            return Ok(buf.len());\n        }\n        let mut cur = std::io::Cursor::new(buf);\n        let (decoder, parent)")]},
]

MUTANTS += [
    # the chain lives in a private single-caller helper
    {"id": "C09-benign-write-chain-in-helper", "prop": "C09", "benign": True,
     "edits": [(R_, _U8_LOOP, "        let stopped = Self::first_stop(&mut self.decoder, &mut self.parent, &mut cur)?;\n        Ok(stopped.map_or_else(|| cur.position() as usize, |_| buf.len()))"),
               (R_, "impl<W> std::io::Write for Utf8CellWriter<W>\nwhere\n    W: CellWrite,\n{", "impl<W: CellWrite> Utf8CellWriter<W> {\n    fn first_stop(decoder: &mut Utf8Decoder, parent: &mut W, cur: &mut std::io::Cursor<&[u8]>) -> std::io::Result<Option<bool>> {\n        std::iter::from_fn(|| decoder.decode(&mut *cur).transpose())\n            .map(|ch| ch.map(|ch| parent.put_char(ch)))\n            .find(|accepted| !matches!(accepted, Ok(true)))\n            .transpose()\n    }\n}\n\nimpl<W> std::io::Write for Utf8CellWriter<W>\nwhere\n    W: CellWrite,\n{")]},
]
