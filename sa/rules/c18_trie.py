"""C18 (trie part) — structural necessary conditions of the chord trie; the behaviour over registration
histories is NOT decided, only these shapes:
  T1 the trie (`KeyMap.mapping`) is mutated only inside register (+ its private helpers/closures, whatever their names), clear and
     the constructors;
  T2 lookup_state: pushes the key first; on Failure the pending chord is reset to the new key alone before the retry / return
     (clear + push(key), or the chord is known to hold one element, which is the key pushed first); on Success clears the
     pending chord before returning the value;
  T3 register: the last key is inserted as Ok(value) into the map reached by the descent helper over the prefix, and the
     descent replaces a bound prefix (Ok) by a fresh sub-map (supersession).
Decided on canonical terms / CFG facts: helper and local names, arm order, `?` vs `match`, added debug assertions do not matter."""
import re
from ..mir import call_matches, callee_name, op_local
from ..flow import expr, value_variants
from .c16 import size_test, bool_edges, inl, xcalls

MUTATORS = r"BTreeMap::<K, V, A>::(insert|entry|clear|remove|retain|append|extend|pop_first|pop_last|get_mut|iter_mut|values_mut|first_entry|last_entry|split_off|remove_entry)$|<std::collections::BTreeMap<K, V, A> as std::iter::Extend"
WRITER_ROOTS = r"^keys::KeyMap::<V>::(register|clear|new)$|^<keys::KeyMap<V> as std::default::Default>::default$"


def variant_edge(body, t_call, variant_idx):
    """block entered when the enum returned by the call has the given discriminant"""
    dest = t_call["dest"]["l"]
    for bb, t in body.terms():
        if t["k"] != "switch":
            continue
        l = op_local(t["d"])
        for d in body.defs_of(l) if l is not None else []:
            if d[1] != "term" and d[2]["k"] == "discr" and d[2]["place"]["l"] == dest and not d[2]["place"]["p"]:
                if str(variant_idx) in t["vals"]:
                    return bb, t["targets"][t["vals"].index(str(variant_idx))]
                return bb, t["otherwise"]
    return None, None


def writer_family(prog):
    """register / clear / constructors, their closures, and every non-public function of keys.rs all of whose callers already
    belong to the family (private helpers of register — nested or not, recursive or not — under any name)"""
    fam = {b.path for b in prog.bodies if re.search(WRITER_ROOTS, b.path)}
    cg = prog.callgraph()
    changed = True
    while changed:
        changed = False
        for b in prog.bodies:
            if b.path in fam or not b.file.endswith("keys.rs"):
                continue
            if b.kind == "Closure":
                if b.closure_root in fam:
                    fam.add(b.path)
                    changed = True
                continue
            if b.j.get("vis") == "Public" or b.impl_trait:
                continue
            cs = set(cg.callers(b.path)) - {b.path}
            cs = {c for c in cs if not ((prog.body(c) is not None) and prog.body(c).closure_root == b.path)}
            if cs and cs <= fam:
                fam.add(b.path)
                changed = True
    return fam


def ok_edge_guard(body, cfg, blk):
    """is block `blk` reached only through the `is Ok` side of a test on a Result (is_ok / is_err / discriminant / matches!)"""
    for s, tt in body.terms():
        if tt["k"] != "switch" or s == blk or not cfg.dominates(s, blk):
            continue
        e = expr(body, tt["d"])
        neg = False
        while e.startswith("Not(") and e.endswith(")"):
            e, neg = e[4:-1], not neg
        tgt = None
        ed = bool_edges(tt)
        if ed and re.match(r"^Result::is_ok\(", e):
            tgt = ed[1] if neg else ed[0]
        elif ed and re.match(r"^Result::is_err\(", e):
            tgt = ed[0] if neg else ed[1]
        elif e.startswith("discr(") and not neg:
            if "0" in tt["vals"]:
                tgt = tt["targets"][tt["vals"].index("0")]
            elif tt["vals"] == ["1"]:
                tgt = tt["otherwise"]
        if tgt is not None and (tgt == blk or cfg.edge_dominates(s, tgt, blk)):
            return True
    return False


PAYLOAD_COMBINATORS = r"^std::option::Option::<T>::(and_then|map|map_or|map_or_else)$"


def payload_closures(prog, body):
    """[(closure body, rewrite)] for the closures of `body` that an Option combinator applies to the `Some` payload of its receiver
    (`opt.and_then(|p| ..)`, `.map(..)`, `.map_or(d, |p| ..)`, `.map_or_else(|| d, |p| ..)`): inside such a closure the parameter IS the
    payload, exactly as in the `Some(p) =>` arm of a match on the receiver.  `rewrite` turns a canonical term of the closure into the term
    of `body` it stands for (captures -> the captured values, parameter -> `<receiver>@Some.0`)."""
    out = []
    made = {}
    for i, si, st in body.assigns():
        rv = st["rv"]
        if rv.get("k") == "agg" and rv.get("ak") == "closure":
            made[rv["def"]] = [expr(body, f) for f in rv["fields"]]
    for bb, t in body.calls():
        if not call_matches(t, PAYLOAD_COMBINATORS) or not t["args"]:
            continue
        recv = expr(body, t["args"][0])
        for a in t["args"][1:]:
            e = expr(body, a)
            for d, caps in made.items():
                c = prog.body(d)
                # one explicit parameter (the payload); the `|| default` closure of map_or_else has none
                if c is None or not e.startswith("closure:" + d.split("::")[-1] + "[") or c.arg_count != 2:
                    continue

                def rewrite(term, caps=caps, payload=recv + "@Some.0"):
                    def one(mo):
                        if mo.group(1) == "2":
                            return payload
                        if mo.group(2) is not None and int(mo.group(2)) < len(caps):
                            return caps[int(mo.group(2))]
                        return mo.group(0)
                    return re.sub(r"\barg(2)\b(?!\d)|\barg1\.(\d+)", one, term)
                out.append((c, rewrite))
    return out


def run_trie(ctx):
    prog = ctx.prog
    ctx.rule("TRIE-WRITERS", "KeyMap.mapping is mutated only by register (+ private helpers/closures), clear and constructors", floor=3)
    fam = writer_family(prog)
    n = 0
    for b in prog.bodies:
        if not b.file.endswith("keys.rs"):
            continue
        for bb, t in b.calls():
            if call_matches(t, MUTATORS) and t["args"] and ".mapping" in expr(b, t["args"][0]):
                n += 1
                ok = b.path in fam
                ctx.instance("TRIE-WRITERS", {"fn": b.path, "op": callee_name(t).split("::")[-1], "allowed": ok})
                if not ok:
                    ctx.violation("TRIE-WRITERS", b.path, callee_name(t).split("::")[-1],
                                  "%s mutates KeyMap.mapping directly: bindings must go through register(), which supersedes prefixes/extensions and merges sub-maps" % b.path,
                                  sites=["%s:%d" % (b.file, t["line"])])
    if n == 0:
        ctx.anchor("TRIE-WRITERS", "mapping-mutators")

    ctx.rule("TRIE-STATE", "lookup_state: push(key) first; Failure -> pending chord reset to [key] before retry/return; Success -> clear before returning", floor=3)
    ls0 = prog.body("keys::KeyMap::<V>::lookup_state")
    if ls0 is None:
        ctx.anchor("TRIE-STATE", "lookup_state")
    else:
        ls = inl(prog, ls0.path, keep=r"^keys::KeyMap::<V>::lookup$")
        cfg = ls.cfg()
        lk = [(bb, t) for bb, t in ls.calls() if call_matches(t, r"^keys::KeyMap::<V>::lookup$")]
        pushes = [(bb, t) for bb, t in ls.calls() if call_matches(t, r"Vec::<T, A>::push$") and expr(ls, t["args"][0]) == "arg2" and expr(ls, t["args"][1]) == "arg3"]
        clears = [bb for bb, t in ls.calls() if call_matches(t, r"Vec::<T, A>::clear$") and expr(ls, t["args"][0]) == "arg2"]
        other = [(bb, t) for bb, t in ls.calls() if (re.search(r"Vec::<T, A>::(remove|truncate|pop|drain|retain|swap_remove|insert|split_off|extend_from_slice|append|resize|dedup)$", callee_name(t) or "")
                                                       or (call_matches(t, r"Vec::<T, A>::push$") and expr(ls, t["args"][1]) != "arg3")) and expr(ls, t["args"][0]) == "arg2"]
        ok0 = len(lk) == 1 and bool(pushes) and any(cfg.dominates(pb, lk[0][0]) for pb, _ in pushes)
        ctx.instance("TRIE-STATE", {"push_key_before_lookup": ok0, "other_state_ops": [callee_name(t).split("::")[-1] for bb, t in other]})
        if not ok0:
            ctx.violation("TRIE-STATE", ls.path, "push-first", "the key is not appended to the pending chord before the lookup", sites=[ls.loc])
        for bb, t in other:
            ctx.violation("TRIE-STATE", ls.path, callee_name(t).split("::")[-1], "the pending chord is edited with %s: after a failed lookup the state must be reset to the new key alone" % callee_name(t).split("::")[-1], sites=["%s:%d" % (ls.file, t["line"])])
        # The chord always ends with the key (pushed before the lookup, pushed again after every clear, nothing else edits it), so on the
        # `chord.len() == 1` side of a test the chord already is [key]: that side counts as reset.
        already = set()
        if ok0 and not other:
            for s, tt in ls.terms():
                ed = bool_edges(tt)
                st = size_test(expr(ls, tt["d"]), r"Vec::len\(arg2\)") if ed else None
                if st is None:
                    continue
                for tgt, lo, hi in ((ed[0], st[0], st[1]), (ed[1], st[2], st[3])):
                    if hi == 1 and ed[0] != ed[1] and cfg.pred[tgt] == [s]:
                        already.add(tgt)     # len <= 1 and the key is in it
        if lk:
            ev = prog.enum_variants("keys::KeyMapResult") or []
            idx = {n: d for n, d in ev}
            loops = cfg.loops()
            head = None
            for h, body_ in loops.items():
                if lk[0][0] in body_ and (head is None or len(body_) < len(loops[head])):
                    head = h
            for var, need_push in (("Failure", True), ("Success", False)):
                sw, tgt = variant_edge(ls, lk[0][1], idx.get(var))
                ok = False
                if tgt is not None:
                    exits = ([head] if head is not None else []) + cfg.returns
                    ok = cfg.must_pass(set(clears) | (already if need_push else set()), start=tgt, exits=exits)[0]
                    if ok and need_push:
                        # after the clear, the key is pushed again before the retry
                        ok = all(cfg.must_pass([pb for pb, _ in pushes if pb in cfg.reachable_from(cb)], start=cb, exits=exits)[0] for cb in clears if cb in cfg.reachable_from(tgt) and not _only_success(cfg, cb, ls, lk[0][1], idx))
                ctx.instance("TRIE-STATE", {"edge": var, "clears_pending_chord": ok, "already_reset_blocks": sorted(already) if need_push else None})
                if not ok:
                    ctx.violation("TRIE-STATE", ls.path, var.lower(), "on %s the pending chord is not reset (clear%s) before %s" % (var, " + push(key)" if need_push else "", "the retry" if need_push else "returning"), sites=[ls.loc])

    ctx.rule("TRIE-REGISTER", "register: insert(last key, Ok(value)) into descend(prefix); the descent turns a bound prefix into a sub-map", floor=2)
    rg = prog.body("keys::KeyMap::<V>::register")
    if rg is None:
        ctx.anchor("TRIE-REGISTER", "register/register_rec")
        return
    rg = inl(prog, rg.path)      # private single-caller helpers (not the recursive descent) expanded in place
    # where the insert may be written: register itself, or a closure of it that an Option combinator runs on the `Some` payload
    # (`split_last().and_then(|(key, chord)| ..)`); the closure's terms are read in register's terms (captures, payload)
    views = [(rg, lambda e: e)] + payload_closures(prog, rg)
    ins = [(v, sub, bb, t) for v, sub in views for bb, t in v.calls() if call_matches(t, r"BTreeMap::<K, V, A>::insert$")]
    rr = None
    ok = False
    if len(ins) == 1:
        vb, sub = ins[0][0], ins[0][1]
        a = [sub(expr(vb, x)) for x in ins[0][3]["args"]]
        # the split of the chord may be matched (`@Some`) or taken with `?` (`@Continue`); the descent helper may have any name
        m = re.match(r"^(?P<h>[\w:]+)\(arg1, (?P<sl>slice::split_last\(arg2\)@(?:Some|Continue)\.0)\.1\)\.mapping$", a[0])
        if m:
            ok = len(a) == 3 and a[1] == m.group("sl") + ".0" and a[2] == "Result::Ok(arg3)"
            for bb, t in vb.calls():
                nm = callee_name(t) or ""
                if (t["fn"].get("local") or t["fn"].get("resolved_local")) and nm.endswith("::" + m.group("h").split("::")[-1]) and prog.body(nm) is not None:
                    rr = prog.body(nm)
    ctx.instance("TRIE-REGISTER", {"insert": [ins[0][1](expr(ins[0][0], a))[:80] for a in ins[0][3]["args"]] if ins else None, "descent": rr.path if rr else None, "ok": ok})
    if rr is None and not ok:
        ctx.anchor("TRIE-REGISTER", "register/register_rec")
        return
    if not ok:
        ctx.violation("TRIE-REGISTER", rg.path, "insert", "register does not insert Ok(value) under the last key of the chord in the map reached through the prefix", sites=[rg.loc])
    # in the descent (or one of its closures): `*r = Err(KeyMap::new())` only on the `r is Ok` side of a test
    ok2 = False
    if rr is not None:
        for c0 in [rr] + [b for b in prog.bodies if b.closure_root == rr.path]:
            ccfg = c0.cfg()
            for i, si, s in c0.assigns():
                if s["rv"]["k"] == "agg" and s["rv"].get("variant") == "Err" and "KeyMap::new" in expr(c0, s["rv"]["fields"][0]):
                    if ok_edge_guard(c0, ccfg, i):
                        ok2 = True
    ctx.instance("TRIE-REGISTER", {"bound_prefix_replaced_by_submap": ok2})
    if not ok2:
        ctx.violation("TRIE-REGISTER", (rr or rg).path, "supersede", "the descent of register does not replace a bound prefix (Ok) by a fresh sub-map: extensions of a bound chord would not supersede it", sites=[(rr or rg).loc])


def _only_success(cfg, cb, body, lookup_call, idx):
    sw, tgt = variant_edge(body, lookup_call, idx.get("Success"))
    return tgt is not None and cfg.edge_dominates(sw, tgt, cb)
