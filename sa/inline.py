"""MIR inlining of small private helpers into their only caller.

Extracting a few statements into a private helper function (or inlining one) does not change behaviour, but it moves the
call sites, fills and guards a structural rule looks for into another body.  `inlined(prog, path)` returns a Body in which
every call to an *inlinable* crate-local function is replaced by a renamed copy of the callee's blocks:

    bbN:  ...; _d = helper(a1, a2) -> bbT          bbN:  ...; _A1 = a1; _A2 = a2; goto bbH0
                                           ==>     bbH0.. (callee blocks, locals and block numbers shifted)
                                                   bbHr: ...; _d = move _R; goto bbT          (was `return`)

Inlinable: a plain fn / inherent method of this crate (no trait impl, no closure), not recursive, at most MAX_BLOCKS blocks,
and all of whose call sites lie in one body (and its closures) — the shape "helper extracted from / used by one function".
Blocks that come from a callee carry `inl_from = <callee path>`; `origin_of(body, bb)` gives that path (or the body's own).
The original bodies stay in the program unchanged."""
import copy
import re

MAX_BLOCKS = 80
MAX_DEPTH = 3


def _shift(node, lo, bo, po=0):
    """deep copy of a MIR json fragment with locals shifted by lo, block numbers by bo and promoted-constant indices by po"""
    if isinstance(node, list):
        return [_shift(x, lo, bo, po) for x in node]
    if not isinstance(node, dict):
        return node
    out = {}
    for k, v in node.items():
        if k == "l" and isinstance(v, int):
            out[k] = v + lo
        elif k == "text" and po and isinstance(v, str) and node.get("promoted"):
            out[k] = re.sub(r"promoted\[(\d+)\]", lambda m: "promoted[%d]" % (int(m.group(1)) + po), v)
        elif k in ("t", "otherwise", "unwind") and isinstance(v, int) and "k" in node and node["k"] in ("goto", "switch", "call", "assert", "drop"):
            out[k] = v + bo if v >= 0 else v
        elif k == "targets" and isinstance(v, list) and node.get("k") == "switch":
            out[k] = [x + bo for x in v]
        else:
            out[k] = _shift(v, lo, bo, po)
    return out


def callers_of(prog, path):
    cg = prog.callgraph()
    return set(cg.callers(path))


def inlinable(prog, callee, into_root, keep=None, private_only=False, expanded=(), multi=False):
    """may `callee` (Body) be inlined into the body whose root path is `into_root`.
    keep: regex of callee paths that must stay calls (the functions a rule anchors on); private_only: skip `pub` items;
    expanded: paths already expanded into the root (so that a -> h1 -> h2 expands fully: h2's caller h1 counts as the root);
    multi: a non-`pub` helper shared by several functions is expanded too (the expansion is per root, so this is safe)."""
    if callee is None or callee.kind not in ("Fn", "AssocFn") or callee.impl_trait:
        return False
    if keep and re.search(keep, callee.path):
        return False
    if private_only and (callee.j.get("vis") or "") == "Public":
        return False
    if len(callee.blocks) > MAX_BLOCKS or not callee.file.startswith("src/"):
        return False
    if callee.path == into_root:
        return False
    for bb, t in callee.calls():
        f = t["fn"]
        if (f.get("resolved") or f.get("path")) == callee.path:
            return False      # directly recursive
    cs = callers_of(prog, callee.path)
    roots = set()
    for c in cs:
        cb = prog.body(c)
        roots.add((cb.closure_root or cb.path) if cb is not None else c)
    if multi and (callee.j.get("vis") or "") != "Public" and into_root in roots:
        return True
    return roots <= ({into_root} | set(expanded)) and bool(roots)


def inlined(prog, path, depth=MAX_DEPTH, keep=None, private_only=False, nested=False, multi=False):
    """Body for `path` with inlinable callees expanded (cached on the program); the body itself when nothing is inlinable.
    The goto that replaces an expanded call carries `inl_call` (callee path), `inl_dest` (the call's destination place) and
    `inl_ret_t` (the block the call returned to); argument-passing statements carry `inl_arg`, the result copy `inl_ret`."""
    cache = prog.__dict__.setdefault("_inl_cache", {})
    ckey = (path, keep, private_only, depth, nested, multi)
    if ckey in cache:
        return cache[ckey]
    path_key = path
    path = path_key
    from .mir import Body
    base = prog.body(path)
    if base is None:
        return None
    root = base.closure_root or base.path
    j = None
    work = list(range(len(base.blocks)))
    level = {i: 0 for i in work}
    blocks = base.blocks
    locals_ = base.locals
    vars_ = base.j["vars"]
    n_inl = 0
    expanded = set()
    while work:
        bb = work.pop(0)
        blk = blocks[bb]
        t = blk["term"]
        if t["k"] != "call" or level.get(bb, 0) >= depth:
            continue
        f = t["fn"]
        cpath = f.get("resolved") if f.get("resolved_local") else (f.get("path") if f.get("local") else None)
        callee = prog.body(cpath) if cpath else None
        if callee is None or len(t["args"]) != callee.arg_count or not inlinable(prog, callee, root, keep, private_only, expanded if nested else (), multi):
            continue
        if blk["cleanup"]:
            continue
        if j is None:
            j = copy.deepcopy(base.j)
            blocks, locals_, vars_ = j["blocks"], j["locals"], j["vars"]
            blk = blocks[bb]
            t = blk["term"]
        lo, bo = len(locals_), len(blocks)
        # the callee's promoted constants join the root's table; `promoted[k]` references in the copied blocks are renumbered
        po = len(j.setdefault("promoted", []))
        j["promoted"].extend(copy.deepcopy(callee.j.get("promoted", [])))
        locals_.extend(copy.deepcopy(callee.locals))
        for v in callee.j["vars"]:
            vars_.append({"name": v["name"], "place": _shift(v["place"], lo, 0)})
        # argument passing
        for k, a in enumerate(t["args"]):
            blk["stmts"].append({"k": "assign", "place": {"l": lo + 1 + k, "p": []}, "rv": {"k": "use", "a": a}, "line": t.get("line", 0), "exp": False, "expk": "", "inl_arg": callee.path})
        dest, target, line = t["dest"], t["t"], t.get("line", 0)
        blk["term"] = {"k": "goto", "t": bo, "inl_call": callee.path, "inl_dest": dest, "inl_ret_t": target, "line": line}
        expanded.add(callee.path)
        for i, cb in enumerate(callee.blocks):
            nb = _shift(cb, lo, bo, po)
            nb["inl_from"] = cb.get("inl_from") or callee.path
            if nb["term"]["k"] == "return":
                nb["stmts"].append({"k": "assign", "place": dest, "rv": {"k": "use", "a": {"k": "move", "place": {"l": lo, "p": []}}}, "line": line, "exp": False, "expk": "", "inl_ret": callee.path})
                nb["term"] = {"k": "goto", "t": target} if target >= 0 else {"k": "unreachable"}
            blocks.append(nb)
            level[bo + i] = level.get(bb, 0) + 1
            work.append(bo + i)
        n_inl += 1
    if j is None:
        cache[ckey] = base
        return base
    j["inlined_calls"] = n_inl
    nb = Body(j, prog)
    cache[ckey] = nb
    return nb


def origin_of(body, bb):
    return body.blocks[bb].get("inl_from") or body.path
