"""Extraction of the escape-sequence grammars of /repo/src/decoder.rs as regular languages (engine E2, DESIGN.md §3).

Everything here is denotation of program text taken from ctx.src (the syn dump): no repository code is run.

API
    read_wiring(src) -> Wiring
        .templates   {'sequence'|'choice'|'some'|'optional'|'many'|'predicate'|'empty'|'nothing'|'from': regex.Template}
                     as READ from src/automata.rs (role dataflow over the combinator bodies)
        .problems    [(combinator, text)] constructs that were not understood (callers fail closed)
        .merge       {'facts': {...}, 'problems': [...]}   facts about NFA::merge_states (renumbering by increasing offsets)
        .delegations {'add': 'sequence', 'bitor': 'choice'} as found in the operator impls
        .model()     templates usable by regex.build_asbuilt (Thompson's textbook template substituted where a template could not
                     be read; such combinators are listed in .problems)
        The readers decide on meaning, not shape: calls of small local fns / inherent methods / closures of src/automata.rs are evaluated
        in place (_LocalDefs, _RoleEval.call_helper, _MergeEval.call_fn/apply), named constants are evaluated, `let`s may be inlined or
        introduced, operands commute, and the usual equivalent idioms are accepted (adjacent pairs by index / windows(2) / zip+skip(1) /
        enumerate().skip(1); each operand by for / for_each / index; if-let / match / Option::map on states.get_mut; max by cmp::max /
        Ord::max / if / match; edge maps rebuilt by map+collect or by a for loop).  Template.extra["eps_inserts"] counts one ε-insert per
        *evaluation* of an insert site (a helper with one insert called three times = 3).  Anything else still fails closed.
    extract(src, wiring=None) -> {name: Grammar}     (cached per Src object)
        names: one per `impl Matcher for X` (unit structs: 'KittyImageMatcher', …), one per constructed instance of a matcher
        struct with fields ('UTF8Matcher(Printable)', 'UTF8Matcher(NotEscape)'), 'MappedMatcher' (kind 'generic', no rx),
        compiled helper statics ('UTF8DFA'), and the two unions as written in MatcherAutomata::new
        ('TTY_EVENT_AUTOMATA', 'TTY_COMMAND_AUTOMATA', kind 'union').
    Grammar fields
        name, kind ('parsed' = Either::Left payload decoded by Matcher::decode | 'table' = Either::Right, tags carry the events |
        'generic' | 'helper' | 'union'), impl (struct name), rx (regex.Rx tree with provenance sites), site ('src/decoder.rs:LINE'),
        table ([(bytes, tag text)] for 'table' grammars), problem (text if the body could not be folded; then rx is None)
        lazily computed and cached:  regex_dfa, asbuilt_dfa (minimal DFAs, regex vs as-built semantics), minlen, maxlen (None = unbounded),
        prefix, suffix (bytes common to all words), accepts_empty — the scalar facts are taken from asbuilt_dfa (what the decoder runs);
        the *_regex variants (minlen_regex, …) from the documented meaning.
    event_matcher_names(src) / command_matcher_names(src) -> [grammar name] in registration order (index = MatcherTag::Matcher(i))
    registrations(src, 'event'|'command') -> [Registration(index, name, impl, mapped, text)]
    union_rx(src, which) -> Rx of the whole automaton as evaluated from MatcherAutomata::new
    fold_predicate(src, closure_node) -> 256-bit class of a `|b| <bool expr>` closure node of src.json
    decode_entry_facts(src) -> {'<decoder::XMatcher as decoder::Matcher>::decode': {'minlen','maxlen','prefix','suffix','grammars','impl','registered'}}
    termsize_piece_minlen(src[, witness=True]) -> k: every ESC-free factor after the first of a TermSize word has length >= k
    termcap_hex_runs_even(src) -> (True, None) | (False, word): maximal hex runs inside data[5..len-2] of TermCap words are even
    matcher_impl_count(src), extraction_problems(src) -> bookkeeping used by C15
    Unfoldable is raised (naming the construct) for anything outside the evaluated subset; extract() records it in Grammar.problem instead.
    Typical use in another rule:   g = grammar.extract(ctx.src)["MouseEventMatcher"];  g.minlen, g.prefix, g.suffix;
                                   regex.intersect_witness(g.asbuilt_dfa, other.asbuilt_dfa);  regex.run_parity_witness(g.asbuilt_dfa, hexclass)
"""
import copy
import re
from collections import namedtuple

from . import regex as R
from .regex import Rx, Site, Template
from .src import expr_text, pat_text

COMBINATORS = ("sequence", "choice", "some", "optional", "many", "predicate", "empty", "nothing", "from")
AUTOMATA = "src/automata.rs"
DECODER = "src/decoder.rs"


class Unfoldable(Exception):
    pass


# ------------------------------------------------------------------------------------------------
# values of the evaluator
# ------------------------------------------------------------------------------------------------
class U8(int):
    pass


class Char:
    __slots__ = ("code",)

    def __init__(self, code):
        self.code = int(code)

    def __eq__(self, o):
        return isinstance(o, Char) and o.code == self.code

    def __hash__(self):
        return hash(("char", self.code))

    def __lt__(self, o):
        return self.code < o.code

    def __le__(self, o):
        return self.code <= o.code

    def __repr__(self):
        return "Char(%r)" % chr(self.code)


class Sym:
    """opaque symbolic value: a path, a constructor application or an operator over such"""
    __slots__ = ("head", "args", "_t")

    def __init__(self, head, args=None):
        self.head = head
        self.args = args
        self._t = None

    def text(self):
        if self._t is None:
            if self.args is None:
                self._t = self.head
            elif self.head in ("|", "&", "+"):
                self._t = (" %s " % self.head).join(value_text(a) for a in self.args)
            elif self.head.startswith("."):
                self._t = "%s%s(%s)" % (value_text(self.args[0]), self.head, ", ".join(value_text(a) for a in self.args[1:]))
            else:
                self._t = "%s(%s)" % (self.head, ", ".join(value_text(a) for a in self.args))
        return self._t

    def __eq__(self, o):
        return isinstance(o, Sym) and o.text() == self.text()

    def __hash__(self):
        return hash(self.text())

    def __lt__(self, o):
        return self.text() < o.text()

    def __repr__(self):
        return "Sym<%s>" % self.text()


def value_text(v):
    if isinstance(v, Sym):
        return v.text()
    if isinstance(v, Char):
        c = v.code
        return "'%s'" % (chr(c) if 32 <= c < 127 and chr(c) not in "'\\" else "\\u{%x}" % c)
    if isinstance(v, bool):
        return "true" if v else "false"
    if isinstance(v, int):
        return str(int(v))
    if isinstance(v, str):
        return '"%s"' % v.encode("unicode_escape").decode()
    if isinstance(v, tuple):
        return "(%s)" % ", ".join(value_text(x) for x in v)
    if isinstance(v, list):
        return "[%s]" % ", ".join(value_text(x) for x in v)
    if isinstance(v, StructVal):
        return "%s{%s}" % (v.name, ", ".join("%s: %s" % (k, value_text(x)) for k, x in v.fields.items()))
    if isinstance(v, Rx):
        return "NFA<%s>" % R.rx_text(v, 60)
    return repr(v)


class StructVal:
    __slots__ = ("name", "fields")

    def __init__(self, name, fields):
        self.name = name
        self.fields = fields


class EitherVal:
    __slots__ = ("side", "value")

    def __init__(self, side, value):
        self.side = side
        self.value = value


class OptionVal:
    __slots__ = ("value", "some")

    def __init__(self, some, value=None):
        self.some = some
        self.value = value


class Compiled:
    __slots__ = ("rx",)

    def __init__(self, rx):
        self.rx = rx


class Closure:
    __slots__ = ("params", "body", "env", "frame")

    def __init__(self, params, body, env, frame):
        self.params = params
        self.body = body
        self.env = env
        self.frame = frame


class FnRef:
    __slots__ = ("file", "item", "impl_self", "qual")

    def __init__(self, file, item, impl_self, qual):
        self.file = file
        self.item = item
        self.impl_self = impl_self
        self.qual = qual


class Env:
    __slots__ = ("vars", "parent")

    def __init__(self, parent=None):
        self.vars = {}
        self.parent = parent

    def get(self, name):
        e = self
        while e is not None:
            if name in e.vars:
                return e.vars[name]
            e = e.parent
        raise KeyError(name)

    def has(self, name):
        e = self
        while e is not None:
            if name in e.vars:
                return True
            e = e.parent
        return False

    def set_existing(self, name, v):
        e = self
        while e is not None:
            if name in e.vars:
                e.vars[name] = v
                return
            e = e.parent
        raise Unfoldable("assignment to unknown variable %s" % name)


class Frame:
    __slots__ = ("qual", "file", "impl_self", "item", "ordinals")

    def __init__(self, qual, file, impl_self, item):
        self.qual = qual
        self.file = file
        self.impl_self = impl_self
        self.item = item
        self.ordinals = None


class _Return(Exception):
    def __init__(self, v):
        self.v = v


class _Break(Exception):
    pass


class _Continue(Exception):
    pass


_CHILD_ORDER = ["recv", "f", "scrutinee", "e", "l", "cond", "init", "iter", "pat", "args", "elems", "fields", "stmts", "then", "body",
                "r", "else", "arms", "guard", "extra"]


def ordered_walk(node, fn):
    """pre-order walk in (approximate) source order: receiver before arguments, left before right"""
    if isinstance(node, dict):
        if "k" in node:
            fn(node)
        keys = [k for k in _CHILD_ORDER if k in node] + sorted(k for k in node if k not in _CHILD_ORDER and k != "tokens")
        for k in keys:
            ordered_walk(node[k], fn)
    elif isinstance(node, list):
        for v in node:
            ordered_walk(v, fn)


def comb_of_node(n):
    """combinator name if the syntax node applies one of the nine primitive NFA combinators"""
    if n.get("k") == "mcall" and n["m"] in ("some", "many", "optional"):
        return n["m"]
    if n.get("k") == "call" and n["f"].get("k") == "path":
        segs = n["f"]["p"].split("::")
        if len(segs) == 2 and segs[0] in ("NFA", "Self") and segs[1] in COMBINATORS and segs[1] not in ("some", "many", "optional"):
            return segs[1]
    return None


def base_name(ty):
    if ty is None:
        return None
    return re.sub(r"<.*$", "", ty)


_ASCII_PRED = {
    "is_ascii_digit": lambda c: 48 <= c <= 57,
    "is_ascii_hexdigit": lambda c: 48 <= c <= 57 or 65 <= c <= 70 or 97 <= c <= 102,
    "is_ascii_alphabetic": lambda c: 65 <= c <= 90 or 97 <= c <= 122,
    "is_ascii_alphanumeric": lambda c: 48 <= c <= 57 or 65 <= c <= 90 or 97 <= c <= 122,
    "is_ascii_lowercase": lambda c: 97 <= c <= 122,
    "is_ascii_uppercase": lambda c: 65 <= c <= 90,
    "is_ascii_punctuation": lambda c: 33 <= c <= 47 or 58 <= c <= 64 or 91 <= c <= 96 or 123 <= c <= 126,
    "is_ascii_graphic": lambda c: 33 <= c <= 126,
    "is_ascii_whitespace": lambda c: c in (32, 9, 10, 12, 13),
    "is_ascii_control": lambda c: c <= 31 or c == 127,
    "is_ascii": lambda c: c <= 127,
}
_U8_BITCOUNT = {
    "count_ones": lambda c: bin(c).count("1"),
    "count_zeros": lambda c: 8 - bin(c).count("1"),
    "leading_zeros": lambda c: 8 - c.bit_length(),
    "leading_ones": lambda c: 8 - (~c & 0xFF).bit_length(),
    "trailing_zeros": lambda c: 8 if c == 0 else (c & -c).bit_length() - 1,
    "trailing_ones": lambda c: ((~c & 0xFF) & -(~c & 0xFF)).bit_length() - 1 if c != 0xFF else 8,
}
_INT_BITS = {"u8": 8, "u16": 16, "u32": 32, "u64": 64, "usize": 64, "i8": 8, "i16": 16, "i32": 32, "i64": 64, "isize": 64, "u128": 128, "i128": 128}
_TRANSPARENT_CTORS = ("Box::new", "Arc::new", "Rc::new", "std::sync::Arc::new", "std::rc::Rc::new")


class Interp:
    """Evaluator for the subset of Rust in which decoder.rs writes its grammars."""

    def __init__(self, src):
        self.src = src
        self.depth = 0
        self.struct_names = {it["name"]: it for (f, it, t) in src.structs if not t}
        self.statics = {}
        for (f, s, it, t) in src.consts:
            if not t and s is None:
                self.statics.setdefault((f, it["name"]), it)
        self._static_cache = {}
        # impl fns: (base self type, fn name) -> [(file, impl_self, trait, item)]
        self.impl_fns = {}
        self.free_fns = {}
        for (f, s, tr, it, t) in src.fns:
            if t:
                continue
            if s is None:
                self.free_fns.setdefault((f, it["name"]), it)
            else:
                self.impl_fns.setdefault((base_name(s), it["name"]), []).append((f, s, tr, it))
        self.traits_of = {}
        for (f, it, t) in src.impls:
            if not t and it.get("trait"):
                self.traits_of.setdefault(base_name(it["self_ty"]), set()).add(base_name(it["trait"]))

    # ---- sites --------------------------------------------------------------------------------
    def site(self, frame, node, comb):
        if frame.ordinals is None:
            counts = {}
            ords = {}

            def f(n):
                c = comb_of_node(n)
                if c:
                    counts[c] = counts.get(c, 0) + 1
                    ords[id(n)] = counts[c]
            ordered_walk(frame.item.get("body") if frame.item.get("k") == "fn" else frame.item.get("expr"), f)
            frame.ordinals = ords
        return Site(frame.qual, comb, frame.ordinals.get(id(node), 0), frame.file, node.get("line", 0))

    # ---- functions ----------------------------------------------------------------------------
    def lookup_method(self, ty, name):
        """(file, impl_self, trait, item) of method `name` for struct type `ty`: inherent, then trait impls, then trait defaults"""
        cands = self.impl_fns.get((ty, name), [])
        inherent = [c for c in cands if c[2] is None]
        if len(inherent) == 1:
            return inherent[0]
        if len(cands) == 1:
            return cands[0]
        if len(cands) > 1:
            raise Unfoldable("ambiguous method %s::%s" % (ty, name))
        for tr in sorted(self.traits_of.get(ty, ())):
            c = self.impl_fns.get(("trait " + tr, name), [])
            if len(c) == 1:
                return c[0]
        return None

    def call_item(self, file, impl_self, item, args, self_val=None, qual=None):
        self.depth += 1
        if self.depth > 60:
            raise Unfoldable("recursion too deep in %s" % item["name"])
        try:
            if qual is None:
                b = base_name(impl_self)
                if b and b.startswith("trait "):
                    b = b[6:]
                qual = ("%s::%s" % (b, item["name"])) if b else item["name"]
            frame = Frame(qual, file, impl_self, item)
            env = Env()
            ai = 0
            for p in item["sig"]["inputs"]:
                if p["name"] == "self":
                    env.vars["self"] = self_val
                    continue
                if ai >= len(args):
                    raise Unfoldable("call of %s with too few arguments" % qual)
                if not self.bind(p["pat"], args[ai], env, frame):
                    raise Unfoldable("parameter pattern of %s" % qual)
                ai += 1
            try:
                return self.block(item["body"], env, frame)
            except _Return as r:
                return r.v
        finally:
            self.depth -= 1

    def call_value(self, f, args, frame=None):
        if isinstance(f, Closure):
            env = Env(f.env)
            if len(f.params) != len(args):
                if len(f.params) == 1 and len(args) > 1:
                    args = [tuple(args)]
                else:
                    raise Unfoldable("closure arity")
            for p, a in zip(f.params, args):
                if not self.bind(p, a, env, f.frame):
                    raise Unfoldable("closure parameter pattern %s" % pat_text(p))
            try:
                return self.eval(f.body, env, f.frame)
            except _Return as r:
                return r.v
        if isinstance(f, FnRef):
            return self.call_item(f.file, f.impl_self, f.item, args, qual=f.qual)
        if isinstance(f, Sym) and f.args is None:
            last = f.head.split("::")[-1]
            if last in _ASCII_PRED and len(args) == 1:
                return _ASCII_PRED[last](self.as_code(args[0]))
            return Sym(f.head, list(args))
        raise Unfoldable("call of non-function value %s" % value_text(f))

    # ---- patterns -----------------------------------------------------------------------------
    def bind(self, pat, v, env, frame):
        k = pat["k"]
        if k == "ident":
            if pat.get("sub") and not self.bind(pat["sub"], v, env, frame):
                return False
            env.vars[pat["name"]] = v
            return True
        if k == "wild" or k == "rest":
            return True
        if k == "ref":
            return self.bind(pat["pat"], v, env, frame)
        if k == "tuple":
            if not isinstance(v, tuple) or len(v) != len(pat["elems"]):
                raise Unfoldable("tuple pattern %s against %s" % (pat_text(pat), value_text(v)))
            return all(self.bind(p, x, env, frame) for p, x in zip(pat["elems"], v))
        if k == "lit":
            return self.values_equal(self.literal(pat["e"]), v)
        if k == "range":
            lo = self.eval(pat["lo"], env, frame) if pat.get("lo") else None
            hi = self.eval(pat["hi"], env, frame) if pat.get("hi") else None
            c = self.as_code(v)
            if lo is not None and c < self.as_code(lo):
                return False
            if hi is not None:
                h = self.as_code(hi)
                return c <= h if pat["incl"] else c < h
            return True
        if k == "or":
            return any(self.bind(c, v, env, frame) for c in pat["cases"])
        if k == "path":
            if isinstance(v, Sym):
                if v.args is not None:
                    return False
                return self.same_path(v.head, pat["p"])
            if isinstance(v, OptionVal) and pat["p"].split("::")[-1] == "None":
                return not v.some
            raise Unfoldable("path pattern %s against %s" % (pat["p"], value_text(v)))
        if k == "tstruct":
            last = pat["path"].split("::")[-1]
            if isinstance(v, EitherVal):
                if last not in ("Left", "Right"):
                    raise Unfoldable("pattern %s against Either" % pat["path"])
                return v.side == last and self.bind(pat["elems"][0], v.value, env, frame)
            if isinstance(v, OptionVal):
                if last == "Some":
                    return v.some and self.bind(pat["elems"][0], v.value, env, frame)
                raise Unfoldable("pattern %s against Option" % pat["path"])
            if isinstance(v, Sym):
                if v.args is None or not self.same_path(v.head, pat["path"]) or len(v.args) != len(pat["elems"]):
                    return False
                return all(self.bind(p, x, env, frame) for p, x in zip(pat["elems"], v.args))
            raise Unfoldable("pattern %s against %s" % (pat_text(pat), value_text(v)))
        if k == "struct":
            if isinstance(v, StructVal):
                for f in pat["fields"]:
                    if f["name"] not in v.fields:
                        raise Unfoldable("struct pattern field %s" % f["name"])
                    if not self.bind(f["pat"], v.fields[f["name"]], env, frame):
                        return False
                return True
            raise Unfoldable("struct pattern against %s" % value_text(v))
        raise Unfoldable("pattern kind %s" % k)

    @staticmethod
    def same_path(a, b):
        sa, sb = a.split("::"), b.split("::")
        n = min(len(sa), len(sb), 2)
        return sa[-n:] == sb[-n:]

    def values_equal(self, a, b):
        if isinstance(a, Char) or isinstance(b, Char):
            return isinstance(a, Char) and isinstance(b, Char) and a.code == b.code
        if isinstance(a, (Sym, StructVal, Rx)) or isinstance(b, (Sym, StructVal, Rx)):
            if isinstance(a, Sym) and isinstance(b, Sym):
                return a == b
            raise Unfoldable("comparison of %s and %s" % (value_text(a), value_text(b)))
        return a == b

    def as_code(self, v):
        if isinstance(v, Char):
            return v.code
        if isinstance(v, bool):
            raise Unfoldable("bool used as number")
        if isinstance(v, int):
            return int(v)
        raise Unfoldable("%s used as a number" % value_text(v))

    # ---- literals -----------------------------------------------------------------------------
    def literal(self, e):
        t = e["t"]
        if t == "int":
            v = int(e["v"])
            return U8(v) if e.get("suffix") == "u8" else v
        if t == "byte":
            return U8(e["v"])
        if t == "char":
            return Char(e["v"])
        if t == "str":
            return e["v"]
        if t == "bytestr":
            return bytes(e["v"])
        if t == "bool":
            return bool(e["v"])
        raise Unfoldable("literal of kind %s" % t)

    # ---- blocks and statements ----------------------------------------------------------------
    def block(self, b, env, frame):
        env = Env(env)
        last = ()
        stmts = b["stmts"]
        for i, st in enumerate(stmts):
            k = st["k"]
            if k == "let":
                if st.get("init") is None:
                    raise Unfoldable("let without initialiser")
                v = self.eval(st["init"], env, frame)
                if not self.bind(st["pat"], v, env, frame):
                    if st.get("else"):
                        self.eval(st["else"], env, frame)
                    raise Unfoldable("refutable let pattern %s" % pat_text(st["pat"]))
                last = ()
            elif k == "item":
                it = st["item"]
                if it.get("k") == "fn":
                    env.vars[it["name"]] = FnRef(frame.file, it, None, "%s::%s" % (frame.qual, it["name"]))
                last = ()
            elif k == "expr":
                v = self.eval(st["e"], env, frame)
                last = () if st["semi"] else v
            else:
                raise Unfoldable("statement kind %s" % k)
        return last

    # ---- expressions --------------------------------------------------------------------------
    def eval(self, e, env, frame):
        k = e["k"]
        m = getattr(self, "e_" + k, None)
        if m is None:
            raise Unfoldable("expression kind %s (%s)" % (k, expr_text(e)[:60]))
        return m(e, env, frame)

    def e_lit(self, e, env, frame):
        return self.literal(e)

    def e_block(self, e, env, frame):
        return self.block(e, env, frame)

    def e_ref(self, e, env, frame):
        return self.eval(e["e"], env, frame)

    def e_tuple(self, e, env, frame):
        return tuple(self.eval(x, env, frame) for x in e["elems"])

    def e_array(self, e, env, frame):
        return [self.eval(x, env, frame) for x in e["elems"]]

    def e_closure(self, e, env, frame):
        return Closure(e["params"], e["body"], env, frame)

    def e_return(self, e, env, frame):
        raise _Return(self.eval(e["e"], env, frame) if e.get("e") else ())

    def e_break(self, e, env, frame):
        raise _Break()

    def e_continue(self, e, env, frame):
        raise _Continue()

    def e_range(self, e, env, frame):
        if e.get("lo") is None or e.get("hi") is None:
            raise Unfoldable("open range %s" % expr_text(e))
        lo = self.eval(e["lo"], env, frame)
        hi = self.eval(e["hi"], env, frame)
        u8 = isinstance(lo, U8) or isinstance(hi, U8)
        ch = isinstance(lo, Char)
        a, b = self.as_code(lo), self.as_code(hi) + (1 if e["incl"] else 0)
        if ch:
            return ("charrange", a, b)
        return [U8(x) for x in range(a, b)] if u8 else range(a, b)

    def e_path(self, e, env, frame):
        p = e["p"]
        if "::" not in p:
            if env.has(p):
                return env.get(p)
            if p in self.struct_names and not self.struct_names[p]["fields"]:
                return StructVal(p, {})
            it = self.free_fns.get((frame.file, p))
            if it is not None:
                return FnRef(frame.file, it, None, p)
            if (frame.file, p) in self.statics:
                return self.static_value(frame.file, p)
            return Sym(p)
        segs = p.split("::")
        if segs[0] == "Self" and frame.impl_self:
            p = base_name(frame.impl_self) + "::" + "::".join(segs[1:])
        if p in ("u8::MAX",):
            return U8(255)
        return Sym(p)

    def static_value(self, file, name):
        key = (file, name)
        if key not in self._static_cache:
            it = self.statics[key]
            frame = Frame(name, file, None, it)
            self._static_cache[key] = self.eval(it["expr"], Env(), frame)
        return self._static_cache[key]

    def e_field(self, e, env, frame):
        v = self.eval(e["e"], env, frame)
        n = e["name"]
        if isinstance(v, StructVal):
            if n not in v.fields:
                raise Unfoldable("field %s of %s" % (n, v.name))
            return v.fields[n]
        if isinstance(v, tuple) and n.isdigit():
            return v[int(n)]
        raise Unfoldable("field %s of %s" % (n, value_text(v)))

    def e_index(self, e, env, frame):
        v = self.eval(e["e"], env, frame)
        i = self.eval(e["i"], env, frame)
        if isinstance(v, (list, tuple, str, bytes)) and isinstance(i, int):
            return v[i]
        raise Unfoldable("index expression %s" % expr_text(e))

    def e_cast(self, e, env, frame):
        v = self.eval(e["e"], env, frame)
        ty = e["ty"]
        if ty in _INT_BITS:
            c = self.as_code(v) if not isinstance(v, bool) else int(v)
            c &= (1 << _INT_BITS[ty]) - 1
            if ty.startswith("i") and c >> (_INT_BITS[ty] - 1):
                # two's complement: `b as i8` of a byte >= 0x80 is negative (e.g. the `(b as i8) < -64` continuation-byte idiom)
                c -= 1 << _INT_BITS[ty]
            return U8(c) if ty == "u8" else c
        if ty == "char":
            return Char(self.as_code(v))
        if ty.startswith("Box<") or ty.startswith("&"):
            return v
        raise Unfoldable("cast to %s" % ty)

    def e_un(self, e, env, frame):
        v = self.eval(e["e"], env, frame)
        op = e["op"]
        if op == "*" or op == "&":
            return v
        if op == "!":
            if isinstance(v, bool):
                return not v
            if isinstance(v, U8):
                return U8(~int(v) & 0xFF)
            raise Unfoldable("operator ! on %s" % value_text(v))
        if op == "-":
            return -self.as_code(v)
        raise Unfoldable("unary operator %s" % op)

    def e_assign(self, e, env, frame):
        v = self.eval(e["r"], env, frame)
        l = e["l"]
        if l["k"] == "path" and "::" not in l["p"]:
            env.set_existing(l["p"], v)
            return ()
        if l["k"] == "field":
            o = self.eval(l["e"], env, frame)
            if isinstance(o, StructVal):
                o.fields[l["name"]] = v
                return ()
        raise Unfoldable("assignment to %s" % expr_text(l))

    def e_bin(self, e, env, frame):
        op = e["op"]
        if op in ("&&", "||"):
            a = self.eval(e["l"], env, frame)
            if not isinstance(a, bool):
                raise Unfoldable("operator %s on %s" % (op, value_text(a)))
            if (op == "&&" and not a) or (op == "||" and a):
                return a
            b = self.eval(e["r"], env, frame)
            if not isinstance(b, bool):
                raise Unfoldable("operator %s on %s" % (op, value_text(b)))
            return b
        if op.endswith("=") and op not in ("==", "!=", "<=", ">="):
            cur = self.eval(e["l"], env, frame)
            rhs = self.eval(e["r"], env, frame)
            v = self.binop(op[:-1], cur, rhs, e, frame)
            if e["l"]["k"] == "path" and "::" not in e["l"]["p"]:
                env.set_existing(e["l"]["p"], v)
                return ()
            raise Unfoldable("compound assignment to %s" % expr_text(e["l"]))
        a = self.eval(e["l"], env, frame)
        b = self.eval(e["r"], env, frame)
        return self.binop(op, a, b, e, frame)

    def binop(self, op, a, b, e, frame):
        if isinstance(a, Rx) or isinstance(b, Rx):
            if not (isinstance(a, Rx) and isinstance(b, Rx)):
                raise Unfoldable("operator %s between NFA and %s" % (op, value_text(b if isinstance(a, Rx) else a)))
            name = {"+": "add", "|": "bitor"}.get(op)
            if name is None:
                raise Unfoldable("operator %s on NFA" % op)
            c = self.impl_fns.get(("NFA", name), [])
            if len(c) != 1:
                raise Unfoldable("operator %s on NFA: no unique impl of %s in automata.rs" % (op, name))
            f, s, tr, it = c[0]
            return self.call_item(f, s, it, [b], self_val=a)
        if op in ("==", "!="):
            r = self.values_equal(a, b)
            return r if op == "==" else not r
        if isinstance(a, Sym) or isinstance(b, Sym):
            if op in ("|", "&", "+"):
                return Sym(op, [a, b])
            raise Unfoldable("operator %s on symbolic values" % op)
        if isinstance(a, bool) and isinstance(b, bool) and op in ("&", "|", "^"):
            return {"&": a and b, "|": a or b, "^": a != b}[op]
        x, y = self.as_code(a), self.as_code(b)
        if op in ("<", "<=", ">", ">="):
            if isinstance(a, Char) != isinstance(b, Char):
                raise Unfoldable("comparison between char and integer")
            return {"<": x < y, "<=": x <= y, ">": x > y, ">=": x >= y}[op]
        if isinstance(a, Char) or isinstance(b, Char):
            raise Unfoldable("arithmetic on char")
        u8 = isinstance(a, U8) or (isinstance(b, U8) and op not in (">>", "<<"))
        if op == "+":
            r = x + y
        elif op == "-":
            r = x - y
        elif op == "*":
            r = x * y
        elif op == "/":
            if y == 0:
                raise Unfoldable("division by zero")
            r = x // y
        elif op == "%":
            if y == 0:
                raise Unfoldable("remainder by zero")
            r = x % y
        elif op == "&":
            r = x & y
        elif op == "|":
            r = x | y
        elif op == "^":
            r = x ^ y
        elif op == ">>":
            if u8 and y >= 8:
                raise Unfoldable("shift of u8 by %d" % y)
            r = x >> y
        elif op == "<<":
            if u8 and y >= 8:
                raise Unfoldable("shift of u8 by %d" % y)
            r = x << y
            if u8:
                r &= 0xFF
        else:
            raise Unfoldable("operator %s" % op)
        if u8:
            if not 0 <= r <= 255:
                raise Unfoldable("u8 arithmetic overflow in %s" % expr_text(e))
            return U8(r)
        if r < 0:
            raise Unfoldable("negative intermediate value in %s" % expr_text(e))
        return r

    def e_if(self, e, env, frame):
        c = e["cond"]
        env2 = Env(env)
        if c["k"] == "letcond":
            v = self.eval(c["e"], env, frame)
            ok = self.bind(c["pat"], v, env2, frame)
        else:
            ok = self.eval(c, env, frame)
            if not isinstance(ok, bool):
                raise Unfoldable("if condition %s is not a known boolean" % expr_text(c))
        if ok:
            return self.block(e["then"], env2, frame)
        if e.get("else"):
            return self.eval(e["else"], env, frame)
        return ()

    def e_match(self, e, env, frame):
        v = self.eval(e["e"], env, frame)
        for arm in e["arms"]:
            env2 = Env(env)
            if self.bind(arm["pat"], v, env2, frame):
                if arm.get("guard"):
                    g = self.eval(arm["guard"], env2, frame)
                    if not isinstance(g, bool):
                        raise Unfoldable("match guard %s" % expr_text(arm["guard"]))
                    if not g:
                        continue
                return self.eval(arm["body"], env2, frame)
        raise Unfoldable("no arm of `match %s` applies to %s" % (expr_text(e["e"]), value_text(v)))

    def iterate(self, v):
        if isinstance(v, (list, range)):
            return list(v)
        if isinstance(v, tuple) and len(v) == 3 and v[0] == "charrange":
            return [Char(c) for c in range(v[1], v[2])]
        if isinstance(v, bytes):
            return [U8(b) for b in v]
        raise Unfoldable("iteration over %s" % value_text(v))

    def e_for(self, e, env, frame):
        items = self.iterate(self.eval(e["iter"], env, frame))
        if len(items) > 100000:
            raise Unfoldable("loop too long")
        for x in items:
            env2 = Env(env)
            if not self.bind(e["pat"], x, env2, frame):
                raise Unfoldable("for pattern %s" % pat_text(e["pat"]))
            try:
                self.block(e["body"], env2, frame)
            except _Continue:
                continue
            except _Break:
                break
        return ()

    def e_struct(self, e, env, frame):
        name = e["path"]
        if name == "Self" and frame.impl_self:
            name = base_name(frame.impl_self)
        if e.get("rest"):
            raise Unfoldable("struct update syntax")
        last = name.split("::")[-1]
        if last not in self.struct_names:
            return Sym(name, [Sym(f["name"], [self.eval(f["e"], env, frame)]) for f in e["fields"]])
        return StructVal(last, {f["name"]: self.eval(f["e"], env, frame) for f in e["fields"]})

    def e_macro(self, e, env, frame):
        short = e["short"]
        if short == "matches":
            x = e.get("extra") or {}
            if "scrutinee" not in x:
                raise Unfoldable("matches! that srcdump could not parse")
            v = self.eval(x["scrutinee"], env, frame)
            env2 = Env(env)
            if not self.bind(x["pat"], v, env2, frame):
                return False
            if x.get("guard"):
                g = self.eval(x["guard"], env2, frame)
                if not isinstance(g, bool):
                    raise Unfoldable("matches! guard")
                return g
            return True
        if short == "format":
            args = e.get("args")
            if not args or args[0].get("k") != "lit" or args[0]["t"] != "str":
                raise Unfoldable("format! without a literal format string")
            vals = [self.eval(a, env, frame) for a in args[1:]]
            return self.format(args[0]["v"], vals, env)
        if short == "vec":
            if e.get("args") is not None:
                return [self.eval(a, env, frame) for a in e["args"]]
            raise Unfoldable("vec![x; n]")
        if short in ("assert", "debug_assert", "assert_eq", "debug_assert_eq", "info", "debug", "trace", "warn", "error"):
            return ()
        raise Unfoldable("macro %s!" % e["name"])

    def format(self, fmt, vals, env):
        out = []
        i = 0
        vi = 0
        while i < len(fmt):
            c = fmt[i]
            if c == "{":
                if fmt[i + 1:i + 2] == "{":
                    out.append("{")
                    i += 2
                    continue
                j = fmt.index("}", i)
                spec = fmt[i + 1:j]
                if spec == "":
                    if vi >= len(vals):
                        raise Unfoldable("format! with too few arguments")
                    v = vals[vi]
                    vi += 1
                elif re.fullmatch(r"[A-Za-z_][A-Za-z0-9_]*", spec) and env.has(spec):
                    v = env.get(spec)
                elif spec.isdigit() and int(spec) < len(vals):
                    v = vals[int(spec)]
                else:
                    raise Unfoldable("format! placeholder {%s}" % spec)
                out.append(self.display(v))
                i = j + 1
            elif c == "}":
                if fmt[i + 1:i + 2] != "}":
                    raise Unfoldable("format string")
                out.append("}")
                i += 2
            else:
                out.append(c)
                i += 1
        return "".join(out)

    def display(self, v):
        if isinstance(v, Char):
            return chr(v.code)
        if isinstance(v, str):
            return v
        if isinstance(v, bool):
            return "true" if v else "false"
        if isinstance(v, int):
            return str(int(v))
        raise Unfoldable("Display of %s" % value_text(v))

    # ---- calls --------------------------------------------------------------------------------
    def nfa_operands(self, v, what):
        items = self.iterate(v) if not isinstance(v, list) else v
        for x in items:
            if not isinstance(x, Rx):
                raise Unfoldable("%s over a non-NFA value %s" % (what, value_text(x)))
        return items

    def primitive(self, comb, args, node, frame, env):
        site = self.site(frame, node, comb)
        if comb == "from":
            s = args[0]
            if not isinstance(s, str):
                raise Unfoldable("NFA::from of %s" % value_text(s))
            return Rx("lit", (), s.encode("utf-8"), site)
        if comb == "predicate":
            return Rx("pred", (), self.fold_pred_value(args[0]), site)
        if comb in ("empty", "nothing"):
            return Rx(comb, (), None, site)
        if comb in ("sequence", "choice"):
            return Rx(R.RX_OP_OF[comb], self.nfa_operands(args[0], "NFA::" + comb), None, site)
        raise Unfoldable("primitive %s" % comb)

    def fold_pred_value(self, f):
        mask = 0
        for b in range(256):
            r = self.call_value(f, [U8(b)])
            if not isinstance(r, bool):
                raise Unfoldable("predicate closure does not evaluate to a boolean")
            if r:
                mask |= 1 << b
        return mask

    def e_call(self, e, env, frame):
        f = e["f"]
        if f["k"] != "path":
            fv = self.eval(f, env, frame)
            return self.call_value(fv, [self.eval(a, env, frame) for a in e["args"]], frame)
        p = f["p"]
        segs = p.split("::")
        # local fn / closure variable
        if len(segs) == 1 and env.has(p):
            return self.call_value(env.get(p), [self.eval(a, env, frame) for a in e["args"]], frame)
        comb = comb_of_node(e)
        if comb is not None:
            args = [self.eval(a, env, frame) for a in e["args"]]
            return self.primitive(comb, args, e, frame, env)
        args = [self.eval(a, env, frame) for a in e["args"]]
        ty = segs[-2] if len(segs) >= 2 else None
        if ty == "Self" and frame.impl_self:
            ty = base_name(frame.impl_self)
        last = segs[-1]
        if ty == "Either" and last in ("Left", "Right"):
            return EitherVal(last, args[0])
        if p in _TRANSPARENT_CTORS:
            return args[0]
        if p in ("LazyLock::new", "std::sync::LazyLock::new", "Lazy::new", "OnceLock::new"):
            return self.call_value(args[0], [], frame) if args else Sym(p, [])
        if p == "Some":
            return OptionVal(True, args[0])
        if p in ("char::from", "String::from", "std::convert::identity"):
            if p == "char::from":
                return Char(self.as_code(args[0]))
            return args[0]
        if p in ("Vec::new", "Vec::with_capacity", "SmallVec::new"):
            return []
        if p in ("once", "std::iter::once", "iter::once"):
            return [args[0]]
        if p in ("std::cmp::max", "cmp::max", "std::cmp::min", "cmp::min"):
            x, y = self.as_code(args[0]), self.as_code(args[1])
            return max(x, y) if last == "max" else min(x, y)
        if len(segs) == 1:
            it = self.free_fns.get((frame.file, p))
            if it is None:
                c = [(ff, i) for (ff, n), i in self.free_fns.items() if n == p]
                if len(c) == 1:
                    return self.call_item(c[0][0], None, c[0][1], args)
            else:
                return self.call_item(frame.file, None, it, args)
            return Sym(p, args)
        if ty is not None:
            # only the grammar-defining files are evaluated; constructors of other modules (keys, events) stay symbolic
            known = [x for x in self.impl_fns.get((ty, last), []) if x[0] in (AUTOMATA, DECODER)]
            c = [x for x in known if x[3]["sig"]["inputs"][:1] == [] or x[3]["sig"]["inputs"][0]["name"] != "self"]
            if len(c) == 1:
                ff, s, tr, it = c[0]
                return self.call_item(ff, s, it, args)
            c = known
            if len(c) == 1 and args:
                ff, s, tr, it = c[0]
                return self.call_item(ff, s, it, args[1:], self_val=args[0])
            if ty == "NFA":
                raise Unfoldable("call of unknown NFA constructor %s" % p)
        return Sym(p, args)

    def e_mcall(self, e, env, frame):
        m = e["m"]
        recv = self.eval(e["recv"], env, frame)
        args = [self.eval(a, env, frame) for a in e["args"]]
        if isinstance(recv, Rx):
            if m in ("some", "many", "optional"):
                return Rx(m, (recv,), None, self.site(frame, e, m))
            if m == "clone":
                return recv
            if m == "tag_stop_state":
                return Rx("tag", (recv,), args[0], None)
            if m == "tags_map":
                f = args[0]
                return Rx("tagmap", (recv,), lambda t, f=f: self.call_value(f, [t]), None)
            if m == "compile":
                return Compiled(recv)
            c = [x for x in self.impl_fns.get(("NFA", m), [])]
            if len(c) == 1:
                ff, s, tr, it = c[0]
                return self.call_item(ff, s, it, args, self_val=recv)
            raise Unfoldable("method NFA::%s" % m)
        if isinstance(recv, StructVal):
            if m == "clone":
                return recv
            r = self.lookup_method(recv.name, m)
            if r is None:
                raise Unfoldable("method %s::%s" % (recv.name, m))
            ff, s, tr, it = r
            return self.call_item(ff, s, it, args, self_val=recv)
        if isinstance(recv, EitherVal):
            if m in ("map_right", "map_left"):
                if (m == "map_right") == (recv.side == "Right"):
                    return EitherVal(recv.side, self.call_value(args[0], [recv.value]))
                return recv
            raise Unfoldable("method Either::%s" % m)
        if isinstance(recv, Compiled):
            if m == "clone":
                return recv
            raise Unfoldable("method DFA::%s" % m)
        if isinstance(recv, (list, range)) or (isinstance(recv, tuple) and recv[:1] == ("charrange",)) or isinstance(recv, bytes):
            if m in ("iter", "into_iter", "iter_mut", "copied", "cloned", "collect", "clone", "to_vec", "into_vec", "by_ref"):
                return list(self.iterate(recv)) if m != "clone" or not isinstance(recv, list) else list(recv)
            if m == "enumerate":
                return [(i, x) for i, x in enumerate(self.iterate(recv))]
            if m == "rev":
                return list(reversed(self.iterate(recv)))
            if m == "map":
                return [self.call_value(args[0], [x]) for x in self.iterate(recv)]
            if m == "filter":
                out = []
                for x in self.iterate(recv):
                    r = self.call_value(args[0], [x])
                    if not isinstance(r, bool):
                        raise Unfoldable("filter closure is not boolean")
                    if r:
                        out.append(x)
                return out
            if m == "chain":
                return self.iterate(recv) + self.iterate(args[0])
            if m == "push":
                if not isinstance(recv, list):
                    raise Unfoldable("push on %s" % value_text(recv))
                recv.append(args[0])
                return ()
            if m == "extend":
                recv.extend(self.iterate(args[0]))
                return ()
            if m == "len":
                return len(self.iterate(recv))
            if m == "is_empty":
                return len(self.iterate(recv)) == 0
            if m == "contains":
                c = self.as_code(args[0])
                if isinstance(recv, tuple):
                    return recv[1] <= c < recv[2]
                return any(self.as_code(x) == c for x in self.iterate(recv))
            raise Unfoldable("method %s on a sequence" % m)
        if isinstance(recv, Char) or (isinstance(recv, int) and not isinstance(recv, bool)):
            c = self.as_code(recv)
            if m in _ASCII_PRED:
                return _ASCII_PRED[m](c)
            if m in ("to_ascii_lowercase", "to_ascii_uppercase"):
                if m == "to_ascii_lowercase" and 65 <= c <= 90:
                    c += 32
                elif m == "to_ascii_uppercase" and 97 <= c <= 122:
                    c -= 32
                return Char(c) if isinstance(recv, Char) else (U8(c) if isinstance(recv, U8) else c)
            if m == "to_string":
                return self.display(recv)
            if m in ("clone", "into", "to_owned"):
                return recv
            if isinstance(recv, U8) and not args and m in _U8_BITCOUNT:
                return _U8_BITCOUNT[m](c)
            if isinstance(recv, U8) and len(args) == 1 and m in ("wrapping_add", "wrapping_sub") and not isinstance(args[0], (bool, Char, Sym)) \
                    and isinstance(args[0], int):
                return U8((c + int(args[0]) if m == "wrapping_add" else c - int(args[0])) & 0xFF)
            raise Unfoldable("method %s on %s" % (m, value_text(recv)))
        if isinstance(recv, str):
            if m in ("to_string", "to_owned", "as_str", "clone", "into", "as_ref"):
                return recv
            if m in ("bytes", "as_bytes"):
                return [U8(b) for b in recv.encode("utf-8")]
            if m == "len":
                return len(recv.encode("utf-8"))
            if m == "chars":
                return [Char(ord(c)) for c in recv]
            raise Unfoldable("method str::%s" % m)
        if isinstance(recv, tuple):
            if m in ("into", "clone"):
                return recv
            raise Unfoldable("method %s on a tuple" % m)
        if isinstance(recv, Closure) or isinstance(recv, FnRef):
            raise Unfoldable("method %s on a function value" % m)
        if isinstance(recv, Sym):
            if m in ("into", "clone", "to_owned"):
                return recv
            return Sym("." + m, [recv] + args)
        if isinstance(recv, OptionVal):
            raise Unfoldable("method Option::%s" % m)
        raise Unfoldable("method %s on %s" % (m, value_text(recv)))


def fold_predicate(src, closure_node, file=DECODER):
    """byte class of a `|b| <bool expr>` closure node"""
    it = Interp(src)
    frame = Frame("<predicate>", file, None, {"k": "fn", "body": {"k": "block", "stmts": []}})
    return it.fold_pred_value(Closure(closure_node["params"], closure_node["body"], Env(), frame))


# ================================================================================================
# wiring templates read from automata.rs  (role dataflow over the combinator bodies; C15-R1 consumes this)
# ================================================================================================
class WiringError(Exception):
    pass


def _is_path(e, name=None):
    return isinstance(e, dict) and e.get("k") == "path" and (name is None or e["p"] == name)


def _unref(e):
    while isinstance(e, dict) and e.get("k") == "ref":
        e = e["e"]
    return e


def _int_lit(e):
    if isinstance(e, dict) and e.get("k") == "lit" and e.get("t") == "int":
        return int(e["v"])
    return None


class _LocalDefs:
    """Inherent / free fns and consts defined in src/automata.rs (outside tests): the callees the wiring readers may see through.
       Keys are (base name of the impl self type | None for free items, item name); ambiguous names are not resolved (fail closed)."""

    def __init__(self, src=None):
        self.fns = {}
        self.consts = {}
        if src is None:
            return
        for (f, s, tr, it, t) in src.fns:
            if t or f != AUTOMATA or tr is not None or (s or "").startswith("trait ") or not it.get("body"):
                continue
            self.fns.setdefault((base_name(s), it["name"]), []).append(it)
        for (f, s, it, t) in src.consts:
            if t or f != AUTOMATA or it.get("k") != "const":
                continue
            self.consts.setdefault((base_name(s), it["name"]), []).append(it)

    def fn(self, ty, name):
        c = self.fns.get((ty, name), [])
        return c[0] if len(c) == 1 else None

    def const(self, ty, name):
        c = self.consts.get((ty, name), [])
        return c[0] if len(c) == 1 else None


def _split_callee(p, self_ty):
    """'Self::f' / 'NFA::f' / 'f' -> (type base name | None, 'f')"""
    segs = [s for s in p.split("::") if s and not s.startswith("<")]
    if len(segs) == 1:
        return None, segs[0]
    ty = segs[-2]
    if ty == "Self":
        ty = self_ty
    return base_name(ty), segs[-1]


def _closure_of(e):
    e = _unref(e)
    return e if isinstance(e, dict) and e.get("k") == "closure" else None


def _is_empty_block(e):
    if e is None:
        return True
    if e.get("k") == "block":
        return not e["stmts"]
    return e.get("k") == "tuple" and not e["elems"]


_UNIT = ("unit",)


class _RoleEval:
    """Abstract interpretation of one combinator body over the role domain
       N<k> (fresh id NFAStateId(k)) · S/T (operand start/stop) · S0/T0 · Sn/Tn · Sp/Tp (previous operand).

       Values: ("role", r) · ("int", a, b, c) = a*len(ends) + b*<loop index> + c · ("pair", first|last|cur|prev|each) one element of `ends` ·
       ("opt", pair) · ("window",) a 2-window of `ends` · ("tuple", ..) · ("ends",) ("endsiter",) · ("states",) ("selfstates",) ("newmap",) ·
       ("fresh", uid) a locally built NFAState · ("stateref", role) / ("optstate", role) from states.get_mut(&role) ·
       ("epsilons"|"edges", holder) · ("nfa", start, stop, states) a result literal · ("self",) ("nfas",) ("pred",) ("symbol",) ("leafcall", name) · ("bool", b) a literal
       flag (an `if` over it is folded; the ε-inserts of the branch not taken are still counted in extra["eps_inserts_static"]).
       Calls to small local fns / inherent methods of src/automata.rs are evaluated in place (parameters bound to the abstract values of the
       arguments); named constants are evaluated; anything else fails closed (WiringError)."""

    def __init__(self, name, item, impl_self, local=None):
        self.name = name
        self.item = item
        self.local = local or _LocalDefs()
        self.env = {}
        self.arity = None
        self.reserve = 0
        self.merged = False
        self.new_states = set()
        self.eps = set()
        self.byte_edges = set()
        self.on_empty = None
        self.fresh = {}           # uid -> {"eps": [(scope, role)], "bytes": [role], "placed": False}
        self.result = None
        self.sites = []           # one entry per *evaluation* of an ε-insert site (a helper called 3 times with one insert = 3)
        self.byte_loop_ok = None
        self.scope = "once"
        self.idx = None           # (mode, c): inside an index-style loop `ends[i + c]` is the current element
        self.ends_indexed = False
        self.static_extra = 0     # ε-insert evaluations inside branches folded away by a literal flag
        self.self_ty = [base_name(impl_self) or "NFA"]
        self.call_stack = []
        self.local_consts = {}
        self.local_fns = {}
        inputs = item["sig"]["inputs"]
        self.self_taking = bool(inputs) and inputs[0]["name"] == "self"
        for p in inputs:
            if p["name"] == "self":
                self.env["self"] = ("self",)
            elif "IntoIterator" in p["ty"]:
                self.env[p["pat"]["name"]] = ("nfas",)
            elif p["ty"].startswith("implFn") or "Fn(" in p["ty"]:
                self.env[p["pat"]["name"]] = ("pred",)
            else:
                self.env[p["pat"].get("name", "?")] = ("param", p["ty"])

    def err(self, what):
        raise WiringError("%s: %s" % (self.name, what))

    # -- integers (linear in len(ends) and the loop index)
    @staticmethod
    def _int(c, a=0, b=0):
        return ("int", a, b, c)

    def const_int(self, e):
        v = self.val(e)
        if v[0] == "int" and v[1] == 0 and v[2] == 0:
            return v[3]
        return None

    # -- expressions -> abstract values (effects of helper calls / statements-as-expressions are applied in place)
    def val(self, e):
        e = _unref(e)
        k = e["k"]
        if k == "un" and e["op"] == "*":
            return self.val(e["e"])
        if k == "un" and e["op"] == "!":
            b = self.val(e["e"])
            if b[0] == "bool":
                return ("bool", not b[1])
            self.err("negation %s" % expr_text(e))
        if k == "lit":
            if e.get("t") == "int":
                return self._int(int(e["v"]))
            if e.get("t") == "bool":
                return ("bool", bool(e["v"]))
            self.err("literal %s" % expr_text(e))
        if k == "path":
            if e["p"] in self.env:
                return self.env[e["p"]]
            return self.const_val(e)
        if k == "field":
            b = self.val(e["e"])
            nm = e["name"]
            if b == ("self",):
                if nm == "start":
                    return ("role", "S")
                if nm == "stop":
                    return ("role", "T")
                if nm == "states":
                    return ("selfstates",)
            if b[0] in ("fresh", "stateref") and nm in ("epsilons", "edges"):
                return (nm,) + (b,)
            if b[0] == "pair" and nm in ("0", "1"):
                return ("role", self.pair_roles(b[1])[int(nm)])
            if b[0] == "tuple" and nm.isdigit() and int(nm) < len(b) - 1:
                return b[1 + int(nm)]
            self.err("field %s" % expr_text(e))
        if k == "call" and _is_path(e["f"]):
            return self.call_val(e)
        if k == "mcall":
            return self.mcall_val(e)
        if k == "index":
            b = self.val(e["e"])
            if b == ("ends",):
                kind = self.index_kind(e["i"])
                if kind in ("first", "last"):
                    self.ends_indexed = True
                return ("pair", kind)
            if b == ("window",):
                n = self.const_int(e["i"])
                if n == 0:
                    return ("pair", "prev")
                if n == 1:
                    return ("pair", "cur")
                self.err("window index %s" % expr_text(e["i"]))
            self.err("index into %s" % expr_text(e["e"]))
        if k == "tuple":
            if not e["elems"]:
                return _UNIT
            return ("tuple",) + tuple(self.val(x) for x in e["elems"])
        if k == "bin" and e["op"] in ("+", "-"):
            l, r = self.val(e["l"]), self.val(e["r"])
            if l[0] == "int" and r[0] == "int":
                s = 1 if e["op"] == "+" else -1
                return ("int", l[1] + s * r[1], l[2] + s * r[2], l[3] + s * r[3])
            self.err("arithmetic %s" % expr_text(e))
        if k == "struct":
            return self.struct_val(e)
        if k == "assign" and e["l"].get("k") == "field" and e["l"]["name"] == "edges":
            # state.edges = (0..=MAX).filter(..).map(|s| (s, to)).collect();   on a state that has no byte edges yet
            recv = self.val(e["l"])
            if recv[0] == "edges" and recv[1][0] == "fresh" and not self.fresh[recv[1][1]]["bytes"]:
                return self.extend_edges(e, recv, e["r"], True)
            self.err("assignment %s" % expr_text(e))
        if k == "block" and not e.get("label"):
            return self.scoped_block(e["stmts"])
        if k == "if":
            return self.if_val(e)
        if k == "match":
            return self.match_val(e)
        if k == "for":
            if e.get("label"):
                self.err("labelled loop")
            self.loop(e["iter"], e["pat"], e["body"])
            return _UNIT
        if k == "macro" and e.get("short") in ("debug_assert", "debug_assert_eq", "debug_assert_ne"):
            return _UNIT
        if k == "return":
            self.err("unexpected return")
        self.err("expression %s" % expr_text(e))

    def const_val(self, e):
        p = e["p"]
        ty, nm = _split_callee(p, self.self_ty[-1])
        node = None
        if ty is None and nm in self.local_consts:
            node, cty = self.local_consts[nm], self.self_ty[-1]
        else:
            c = self.local.const(ty, nm)
            if c is not None:
                node, cty = c["expr"], (ty or self.self_ty[-1])
        if node is None:
            self.err("unknown name %s" % p)
        if len(self.call_stack) >= 6:
            self.err("constant nesting at %s" % p)
        saved, self.env = self.env, {}
        self.self_ty.append(cty)
        self.call_stack.append(("const", p))
        try:
            return self.val(node)
        finally:
            self.call_stack.pop()
            self.self_ty.pop()
            self.env = saved

    def struct_val(self, e):
        ty = self.self_ty[-1] if e["path"] == "Self" else base_name(e["path"])
        f = {x["name"]: x["e"] for x in e["fields"]}
        if ty == "NFA":
            if set(f) != {"start", "stop", "states"} or e.get("rest"):
                self.err("result literal fields %s" % sorted(f))
            st = self.val(f["states"])
            if st not in (("states",), ("newmap",), ("selfstates",)):
                self.err("result states %s" % expr_text(f["states"]))
            return ("nfa", self.role(f["start"]), self.role(f["stop"]), st)
        if ty == "NFAState" and set(f) == {"edges", "epsilons", "tag"} and not e.get("rest"):
            def empty(x):
                return x["k"] == "call" and _is_path(x["f"]) and not x["args"] and \
                    x["f"]["p"] in ("Default::default", "BTreeMap::new", "BTreeSet::new", "BTreeMap::default", "BTreeSet::default")
            if empty(f["epsilons"]) and _is_path(f["tag"], "None"):
                if empty(f["edges"]):
                    return self.new_fresh()
                v = self.new_fresh()
                self.extend_edges(e, ("edges", v), f["edges"], True)
                return v
        self.err("struct literal %s" % expr_text(e))

    def new_fresh(self):
        uid = len(self.fresh)
        self.fresh[uid] = {"eps": [], "bytes": [], "placed": False}
        return ("fresh", uid)

    def call_val(self, e):
        p = e["f"]["p"]
        args = e["args"]
        ty, last = _split_callee(p, self.self_ty[-1])
        if (p == "NFAStateId" or (p == "Self" and self.self_ty[-1] == "NFAStateId")) and len(args) == 1:
            n = self.const_int(args[0])
            if n is None or n < 0:
                self.err("NFAStateId of a non-literal: %s" % expr_text(e))
            return ("role", "N%d" % n)
        if ty == "NFAState" and last == "new" and not args:
            return self.new_fresh()
        if p in ("BTreeMap::new", "Default::default", "BTreeMap::default") and not args:
            return ("newmap",)
        if ty == "NFA" and last == "merge_states":
            return self.merge_call(e)
        if ty == "NFA" and last in ("empty", "nothing") and not args:
            return ("leafcall", last)
        if p == "BTreeMap::from" and len(args) == 1 and args[0]["k"] == "array":
            m = ("newmap",)
            for el in args[0]["elems"]:
                if el["k"] != "tuple" or len(el["elems"]) != 2:
                    self.err("BTreeMap::from element %s" % expr_text(el))
                self.insert_state(m, el["elems"][0], el["elems"][1])
            return m
        if p in ("drop", "std::mem::drop", "mem::drop") and len(args) == 1:
            self.val(args[0])
            return _UNIT
        item = self.local_fns.get(last) if ty is None and last in self.local_fns else self.local.fn(ty, last)
        if item is not None:
            return self.call_helper(item, ty, None, args, expr_text(e))
        self.err("call %s" % expr_text(e))

    def value_type(self, v):
        if v[0] == "role":
            return "NFAStateId"
        if v == ("self",):
            return "NFA"
        if v[0] in ("fresh", "stateref"):
            return "NFAState"
        return None

    def call_helper(self, item, ty, recv, arg_nodes, what):
        """evaluate the body of a local fn in place: parameters := abstract values of the arguments"""
        name = item["name"]
        if ty == "NFA" and (name in COMBINATORS or name == "merge_states"):
            self.err("call of NFA::%s inside a combinator body: %s" % (name, what))
        key = (ty, name)
        if key in self.call_stack:
            self.err("recursive helper %s" % what)
        if len(self.call_stack) >= 6:
            self.err("helper nesting too deep at %s" % what)
        inputs = item["sig"]["inputs"]
        has_self = bool(inputs) and inputs[0]["name"] == "self"
        params = inputs[1:] if has_self else inputs
        arg_nodes = list(arg_nodes)
        if has_self and recv is None:
            if len(arg_nodes) != len(params) + 1:
                self.err("arity of %s" % what)
            recv = self.val(arg_nodes.pop(0))
        elif recv is not None and not has_self:
            self.err("%s is not a method" % what)
        if len(params) != len(arg_nodes):
            self.err("arity of %s" % what)
        vals = [self.val(a) for a in arg_nodes]
        saved_env, saved_consts, saved_fns = self.env, self.local_consts, self.local_fns
        self.env, self.local_consts, self.local_fns = {}, {}, {}
        if has_self:
            self.env["self"] = recv
        self.call_stack.append(key)
        self.self_ty.append(ty or self.self_ty[-1])
        try:
            for p, v in zip(params, vals):
                self.bind(p["pat"], v)
            return self.block(item["body"]["stmts"])
        finally:
            self.self_ty.pop()
            self.call_stack.pop()
            self.env, self.local_consts, self.local_fns = saved_env, saved_consts, saved_fns

    def mcall_val(self, e):
        m, args = e["m"], e["args"]
        if m == "for_each" and len(args) == 1 and _closure_of(args[0]) is not None:
            c = _closure_of(args[0])
            if len(c["params"]) != 1:
                self.err("for_each closure %s" % expr_text(e))
            self.loop(e["recv"], c["params"][0], c["body"])
            return _UNIT
        if m == "insert":
            return self.insert_val(e)
        recv = self.val(e["recv"])
        if m == "extend" and len(args) == 1 and recv[0] == "edges":
            return self.extend_edges(e, recv)
        if m == "map" and len(args) == 1 and _closure_of(args[0]) is not None and recv[0] == "optstate":
            c = _closure_of(args[0])
            if len(c["params"]) != 1:
                self.err("closure %s" % expr_text(e))
            self.with_state(c["params"][0], recv[1], c["body"])
            return _UNIT
        if recv == ("ends",):
            if m == "len" and not args:
                return self._int(0, a=1)
            if m in ("first", "last") and not args:
                return ("opt", ("pair", m))
            if m == "get" and len(args) == 1:
                return ("opt", ("pair", self.index_kind(args[0])))
            if m in ("iter", "into_iter") and not args:
                return ("endsiter",)
            if m == "as_slice" and not args:
                return recv
        if recv == ("endsiter",):
            if m in ("copied", "cloned") and not args:
                return recv
            if m == "next" and not args and _unref(e["recv"])["k"] == "mcall":
                return ("opt", ("pair", "first"))
        if recv[0] == "opt":
            if m in ("copied", "cloned") and not args:
                return recv
            if m in ("unwrap", "expect"):
                self.ends_indexed = True        # same failure mode as `ends[..]` on an empty list
                return recv[1]
        if recv[0] in ("pair", "role", "tuple", "int") and m in ("clone", "to_owned") and not args:
            return recv
        if recv in (("states",), ("selfstates",)) and m == "get_mut" and len(args) == 1:
            return ("optstate", self.role(args[0]))
        ty = self.value_type(recv)
        if ty is not None:
            item = self.local.fn(ty, m)
            if item is not None and item["sig"]["inputs"] and item["sig"]["inputs"][0]["name"] == "self":
                return self.call_helper(item, ty, recv, args, expr_text(e))
        self.err("method call %s" % expr_text(e))

    def merge_call(self, e):
        if self.merged:
            self.err("merge_states called twice")
        if len(e["args"]) != 2:
            self.err("merge_states arity")
        if self.scope != "once":
            self.err("merge_states called inside a loop")
        a, kk = e["args"]
        n = self.const_int(kk)
        if n is None or n < 0:
            self.err("merge_states offset is not a literal")
        a = _unref(a)
        while a["k"] == "mcall" and a["m"] == "into_iter" and not a["args"]:
            a = _unref(a["recv"])

        def is_self(x):
            return _is_path(_unref(x)) and self.env.get(_unref(x)["p"]) == ("self",)
        if _is_path(a) and self.env.get(a["p"]) == ("nfas",):
            self.arity = "nary"
        elif a["k"] == "call" and _is_path(a["f"]) and a["f"]["p"].split("::")[-1] in ("once", "Some") and len(a["args"]) == 1 and is_self(a["args"][0]):
            self.arity = "unary"
        elif a["k"] == "array" and len(a["elems"]) == 1 and is_self(a["elems"][0]):
            self.arity = "unary"
        elif a["k"] == "macro" and a.get("short") == "vec" and isinstance(a.get("args"), list) and len(a["args"]) == 1 and is_self(a["args"][0]):
            self.arity = "unary"
        else:
            self.err("merge_states over %s" % expr_text(a))
        self.merged = True
        self.reserve = n
        return ("tuple", ("states",), ("ends",))

    def index_kind(self, i):
        i = _unref(i)
        if i["k"] == "range":
            self.err("ends[%s]" % expr_text(i))
        v = self.val(i)
        if v[0] != "int":
            self.err("ends[%s]" % expr_text(i))
        _, a, b, c = v
        if a == 0 and b == 0:
            if c == 0:
                return "first"
            self.err("ends[%d]" % c)
        if a == 1 and b == 0 and c == -1:
            return "last"
        if a == 0 and b == 1 and self.idx is not None:
            mode, cur = self.idx
            if mode == "adjacent":
                if c == cur:
                    return "cur"
                if c == cur - 1:
                    return "prev"
            elif c == 0:
                return "each"
        self.err("ends[%s]" % expr_text(i))

    def pair_roles(self, kind):
        if self.arity == "unary":
            if kind in ("first", "last"):
                return ("S", "T")
            self.err("loop over the ends of a unary merge")
        return {"first": ("S0", "T0"), "last": ("Sn", "Tn"), "cur": ("S", "T"), "prev": ("Sp", "Tp"), "each": ("S", "T")}[kind]

    def bind(self, pat, v):
        k = pat["k"]
        if k == "wild":
            return
        if k == "ident":
            if pat.get("sub"):
                self.err("pattern %s" % pat_text(pat))
            self.env[pat["name"]] = v
            return
        if k == "ref":
            return self.bind(pat["pat"], v)
        if k == "tuple":
            if v[0] == "pair":
                s, t = self.pair_roles(v[1])
                v = ("tuple", ("role", s), ("role", t))
            if v[0] != "tuple" or len(v) - 1 != len(pat["elems"]):
                self.err("tuple pattern %s" % pat_text(pat))
            for p, x in zip(pat["elems"], v[1:]):
                self.bind(p, x)
            return
        if k == "slice" and v == ("window",) and len(pat["elems"]) == 2:
            self.bind(pat["elems"][0], ("pair", "prev"))
            self.bind(pat["elems"][1], ("pair", "cur"))
            return
        if k == "struct" and v == ("self",) and not pat.get("rest") and \
                (self.self_ty[-1] if pat["path"] == "Self" else base_name(pat["path"])) == "NFA":
            f = {x["name"]: x["pat"] for x in pat["fields"]}
            if set(f) == {"start", "stop", "states"}:
                self.bind(f["start"], ("role", "S"))
                self.bind(f["stop"], ("role", "T"))
                self.bind(f["states"], ("selfstates",))
                return
        self.err("pattern %s" % pat_text(pat))

    def role(self, e):
        v = self.val(e)
        if v[0] != "role":
            self.err("%s is not a state id" % expr_text(e))
        return v[1]

    # -- statements
    def run(self):
        body = self.item["body"]["stmts"]
        res = self.block(body, top=True)
        self.finish(res)
        if self.result is None:
            self.err("no result expression")
        for uid, f in self.fresh.items():
            if (f["eps"] or f["bytes"]) and not f["placed"]:
                self.err("a locally built state with edges is never inserted into the state map")
        return res

    def block(self, body, top=False):
        """statements of one block, in order; value of the tail expression (unit if there is none)"""
        res = _UNIT
        for i, st in enumerate(body):
            last = i == len(body) - 1
            res = _UNIT
            if st["k"] == "let":
                self.let(st)
            elif st["k"] == "item":
                it = st["item"]
                if it.get("k") == "const":
                    self.local_consts[it["name"]] = it["expr"]
                elif it.get("k") == "fn":
                    self.local_fns[it["name"]] = it
                elif it.get("k") != "use":
                    self.err("nested item %s" % it.get("k"))
            elif st["k"] == "expr":
                e = st["e"]
                if last and top and e["k"] == "return" and e.get("e") is not None:
                    res = self.val(e["e"])
                else:
                    v = self.val(e)
                    if last and not st["semi"]:
                        res = v
            else:
                self.err("statement kind %s" % st["k"])
        return res

    def scoped_block(self, body):
        saved = dict(self.env)
        saved_c, saved_f = dict(self.local_consts), dict(self.local_fns)
        try:
            return self.block(body)
        finally:
            self.env, self.local_consts, self.local_fns = saved, saved_c, saved_f

    def body_val(self, e):
        """a loop / closure / arm body: a block or a single expression"""
        if e["k"] == "block":
            return self.scoped_block(e["stmts"])
        return self.val(e)

    def let(self, st):
        if st.get("init") is None:
            self.err("let without initialiser")
        v = self.val(st["init"])
        if st.get("else") is not None:
            # let Some(p) = ends.first() else { return Self::empty() };
            # also  let (Some(&(start, _)), Some(&(_, stop))) = (ends.first(), ends.last()) else { .. }:  all are Some iff `ends` is not empty
            pat = st["pat"]
            pairs = self.some_patterns(pat, v)
            if not pairs:
                self.err("let-else %s" % pat_text(pat))
            self.empty_return(st["else"])
            for p, x in pairs:
                self.bind(p, x)
            return
        self.bind(st["pat"], v)

    def some_patterns(self, pat, v):
        """[(sub-pattern, element of ends)] if `pat` matches `v` exactly when `ends` is not empty (Some(..) over first()/last(), tuples of these)"""
        while pat["k"] == "ref":
            pat = pat["pat"]
        if pat["k"] == "tstruct" and pat["path"] == "Some" and len(pat["elems"]) == 1 and v[0] == "opt" and v[1][0] == "pair" and v[1][1] in ("first", "last"):
            return [(pat["elems"][0], v[1])]
        if pat["k"] == "tuple" and v[0] == "tuple" and len(pat["elems"]) == len(v) - 1 and pat["elems"]:
            out = []
            for p, x in zip(pat["elems"], v[1:]):
                r = self.some_patterns(p, x)
                if not r:
                    return None
                out += r
            return out
        return None

    def empty_return(self, blk):
        """`{ return Self::<leaf>() }` taken when the operand list is empty"""
        th = blk["stmts"] if blk.get("k") == "block" else None
        if th is None or len(th) != 1 or th[0]["k"] != "expr" or th[0]["e"]["k"] != "return" or th[0]["e"].get("e") is None:
            self.err("shape of the `ends.is_empty()` early return")
        v = self.val(th[0]["e"]["e"])
        self.set_on_empty(v, expr_text(th[0]["e"]["e"]))

    def set_on_empty(self, v, what):
        if v[0] != "leafcall" or self.scope != "once" or self.call_stack or self.on_empty is not None:
            self.err("early return value %s" % what)
        if self.ends_indexed:
            self.err("`ends` is indexed before the empty operand list is handled")
        if self.arity != "nary":
            self.err("empty-operand-list test in a combinator that is not n-ary")
        self.on_empty = v[1]

    def is_empty_test(self, c):
        """condition equivalent to `ends.is_empty()`"""
        if c["k"] == "mcall" and c["m"] == "is_empty" and not c["args"]:
            return self.val(c["recv"]) == ("ends",)
        if c["k"] == "bin" and c["op"] in ("==", "<", "<=", ">", ">="):
            try:
                l, r = self.val(c["l"]), self.val(c["r"])
            except WiringError:
                return False
            if l[0] != "int" or r[0] != "int" or l[2] or r[2] or (l[1] == 0 and r[1] == 0):
                return False
            op = {"==": lambda x, y: x == y, "<": lambda x, y: x < y, "<=": lambda x, y: x <= y, ">": lambda x, y: x > y, ">=": lambda x, y: x >= y}[c["op"]]
            truth = [op(l[1] * n + l[3], r[1] * n + r[3]) for n in range(0, 6)]
            return truth == [True] + [False] * 5
        return False

    def flag_of(self, c):
        """value of a condition that is a literal flag (a bool literal / a parameter bound to one / its negation), else None"""
        x = c
        while x.get("k") == "un" and x["op"] == "!":
            x = x["e"]
        if x.get("k") == "lit" and x.get("t") == "bool" or (_is_path(x) and self.env.get(x["p"], ("?",))[0] == "bool"):
            return self.val(c)[1]
        return None

    def dry_sites(self, node):
        """number of ε-insert evaluations of a branch that is folded away (evaluated on a copy of the state, effects discarded)"""
        names = ("env", "arity", "reserve", "merged", "new_states", "eps", "byte_edges", "on_empty", "fresh", "result", "sites", "byte_loop_ok",
                 "scope", "idx", "ends_indexed", "local_consts", "local_fns", "static_extra")
        snap = {}
        for n in names:
            v = getattr(self, n)
            snap[n] = copy.deepcopy(v) if n == "fresh" else (v.copy() if isinstance(v, (dict, set)) else (list(v) if isinstance(v, list) else v))
        n0 = len(self.sites) + self.static_extra
        try:
            self.body_val(node)
            return len(self.sites) + self.static_extra - n0
        finally:
            for n in names:
                setattr(self, n, snap[n])

    def if_val(self, e):
        c = e["cond"]
        flag = self.flag_of(c)
        if flag is not None:
            taken, other = (e["then"], e.get("else")) if flag else (e.get("else"), e["then"])
            if other is not None:
                self.static_extra += self.dry_sites(other)
            return self.body_val(taken) if taken is not None else _UNIT
        if self.is_empty_test(c):
            if e.get("else") is None:
                self.empty_return(e["then"])
                return _UNIT
            # if ends.is_empty() { Self::empty() } else { <rest> }   (as the tail of the body)
            th = e["then"]["stmts"]
            if len(th) != 1 or th[0]["k"] != "expr":
                self.err("shape of the `ends.is_empty()` branch")
            x = th[0]["e"]
            if x["k"] == "return" and x.get("e") is not None:
                x = x["e"]
            elif th[0]["semi"]:
                self.err("shape of the `ends.is_empty()` branch")
            self.set_on_empty(self.val(x), expr_text(x))
            return self.body_val(e["else"])
        if c["k"] == "letcond":
            pat = c["pat"]
            g = self.val(c["e"])
            if pat["k"] == "tstruct" and pat["path"] == "Some" and len(pat["elems"]) == 1:
                if g[0] == "optstate":
                    if not _is_empty_block(e.get("else")):
                        self.err("else branch of `if let Some(..) = states.get_mut(..)`")
                    self.with_state(pat["elems"][0], g[1], e["then"])
                    return _UNIT
                if g[0] == "opt" and not e.get("else") and (self.arity == "unary" or self.on_empty is not None):
                    # the list is known to be non-empty here: the branch is always taken
                    saved = dict(self.env)
                    self.bind(pat["elems"][0], g[1])
                    self.block(e["then"]["stmts"])
                    self.env = saved
                    return _UNIT
            while pat["k"] == "ref":
                pat = pat["pat"]
            if pat["k"] == "slice" and g == ("window",) and not e.get("else"):
                saved = dict(self.env)
                self.bind(pat, g)
                self.block(e["then"]["stmts"])
                self.env = saved
                return _UNIT
        if c["k"] == "call" and _is_path(c["f"]) and self.env.get(c["f"]["p"]) == ("pred",) and self.scope == "bytes":
            if len(c["args"]) != 1 or self.val(c["args"][0]) != ("symbol",) or e.get("else"):
                self.err("predicate guard %s" % expr_text(c))
            saved, self.scope = self.scope, "bytes-guarded"
            try:
                self.scoped_block(e["then"]["stmts"])
            finally:
                self.scope = saved
            return _UNIT
        self.err("if %s" % expr_text(c))

    def with_state(self, pat, role, body):
        """body evaluated with `pat` bound to the state stored under `role` (taken iff that state exists)"""
        saved = dict(self.env)
        self.bind(pat, ("stateref", role))
        self.body_val(body)
        self.env = saved

    def match_val(self, e):
        sv = self.val(e["e"])
        if sv[0] == "bool":
            # match <literal flag> { true => .., false => .. }: folded like `if`
            taken = None
            for arm in e["arms"]:
                p = arm["pat"]
                if arm.get("guard") is not None:
                    self.err("guarded arm in match %s" % expr_text(e["e"]))
                hit = (p["k"] == "lit" and p["e"].get("t") == "bool" and bool(p["e"]["v"]) == sv[1]) or p["k"] == "wild"
                if not (p["k"] == "wild" or (p["k"] == "lit" and p["e"].get("t") == "bool")):
                    self.err("arm %s of match %s" % (pat_text(p), expr_text(e["e"])))
                if hit and taken is None:
                    taken = arm
                else:
                    self.static_extra += self.dry_sites(arm["body"])
            if taken is None:
                self.err("match %s" % expr_text(e["e"]))
            return self.body_val(taken["body"])
        if sv[0] != "optstate":
            self.err("match %s" % expr_text(e["e"]))
        some = None
        for arm in e["arms"]:
            p = arm["pat"]
            if arm.get("guard") is not None:
                self.err("guarded arm in match %s" % expr_text(e["e"]))
            if p["k"] == "tstruct" and p["path"] == "Some" and len(p["elems"]) == 1 and some is None:
                some = arm
            elif (p["k"] == "wild" or (p["k"] in ("path", "ident") and (p.get("p") or p.get("name")) == "None")) and _is_empty_block(arm["body"]):
                pass
            else:
                self.err("arm %s of match %s" % (pat_text(p), expr_text(e["e"])))
        if some is None:
            self.err("match %s without a Some arm" % expr_text(e["e"]))
        self.with_state(some["pat"]["elems"][0], sv[1], some["body"])
        return _UNIT

    # -- loops over the operands' ends / over the alphabet
    def is_byte_range(self, it):
        lo, hi = it.get("lo"), it.get("hi")
        if lo is None or hi is None or not it["incl"]:
            return False
        lo_ok = _int_lit(lo) == 0 or (_is_path(lo) and lo["p"] in ("Symbol::MIN", "u8::MIN"))
        hi_ok = (_is_path(hi) and hi["p"] in ("Symbol::MAX", "u8::MAX")) or _int_lit(hi) == 255
        return lo_ok and hi_ok

    def seq(self, it):
        """symbolic description of an iterated sequence:
           ("E", off, trunc) elements ends[off..] (trunc: without the last) · ("EN", off, first_i) enumerated · ("ZIP", a, b) · ("WIN",)
           · ("RANGE", lo, hi_excl) as ints · ("BYTES", guarded)"""
        it = _unref(it)
        k = it["k"]
        if k == "mcall":
            m, args = it["m"], it["args"]
            if m in ("iter", "into_iter", "copied", "cloned", "as_slice") and not args:
                return self.seq(it["recv"])
            if m == "skip" and len(args) == 1 and self.const_int(args[0]) == 1:
                b = self.seq(it["recv"])
                if b == ("E", 0, False):
                    return ("E", 1, False)
                if b == ("EN", 0, 0):
                    return ("EN", 1, 1)
                self.err("loop over %s" % expr_text(it))
            if m == "enumerate" and not args:
                b = self.seq(it["recv"])
                if b[0] == "E" and not b[2]:
                    return ("EN", b[1], 0)
                self.err("loop over %s" % expr_text(it))
            if m == "zip" and len(args) == 1:
                return ("ZIP", self.seq(it["recv"]), self.seq(args[0]))
            if m == "windows" and len(args) == 1 and self.const_int(args[0]) == 2 and self.val(it["recv"]) == ("ends",):
                return ("WIN",)
            if m == "array_windows" and not args and self.val(it["recv"]) == ("ends",):
                return ("WIN",)
            if m == "filter" and len(args) == 1 and _closure_of(args[0]) is not None and self.seq(it["recv"]) == ("BYTES", False):
                c = _closure_of(args[0])
                p = c["params"][0] if len(c["params"]) == 1 else None
                while p is not None and p["k"] == "ref":
                    p = p["pat"]
                b = c["body"]
                if p is not None and p["k"] == "ident" and b["k"] == "call" and _is_path(b["f"]) and self.env.get(b["f"]["p"]) == ("pred",) and \
                        len(b["args"]) == 1:
                    a = _unref(b["args"][0])
                    while a["k"] == "un" and a["op"] == "*":
                        a = a["e"]
                    if _is_path(a, p["name"]):
                        return ("BYTES", True)
                self.err("filter %s" % expr_text(it))
            self.err("loop over %s" % expr_text(it))
        if k == "index" and _unref(it["i"])["k"] == "range" and self.val(it["e"]) == ("ends",):
            r = _unref(it["i"])
            lo = 0 if r["lo"] is None else self.const_int(r["lo"])
            if lo in (0, 1):
                if r["hi"] is None:
                    return ("E", lo, False)
                h = self.val(r["hi"])
                if lo == 0 and not r["incl"] and h == ("int", 1, 0, -1) and self.on_empty is not None:
                    return ("E", 0, True)
            self.err("loop over %s" % expr_text(it))
        if k == "range":
            if self.is_byte_range(it) and ("pred",) in self.env.values():
                return ("BYTES", False)
            if it.get("lo") is None or it.get("hi") is None:
                self.err("loop range %s" % expr_text(it))
            lo, hi = self.val(it["lo"]), self.val(it["hi"])
            if lo[0] != "int" or hi[0] != "int" or lo[1:3] != (0, 0) or hi[1:3] != (1, 0):
                self.err("loop range %s" % expr_text(it))
            if hi[3] < 0 and self.on_empty is None:
                self.err("`ends.len() - %d` before the empty operand list is handled" % -hi[3])
            return ("RANGE", lo[3], hi[3] + (1 if it["incl"] else 0))
        if self.val(it) == ("ends",):
            return ("E", 0, False)
        self.err("loop over %s" % expr_text(it))

    def loop(self, it, pat, body):
        if self.scope != "once":
            self.err("nested loop")
        d = self.seq(it)
        idx = None
        if d[0] == "BYTES":
            self.byte_loop_ok = True
            scope, v = ("bytes-guarded" if d[1] else "bytes"), ("symbol",)
        elif d == ("E", 0, False):
            scope, v = "each", ("pair", "each")
        elif d[0] == "EN" and d[1] == 0:
            scope, v, idx = "each", ("tuple", ("int", 0, 1, 0), ("pair", "each")), ("each", 0)
        elif d[0] == "EN":
            scope, v, idx = "adjacent", ("tuple", ("int", 0, 1, 0), ("pair", "cur")), ("adjacent", 1 - d[2])
        elif d[0] == "ZIP":
            a, b = d[1], d[2]
            if a[0] != "E" or b[0] != "E":
                self.err("loop over %s" % expr_text(it))
            if a[1] == 0 and b == ("E", 1, False):
                scope, v = "adjacent", ("tuple", ("pair", "prev"), ("pair", "cur"))
            elif a == ("E", 1, False) and b[1] == 0:
                scope, v = "adjacent", ("tuple", ("pair", "cur"), ("pair", "prev"))
            else:
                self.err("loop over %s" % expr_text(it))
        elif d == ("WIN",):
            scope, v = "adjacent", ("window",)
        elif d[0] == "RANGE":
            lo, hi = d[1], d[2]
            k = -hi
            if lo < 0 or k < 0:
                self.err("loop range %s" % expr_text(it))
            if lo + k == 1:
                scope, v, idx = "adjacent", ("int", 0, 1, 0), ("adjacent", k)
            elif lo + k == 0:
                scope, v, idx = "each", ("int", 0, 1, 0), ("each", 0)
            else:
                self.err("loop over adjacent operands must start at 1, found %s" % expr_text(it))
        else:
            self.err("loop over %s" % expr_text(it))
        if scope in ("each", "adjacent") and self.arity != "nary":
            self.err("%s loop in a unary combinator" % ("adjacent" if scope == "adjacent" else "loop over ends /"))
        saved_env, saved_scope, saved_idx = dict(self.env), self.scope, self.idx
        self.scope, self.idx = scope, idx
        try:
            self.bind(pat, v)
            self.body_val(body)
        finally:
            self.env, self.scope, self.idx = saved_env, saved_scope, saved_idx

    def finish(self, v):
        if v == ("self",):
            if not self.self_taking:
                self.err("returns self in a constructor")
            if self.merged:
                self.err("returns self after merge_states")
            self.arity = "unary"
            self.result = ("S", "T")
            return
        if v[0] == "nfa":
            _, start, stop, st = v
            if self.merged and st != ("states",):
                self.err("result states are not the merged states")
            if st == ("selfstates",):
                if not self.self_taking or self.merged:
                    self.err("result states")
                self.arity = "unary"
            self.result = (start, stop)
            return
        self.err("result expression")

    def insert_state(self, recv, key, value):
        if self.scope != "once":
            self.err("state inserted inside a loop")
        r = self.role(key)
        v = self.val(value)
        if v[0] != "fresh":
            self.err("inserted state %s" % expr_text(value))
        if not r.startswith("N"):
            self.err("state inserted under an operand's id %s" % r)
        if r in self.new_states:
            self.err("state %s inserted twice" % r)
        f = self.fresh[v[1]]
        if f["placed"]:
            self.err("local state inserted twice")
        f["placed"] = True
        self.new_states.add(r)
        for (sc, to) in f["eps"]:
            self.eps.add((sc, r, to))
        for to in f["bytes"]:
            self.byte_edges.add((r, to))

    def byte_pairs(self, a, collected=None):
        """target role of  (0..=MAX).filter(|s| pred(*s)).map(|s| (s, to)) [.collect()]  (every byte of the predicate's class -> `to`), else None"""
        a = _unref(a)
        if a["k"] == "mcall" and a["m"] == "collect" and not a["args"] and collected is not False:
            return self.byte_pairs(a["recv"], False)
        if collected is True:
            return None
        c = _closure_of(a["args"][0]) if a["k"] == "mcall" and a["m"] == "map" and len(a["args"]) == 1 else None
        if c is None or len(c["params"]) != 1:
            return None
        try:
            if self.seq(a["recv"]) != ("BYTES", True):
                return None
        except WiringError:
            return None
        saved = dict(self.env)
        try:
            self.bind(c["params"][0], ("symbol",))
            v = self.body_val(c["body"])
        finally:
            self.env = saved
        if v[0] != "tuple" or len(v) != 3 or v[1] != ("symbol",) or v[2][0] != "role":
            return None
        return v[2][1]

    def extend_edges(self, e, recv, arg=None, collected=None):
        """state.edges.extend((0..=MAX).filter(|s| pred(*s)).map(|s| (s, to)))  ==  for s in 0..=MAX { if pred(s) { state.edges.insert(s, to); } }"""
        holder = recv[1]
        to = self.byte_pairs(e["args"][0] if arg is None else arg, collected)
        if to is None or holder[0] != "fresh" or self.scope != "once" or self.fresh[holder[1]]["placed"]:
            self.err("byte edges %s" % expr_text(e))
        self.byte_loop_ok = True
        self.fresh[holder[1]]["bytes"].append(to)
        return _UNIT

    def insert_val(self, e):
        scope = self.scope
        recv = self.val(e["recv"])
        if recv[0] == "epsilons" and len(e["args"]) == 1:
            holder = recv[1]
            to = self.role(e["args"][0])
            if scope not in ("once", "each", "adjacent"):
                self.err("ε-edge inserted in scope %s" % scope)
            self.sites.append(e.get("line", 0))
            if holder[0] == "stateref":
                self.eps.add((scope, holder[1], to))
            else:
                f = self.fresh[holder[1]]
                if f["placed"]:
                    self.err("edge added to a state after it was inserted")
                f["eps"].append((scope, to))
            return _UNIT
        if recv[0] == "edges" and len(e["args"]) == 2:
            holder = recv[1]
            if scope != "bytes-guarded" or self.val(e["args"][0]) != ("symbol",) or holder[0] != "fresh":
                self.err("byte edge %s outside `for symbol in 0..=MAX { if pred(symbol) {..} }`" % expr_text(e))
            self.fresh[holder[1]]["bytes"].append(self.role(e["args"][1]))
            return _UNIT
        if recv in (("states",), ("newmap",)) and len(e["args"]) == 2:
            self.insert_state(recv, e["args"][0], e["args"][1])
            return _UNIT
        self.err("insert %s" % expr_text(e))

    def template(self):
        self.run()
        if self.arity is None:
            self.arity = "leaf"
        start, stop = self.result
        roles = {start, stop}
        for (_, a, b) in self.eps:
            roles |= {a, b}
        for (a, b) in self.byte_edges:
            roles |= {a, b}
        for r in roles:
            if r.startswith("N"):
                k = int(r[1:])
                if r not in self.new_states:
                    self.err("state id %s is used but no state is inserted under it" % r)
                if self.arity != "leaf" and k >= self.reserve:
                    self.err("fresh id %s is not below the merge offset %d (collides with an operand state)" % (r, self.reserve))
            elif self.arity == "leaf":
                self.err("operand role %s in a constructor" % r)
        if self.arity == "leaf" and sorted(self.new_states) != ["N%d" % i for i in range(len(self.new_states))]:
            self.err("constructor state ids are not dense: %s" % sorted(self.new_states))
        if self.arity == "nary" and self.on_empty is None:
            self.err("n-ary combinator indexes `ends` without handling the empty operand list")
        if self.arity == "unary" and self.merged is False and not self.self_taking:
            self.err("unary combinator without self")
        return Template(self.name, self.arity, self.reserve, self.new_states, self.eps, start, stop, self.on_empty, self.byte_edges,
                        sites=["%s:%d" % (AUTOMATA, l) for l in sorted(set(self.sites))], extra={"eps_inserts": len(self.sites), "eps_inserts_static": len(self.sites) + self.static_extra})


def _read_from_str(item, local=None):
    """Loop-invariant check of `impl From<&str> for NFA`: before iteration `index` state_id == NFAStateId(index) and `state` is a fresh
    edge-less state not yet inserted; the iteration inserts (NFAStateId(index) -> {symbol -> NFAStateId(index+1)}) and re-establishes
    the invariant for index+1; after the loop the pending state is inserted; result (NFAStateId(0), state_id)."""
    name = "from"

    def err(what):
        raise WiringError("from: " + what)
    inputs = [p for p in item["sig"]["inputs"] if p["name"] != "self"]
    if len(inputs) != 1:
        err("signature")
    sparam = inputs[0]["pat"]["name"]
    env = {}
    inserted = []      # (key id, state value)
    loop_seen = False

    def idval(e, idx=None, depth=0):
        e = _unref(e)
        if _is_path(e) and e["p"] in env and env[e["p"]][0] == "id":
            return env[e["p"]]
        if _is_path(e) and e["p"] not in env and local is not None and depth < 4:
            # a named constant of src/automata.rs, e.g. `const FIRST: NFAStateId = NFAStateId(0)`
            cty, cnm = _split_callee(e["p"], "NFA")
            c = local.const(cty, cnm)
            if c is not None:
                return idval(c["expr"], None, depth + 1)
        if e["k"] == "call" and _is_path(e["f"], "NFAStateId") and len(e["args"]) == 1:
            a = e["args"][0]
            n = _int_lit(a)
            if n is not None:
                return ("id", "const", n)
            if idx is not None:
                if _is_path(a, idx):
                    return ("id", "index", 0)
                if a["k"] == "bin" and a["op"] == "+":
                    for x, y in ((a["l"], a["r"]), (a["r"], a["l"])):
                        if _is_path(x, idx) and _int_lit(y) is not None:
                            return ("id", "index", _int_lit(y))
        err("state id expression %s" % expr_text(e))

    def stateval(e, idx):
        e = _unref(e)
        if e["k"] == "call" and _is_path(e["f"], "NFAState::new"):
            return ["state", []]
        if _is_path(e) and e["p"] in env and env[e["p"]][0] == "state":
            return env[e["p"]]
        if e["k"] == "call" and _is_path(e["f"]) and e["f"]["p"].split("::")[-1] == "replace" and len(e["args"]) == 2:
            tgt = _unref(e["args"][0])
            if not (_is_path(tgt) and tgt["p"] in env and env[tgt["p"]][0] == "state"):
                err("mem::replace target")
            old = env[tgt["p"]]
            env[tgt["p"]] = stateval(e["args"][1], idx)
            return old
        err("state expression %s" % expr_text(e))

    def run(stmts, idx, sym):
        nonlocal loop_seen
        for st in stmts:
            if st["k"] == "let":
                p = st["pat"]
                if p["k"] != "ident":
                    err("let pattern")
                init = st["init"]
                i0 = _unref(init)
                if i0["k"] == "call" and _is_path(i0["f"]) and i0["f"]["p"] in ("BTreeMap::new", "Default::default"):
                    env[p["name"]] = ("map",)
                elif i0["k"] == "call" and _is_path(i0["f"], "NFAState::new") or (i0["k"] == "call" and _is_path(i0["f"]) and i0["f"]["p"].endswith("replace")):
                    env[p["name"]] = stateval(i0, idx)
                else:
                    env[p["name"]] = idval(i0, idx)
                continue
            if st["k"] != "expr":
                err("statement kind %s" % st["k"])
            e = st["e"]
            if e["k"] == "for":
                if idx is not None or loop_seen:
                    err("nested or repeated loop")
                it = e["iter"]
                ok = it["k"] == "mcall" and it["m"] == "enumerate" and not it["args"]
                by = it["recv"] if ok else it
                while by["k"] == "mcall" and by["m"] in ("iter", "into_iter", "copied", "cloned") and not by["args"]:
                    by = by["recv"]       # string.as_bytes().iter().copied() yields the same bytes in the same order
                ok = ok and by["k"] == "mcall" and by["m"] in ("bytes", "as_bytes") and not by["args"] and _is_path(_unref(by["recv"]), sparam)
                pt = e["pat"]
                if ok and pt["k"] == "tuple":
                    pt = dict(pt, elems=[(x["pat"] if x["k"] == "ref" else x) for x in pt["elems"]])
                if not ok or pt["k"] != "tuple" or len(pt["elems"]) != 2 or any(x["k"] != "ident" for x in pt["elems"]):
                    err("loop header %s" % expr_text(it))
                loop_seen = True
                # invariant at loop entry
                assigned = set()

                def visit(n):
                    if n.get("k") == "assign" and _is_path(n["l"]):
                        assigned.add(n["l"]["p"])
                ordered_walk(e["body"], visit)
                # loop-carried ids: those assigned in the body; they must hold NFAStateId(0) == NFAStateId(index) at entry
                sid = [k for k, v in env.items() if v[0] == "id" and k in assigned]
                if any(env[k][1:] != ("const", 0) for k in sid):
                    err("a loop-carried state id does not start at NFAStateId(0)")
                pre = {k: v for k, v in env.items()}
                pend = [k for k, v in env.items() if v[0] == "state"]
                if len(pend) != 1 or env[pend[0]][1]:
                    err("exactly one pending edge-less state is expected before the loop")
                if inserted:
                    err("states inserted before the loop")
                # symbolic iteration: ids that are const 0 before the loop and reassigned in the loop are `index + 0`
                for k in sid:
                    env[k] = ("id", "index", 0)
                n0 = len(inserted)
                run(e["body"]["stmts"], pt["elems"][0]["name"], pt["elems"][1]["name"])
                new = inserted[n0:]
                if len(new) != 1:
                    err("one state must be inserted per iteration, found %d" % len(new))
                key, stv = new[0]
                if key != ("id", "index", 0):
                    err("the state inserted in iteration i is keyed %s, expected NFAStateId(i)" % (key,))
                if stv[1] != [("sym", ("id", "index", 1))]:
                    err("the state inserted in iteration i must have exactly the edge symbol_i -> NFAStateId(i+1), found %s" % (stv[1],))
                pend2 = [k for k, v in env.items() if v[0] == "state" and k in pre]
                if pend2 != pend or env[pend[0]][1]:
                    err("the pending state after an iteration must be a fresh edge-less state")
                for k in sid:
                    v = env[k]
                    if v == ("id", "index", 0):
                        env[k] = ("id", "const", 0)          # never reassigned: stays NFAStateId(0)
                    elif v == ("id", "index", 1):
                        env[k] = ("id", "loopvar")           # == NFAStateId(#iterations) after the loop
                    else:
                        err("%s after an iteration is %s" % (k, v))
                for k in list(env):
                    if k not in pre:
                        del env[k]
                continue
            if e["k"] == "assign" and _is_path(e["l"]) and e["l"]["p"] in env:
                old = env[e["l"]["p"]]
                if old[0] == "id":
                    env[e["l"]["p"]] = idval(e["r"], idx)
                elif old[0] == "state":
                    env[e["l"]["p"]] = stateval(e["r"], idx)
                else:
                    err("assignment %s" % expr_text(e))
                continue
            if e["k"] == "mcall" and e["m"] == "insert":
                r = _unref(e["recv"])
                if r["k"] == "field" and r["name"] == "edges" and _is_path(r["e"]) and env.get(r["e"]["p"], ("?",))[0] == "state":
                    a0 = _unref(e["args"][0])
                    while a0["k"] == "un" and a0["op"] == "*":
                        a0 = a0["e"]
                    if idx is None or not _is_path(a0, sym):
                        err("byte edge outside the loop / not on the loop symbol")
                    env[r["e"]["p"]][1].append(("sym", idval(e["args"][1], idx)))
                    continue
                if _is_path(r) and env.get(r["p"]) == ("map",):
                    key = idval(e["args"][0], idx)
                    a1 = _unref(e["args"][1])
                    stv = stateval(a1, idx)
                    if _is_path(a1):
                        env[a1["p"]] = ("moved",)
                    inserted.append((key, stv))
                    continue
            err("statement %s" % expr_text(e))

    body = item["body"]["stmts"]
    if not body or body[-1]["k"] != "expr" or body[-1]["semi"]:
        err("no result expression")
    run(body[:-1], None, None)
    if not loop_seen:
        err("no loop over string.bytes().enumerate()")
    res = body[-1]["e"]
    if res["k"] != "struct" or res["path"] not in ("Self", "NFA"):
        err("result expression")
    f = {x["name"]: x["e"] for x in res["fields"]}
    if set(f) != {"start", "stop", "states"}:
        err("result fields")
    if idval(f["start"]) != ("id", "const", 0):
        err("start is not NFAStateId(0)")
    if idval(f["stop"]) != ("id", "loopvar"):
        err("stop is not the id reached after the last byte")
    if not (_is_path(f["states"]) and env.get(f["states"]["p"]) == ("map",)):
        err("result states")
    tail = [x for x in inserted if x[0] == ("id", "loopvar")]
    if len(tail) != 1 or tail[0][1][1]:
        err("the last (stop) state must be inserted once, without edges, after the loop")
    return Template(name, "leaf", 0, ("chain",), (), "C0", "Cn", None, (("Ci", "Ci+1"),))


def _lin(atoms=None, c=0):
    """linear integer term  sum(coef * atom) + c  (hashable, canonical)"""
    return ("lin", tuple(sorted((a, k) for a, k in (atoms or {}).items() if k != 0)), c)


def _lin_add(x, y, sign=1):
    d = dict(x[1])
    for a, k in y[1]:
        d[a] = d.get(a, 0) + sign * k
    return _lin(d, x[2] + sign * y[2])


def _raw(a):
    return _lin({"raw:" + a: 1})


def _shift_of(a):
    """the id `a` moved by the offset the current operand started with: NFAStateId(offset + a.0)"""
    return ("mkid", _lin({"O": 1, "raw:" + a: 1}))


_MERGE_FACTS = (
    "one loop over the operands",
    "the loop iterates the `nfas` argument in order",
    "operands are destructured into start/stop/states",
    "result is (states_out, ends_out)",
    "ends_out receives (offset+start, offset+stop) of every operand, in order",
    "inner loop over the operand's states",
    "inner loop pattern (id, state)",
    "max_id starts at 0 for every operand (before its states are visited)",
    "max_id = max(max_id, id.0) over the operand's original ids",
    "state ids are shifted by the offset",
    "edge targets are shifted by the offset",
    "ε targets are shifted by the offset",
    "shifted states (edges, epsilons, tag) are inserted into states_out under the shifted id",
    "offset advances by max_id + 1 after each operand (strictly increasing, disjoint id ranges)",
)
_EMPTY_CTORS = ("BTreeMap::new", "BTreeSet::new", "Vec::new", "Default::default", "BTreeMap::default", "BTreeSet::default", "Vec::default",
                "Vec::with_capacity")
_STATE0 = ("state", ("oedges",), ("oeps",), ("otag",))
_OPERAND = ("nfa", ("id", "start"), ("id", "stop"), ("ostates",))


class _MergeEval:
    """Symbolic evaluation of NFA::merge_states: one generic iteration of the operand loop and one generic iteration of the loop over the
       operand's states.  Environment name -> term; the facts are decided on the terms that reach `ends_out.push`, `states_out.insert`,
       the loop-carried maximum and the offset, whatever locals / helpers / closures / operand orders they went through.
       Terms: lin (integers over the atoms O = offset at the start of the operand, raw:<id> = <id>.0 of an original id, carried:<v> / post:<v>
       = loop-carried local before an iteration / after the loop, MAXALL = largest original id of the operand or 0) · ("id", a) original id
       (a in start, stop, id, elem) · ("mkid", lin) = NFAStateId(lin) · ("max"|"min", {lin, lin}) · ("cmp", op, l, r) · ("tuple", ..) ·
       ("nfa", start, stop, states) · ("state", edges, epsilons, tag) · ("ostates",) ("oedges",) ("oeps",) ("otag",) the operand's originals ·
       ("sedges",) ("seps",) edge map / ε set with every target shifted · ("iter", kind, elem) · ("coll", uid) a collection created empty ·
       ("closure", node, env id) · ("opaque", text)."""

    def __init__(self, item, local=None):
        self.item = item
        self.local = local or _LocalDefs()
        self.problems = []
        self.env = {}
        self.mut = set()
        self.level = "pre"
        self.pure = 0
        self.cond = 0
        self.colls = {}            # uid -> {"level", "name"}
        self.pushes = []
        self.inserts = []
        self.edge_inserts = []
        self.carried = {}
        self.outer_locals = set()
        self.outer_count = 0
        self.outer_iter_ok = False
        self.outer_bind_ok = False
        self.inner_count = 0
        self.inner_bind_ok = True
        self.other_loops = 0
        self.off_after = None
        self.self_ty = ["NFA"]
        self.call_stack = []
        self.local_consts = {}
        self.closure_envs = []
        self.off = None

    def problem(self, what):
        if what not in self.problems:
            self.problems.append(what)

    # ---------------------------------------------------------------- terms
    def opaque(self, e, note=True):
        names = set()

        def visit(n):
            if n.get("k") == "path":
                names.add(n["p"])
        ordered_walk(e, visit)
        for n in sorted(names):
            t = self.env.get(n)
            if t is None:
                continue
            if n in self.mut or (t[0] == "coll" and self.colls[t[1]]["level"] == "pre"):
                if note:
                    self.problem("construct not understood: %s" % expr_text(e))
                break
        return ("opaque", expr_text(e))

    def new_coll(self):
        uid = len(self.colls)
        self.colls[uid] = {"level": self.level, "pure": self.pure > 0}
        return ("coll", uid)

    @staticmethod
    def mk_max(kind, a, b):
        if a == b:
            return a
        return (kind, frozenset((a, b)))

    def ite(self, c, a, b):
        if a == b:
            return a
        neg = False
        while c[0] == "not":
            neg = not neg
            c = c[1]
        if neg:
            a, b = b, a
        if c[0] == "cmp" and a[0] == "lin" and b[0] == "lin" and c[1] in (">", ">=", "<", "<=") and {a, b} == {c[2], c[3]}:
            l = c[2]
            if c[1] in (">", ">="):
                return self.mk_max("max" if a == l else "min", a, b)
            return self.mk_max("min" if a == l else "max", a, b)
        return ("opaque", "conditional value")

    def to_iter(self, t):
        if t[0] == "iter":
            return t
        if t == ("nfas",):
            return ("iter", "nfas", _OPERAND)
        if t == ("ostates",):
            return ("iter", "ostates", ("tuple", ("id", "id"), _STATE0))
        if t == ("oedges",):
            return ("iter", "edges", ("tuple", ("sym",), ("id", "elem")))
        if t == ("oeps",):
            return ("iter", "eps", ("id", "elem"))
        if t == ("sedges",):
            return ("iter", "edges", ("tuple", ("sym",), _shift_of("elem")))
        if t == ("seps",):
            return ("iter", "eps", _shift_of("elem"))
        return None

    @staticmethod
    def classify(kind, elem):
        """collection obtained by collecting an iterator over the edges / ε targets of the current state whose element is `elem`"""
        if kind == "edges":
            if elem[0] != "tuple" or len(elem) != 3 or elem[1] != ("sym",):
                return None
            x, names = elem[2], ("oedges", "sedges")
        elif kind == "eps":
            x, names = elem, ("oeps", "seps")
        else:
            return None
        if x == ("id", "elem"):
            return (names[0],)
        if x == _shift_of("elem"):
            return (names[1],)
        return None

    def value_type(self, t):
        if t[0] in ("id", "mkid"):
            return "NFAStateId"
        if t[0] == "state":
            return "NFAState"
        if t[0] == "nfa":
            return "NFA"
        return None

    # ---------------------------------------------------------------- patterns
    def bind(self, pat, t):
        k = pat["k"]
        if k == "wild":
            return True
        if k == "ident" and not pat.get("sub"):
            if pat["name"] == self.off and not self.call_stack:
                self.problem("construct not understood: the offset parameter is shadowed")
            self.env[pat["name"]] = t
            self.mut.discard(pat["name"])
            if pat.get("mut"):
                self.mut.add(pat["name"])
            if self.level == "outer" and not self.call_stack and not self.pure:
                self.outer_locals.add(pat["name"])
            else:
                self.outer_locals.discard(pat["name"])
            return True
        if k == "ref":
            return self.bind(pat["pat"], t)
        if k == "tuple" and t[0] == "tuple" and len(t) - 1 == len(pat["elems"]):
            return all([self.bind(p, x) for p, x in zip(pat["elems"], t[1:])])
        if k == "struct":
            ty = self.self_ty[-1] if pat["path"] == "Self" else base_name(pat["path"])
            fields = None
            if ty == "NFA" and t[0] == "nfa":
                fields = {"start": t[1], "stop": t[2], "states": t[3]}
            elif ty == "NFAState" and t[0] == "state":
                fields = {"edges": t[1], "epsilons": t[2], "tag": t[3]}
            if fields is not None and all(f["name"] in fields for f in pat["fields"]):
                return all([self.bind(f["pat"], fields[f["name"]]) for f in pat["fields"]])
        if k == "tstruct" and base_name(pat["path"]) == "NFAStateId" and len(pat["elems"]) == 1 and t[0] in ("id", "mkid"):
            return self.bind(pat["elems"][0], _raw(t[1]) if t[0] == "id" else t[1])
        # not understood: every name of the pattern becomes opaque
        def visit(n):
            if n.get("k") == "ident" and "name" in n:
                self.env[n["name"]] = ("opaque", "pattern %s" % pat_text(pat))
        ordered_walk(pat, visit)
        return False

    # ---------------------------------------------------------------- expressions
    def ev(self, e):
        if e is None:
            return ("unit",)
        if e.get("k") == "ref":
            inner = _unref(e)
            if e.get("mut") and _is_path(inner) and inner["p"] in self.env and self.env[inner["p"]][0] != "coll" and \
                    (inner["p"] in self.mut):
                self.problem("construct not understood: &mut %s" % inner["p"])
            return self.ev(inner)
        k = e["k"]
        if k == "lit":
            if e.get("t") == "int":
                return _lin(c=int(e["v"]))
            return ("opaque", expr_text(e))
        if k == "path":
            p = e["p"]
            if p in self.env:
                return self.env[p]
            return self.const_term(e)
        if k == "un":
            if e["op"] == "*":
                return self.ev(e["e"])
            if e["op"] == "!":
                return ("not", self.ev(e["e"]))
            return self.opaque(e)
        if k == "cast" and e.get("ty") in ("usize", "u64", "u128"):
            return self.ev(e["e"])
        if k == "field":
            return self.field(self.ev(e["e"]), e["name"], e)
        if k == "tuple":
            if not e["elems"]:
                return ("unit",)
            return ("tuple",) + tuple(self.ev(x) for x in e["elems"])
        if k == "bin":
            return self.binop(e)
        if k == "assign":
            return self.assign(e["l"], self.ev(e["r"]), e)
        if k == "call":
            return self.call(e)
        if k == "mcall":
            return self.mcall(e)
        if k == "struct":
            return self.struct(e)
        if k == "closure":
            self.closure_envs.append(dict(self.env))
            return ("closure", id(e), len(self.closure_envs) - 1, e)
        if k == "block" and not e.get("label"):
            return self.scoped(e["stmts"])
        if k == "if":
            return self.if_(e)
        if k == "match":
            return self.match(e)
        if k == "for":
            if e.get("label"):
                self.problem("construct not understood: labelled loop")
            self.loop(self.ev(e["iter"]), e["pat"], e["body"], e)
            return ("unit",)
        if k == "macro":
            if e.get("short") in ("debug_assert", "debug_assert_eq", "debug_assert_ne"):
                return ("unit",)
            if e.get("short") == "vec" and e.get("args") == [] and not (e.get("extra") or {}).get("repeat"):
                return self.new_coll()
            return self.opaque(e)
        if k in ("continue", "break", "return"):
            self.problem("early exit from the operand loop")
            return ("unit",)
        return self.opaque(e)

    def const_term(self, e):
        p = e["p"]
        ty, nm = _split_callee(p, self.self_ty[-1])
        node = None
        if ty is None and nm in self.local_consts:
            node = self.local_consts[nm]
        else:
            c = self.local.const(ty, nm)
            if c is not None:
                node = c["expr"]
        if node is None or len(self.call_stack) >= 6:
            if p == "None":
                return ("none",)
            return ("opaque", p)
        saved, self.env = self.env, {}
        self.call_stack.append(("const", p))
        self.self_ty.append(ty or self.self_ty[-1])
        try:
            return self.ev(node)
        finally:
            self.self_ty.pop()
            self.call_stack.pop()
            self.env = saved

    def field(self, b, nm, e):
        if b[0] == "nfa" and nm in ("start", "stop", "states"):
            return b[1 + ("start", "stop", "states").index(nm)]
        if b[0] == "state" and nm in ("edges", "epsilons", "tag"):
            return b[1 + ("edges", "epsilons", "tag").index(nm)]
        if nm == "0" and b[0] == "id":
            return _raw(b[1])
        if nm == "0" and b[0] == "mkid":
            return b[1]
        if b[0] == "tuple" and nm.isdigit() and int(nm) < len(b) - 1:
            return b[1 + int(nm)]
        return self.opaque(e)

    def binop(self, e):
        op = e["op"]
        if op in ("+=", "-="):
            l = self.ev(e["l"])
            r = self.ev(e["r"])
            t = _lin_add(l, r, 1 if op == "+=" else -1) if l[0] == "lin" and r[0] == "lin" else ("opaque", expr_text(e))
            return self.assign(e["l"], t, e)
        l, r = self.ev(e["l"]), self.ev(e["r"])
        if op in ("+", "-"):
            if l[0] == "lin" and r[0] == "lin":
                return _lin_add(l, r, 1 if op == "+" else -1)
            return ("opaque", expr_text(e))
        if op in ("<", "<=", ">", ">=", "==", "!="):
            return ("cmp", op, l, r)
        return self.opaque(e)

    def assign(self, lhs, t, e):
        lhs0 = lhs
        while lhs0.get("k") == "un" and lhs0["op"] == "*":
            lhs0 = lhs0["e"]
        if _is_path(lhs0) and lhs0["p"] in self.env and lhs0 is lhs:
            n = lhs["p"]
            if self.pure:
                self.problem("construct not understood: assignment to %s inside a closure" % n)
            self.env[n] = t
            return ("unit",)
        if lhs.get("k") == "field" and _is_path(lhs["e"]) and self.env.get(lhs["e"]["p"], ("?",))[0] == "state" and \
                lhs["name"] in ("edges", "epsilons", "tag") and not self.pure:
            st = list(self.env[lhs["e"]["p"]])
            st[1 + ("edges", "epsilons", "tag").index(lhs["name"])] = t
            self.env[lhs["e"]["p"]] = tuple(st)
            return ("unit",)
        self.opaque(e)
        self.problem("construct not understood: assignment %s" % expr_text(e))
        return ("unit",)

    def mkid(self, x):
        if x[0] != "lin":
            return ("opaque", "NFAStateId(%s)" % (x,))
        if x[2] == 0 and len(x[1]) == 1 and x[1][0][1] == 1 and x[1][0][0].startswith("raw:"):
            return ("id", x[1][0][0][4:])
        return ("mkid", x)

    def call(self, e):
        f = e["f"]
        args = e["args"]
        if not _is_path(f):
            return self.opaque(e)
        p = f["p"]
        if p in self.env:
            t = self.env[p]
            if t[0] == "closure":
                return self.apply(t, [self.ev(a) for a in args], e)
            return self.opaque(e)
        ty, last = _split_callee(p, self.self_ty[-1])
        if (p == "NFAStateId" or (p == "Self" and self.self_ty[-1] == "NFAStateId")) and len(args) == 1:
            return self.mkid(self.ev(args[0]))
        item = self.local.fn(ty, last)
        if item is not None:
            return self.call_fn(item, ty, None, args, e)
        if last in ("max", "min") and len(args) == 2 and ty in (None, "cmp", "usize", "Ord"):
            a, b = self.ev(args[0]), self.ev(args[1])
            if a[0] == "lin" and b[0] == "lin":
                return self.mk_max(last, a, b)
            return ("opaque", expr_text(e))
        if p in _EMPTY_CTORS and (not args or p == "Vec::with_capacity"):
            return self.new_coll()
        if p == "Some" and len(args) == 1:
            return ("some", self.ev(args[0]))
        return self.opaque(e)

    def call_fn(self, item, ty, recv, arg_nodes, e):
        name = item["name"]
        key = (ty, name)
        inputs = item["sig"]["inputs"]
        has_self = bool(inputs) and inputs[0]["name"] == "self"
        params = inputs[1:] if has_self else inputs
        arg_nodes = list(arg_nodes)
        if key in self.call_stack or len(self.call_stack) >= 6 or (ty == "NFA" and (name in COMBINATORS or name == "merge_states")):
            return self.opaque(e)
        vals = [self.ev(a) for a in arg_nodes]
        if has_self and recv is None:
            if len(vals) != len(params) + 1:
                return self.opaque(e)
            recv = vals.pop(0)
        elif recv is not None and not has_self:
            return self.opaque(e)
        if len(params) != len(vals):
            return self.opaque(e)
        saved_env, saved_consts, saved_mut = self.env, self.local_consts, self.mut
        self.env, self.local_consts, self.mut = {}, {}, set()
        if has_self:
            self.env["self"] = recv
        self.call_stack.append(key)
        self.self_ty.append(ty or self.self_ty[-1])
        try:
            for p, v in zip(params, vals):
                self.bind(p["pat"], v)
            return self.block(item["body"]["stmts"])
        finally:
            self.self_ty.pop()
            self.call_stack.pop()
            self.env, self.local_consts, self.mut = saved_env, saved_consts, saved_mut

    def apply(self, f, vals, e=None):
        """call of a closure value (evaluated over the environment it was created in) or of a path naming a local fn"""
        if f[0] != "closure":
            return ("opaque", "call of %s" % (f[0],))
        node = f[3]
        if len(node["params"]) != len(vals) or len(self.call_stack) >= 6:
            return ("opaque", "closure call")
        saved_env, saved_mut = self.env, self.mut
        self.env, self.mut = dict(self.closure_envs[f[2]]), set(self.mut)
        self.pure += 1
        self.call_stack.append(("closure", f[1]))
        try:
            for p, v in zip(node["params"], vals):
                self.bind(p, v)
            b = node["body"]
            return self.block(b["stmts"]) if b["k"] == "block" else self.ev(b)
        finally:
            self.call_stack.pop()
            self.pure -= 1
            self.env, self.mut = saved_env, saved_mut

    def fn_value(self, a):
        """argument of map(..): a closure, a local closure variable or a path of a local fn -> callable(elem) -> term"""
        a0 = _unref(a)
        if a0.get("k") == "closure":
            f = self.ev(a0)
            return lambda x: self.apply(f, [x])
        if _is_path(a0):
            if a0["p"] in self.env and self.env[a0["p"]][0] == "closure":
                f = self.env[a0["p"]]
                return lambda x: self.apply(f, [x])
            ty, last = _split_callee(a0["p"], self.self_ty[-1])
            item = self.local.fn(ty, last)
            if item is not None:
                return lambda x: self.call_fn_terms(item, ty, [x], a0)
        return None

    def call_fn_terms(self, item, ty, terms, e):
        # call a local fn with already evaluated arguments: wrap them in synthetic names
        saved = self.env
        self.env = dict(saved)
        nodes = []
        for i, t in enumerate(terms):
            nm = "\x00arg%d" % i
            self.env[nm] = t
            nodes.append({"k": "path", "p": nm})
        try:
            return self.call_fn(item, ty, None, nodes, e)
        finally:
            self.env = saved

    def mcall(self, e):
        m, args = e["m"], e["args"]
        rt = self.ev(e["recv"])
        if rt[0] == "coll":
            info = self.colls[rt[1]]
            if m == "push" and len(args) == 1:
                self.pushes.append({"uid": rt[1], "level": self.level, "cond": self.cond > 0 or self.pure > 0, "t": self.ev(args[0])})
                return ("unit",)
            if m == "insert" and len(args) in (1, 2):
                ts = [self.ev(a) for a in args]
                if info["level"] == "pre":
                    if len(ts) != 2:
                        return self.opaque(e)
                    self.inserts.append({"uid": rt[1], "level": self.level, "cond": self.cond > 0 or self.pure > 0, "k": ts[0], "v": ts[1]})
                else:
                    self.edge_inserts.append({"uid": rt[1], "level": self.level, "cond": self.cond > 0 or self.pure > 0, "args": ts})
                return ("unit",)
            if m == "extend" and len(args) == 1 and info["level"] == "pre":
                it = self.ev(args[0])
                it = self.to_iter(it) or it
                if it[0] == "iter" and it[1] == "ostates" and it[2][0] == "tuple" and len(it[2]) == 3 and self.level == "outer":
                    self.inner_count += 1
                    self.inserts.append({"uid": rt[1], "level": "inner", "cond": self.cond > 0 or self.pure > 0, "k": it[2][1], "v": it[2][2]})
                    return ("unit",)
                return self.opaque(e)
            if m in ("reserve",) and len(args) == 1:
                return ("unit",)
            return self.opaque(e)
        if m in ("max", "min") and len(args) == 1 and rt[0] == "lin":
            b = self.ev(args[0])
            if b[0] == "lin":
                return self.mk_max(m, rt, b)
            return ("opaque", expr_text(e))
        if m in ("clone", "to_owned", "copied", "cloned", "into") and not args:
            return rt
        if m in ("into_iter", "iter") and not args:
            return self.to_iter(rt) or self.opaque(e)
        if m in ("keys", "into_keys") and not args and rt == ("ostates",):
            return ("iter", "keys", ("id", "id"))
        if m == "last_key_value" and not args and rt == ("ostates",):
            return ("optmax", ("tuple", ("id", "id"), _STATE0))
        if rt[0] == "iter":
            if m == "map" and len(args) == 1:
                f = self.fn_value(args[0])
                if f is None:
                    return self.opaque(e)
                return ("iter", rt[1], f(rt[2]))
            if m == "collect" and not args:
                return self.classify(rt[1], rt[2]) or ("opaque", expr_text(e))
            if m == "for_each" and len(args) == 1 and _closure_of(args[0]) is not None and len(_closure_of(args[0])["params"]) == 1:
                c = _closure_of(args[0])
                self.loop(rt, c["params"][0], c["body"], e)
                return ("unit",)
            if rt[1] == "keys" and not args and (m == "max" or (m in ("last", "next_back") and rt[2] == ("id", "id"))) and \
                    rt[2] in (("id", "id"), _raw("id")):
                return ("optmax", rt[2])
            return self.opaque(e)
        if rt[0] == "optmax":
            if m == "map" and len(args) == 1:
                f = self.fn_value(args[0])
                return ("optmax", f(rt[1])) if f is not None else self.opaque(e)
            if m == "unwrap_or" and len(args) == 1 and self.ev(args[0]) == _lin(c=0) and rt[1] == _raw("id"):
                return _lin({"MAXALL": 1})
            if m == "unwrap_or_default" and not args and rt[1] == _raw("id"):
                return _lin({"MAXALL": 1})
            if m == "map_or" and len(args) == 2 and self.ev(args[0]) == _lin(c=0):
                f = self.fn_value(args[1])
                if f is not None and f(rt[1]) == _raw("id"):
                    return _lin({"MAXALL": 1})
            return self.opaque(e)
        ty = self.value_type(rt)
        if ty is not None:
            item = self.local.fn(ty, m)
            if item is not None and item["sig"]["inputs"] and item["sig"]["inputs"][0]["name"] == "self":
                return self.call_fn(item, ty, rt, args, e)
        for a in args:
            self.ev(a)
        return self.opaque(e)

    def struct(self, e):
        ty = self.self_ty[-1] if e["path"] == "Self" else base_name(e["path"])
        if ty != "NFAState":
            return self.opaque(e)
        f = {x["name"]: self.ev(x["e"]) for x in e["fields"]}
        base = self.ev(e["rest"]) if e.get("rest") else None
        out = []
        for i, nm in enumerate(("edges", "epsilons", "tag")):
            if nm in f:
                out.append(f[nm])
            elif base is not None and base[0] == "state":
                out.append(base[1 + i])
            else:
                out.append(("opaque", "missing field %s" % nm))
        if set(f) - {"edges", "epsilons", "tag"}:
            return ("opaque", expr_text(e))
        return ("state",) + tuple(out)

    def if_(self, e):
        if e["cond"].get("k") == "letcond":
            self.opaque(e["cond"])
            c = ("opaque", "if let")
        else:
            c = self.ev(e["cond"])
        base = dict(self.env)
        self.cond += 1
        try:
            vt = self.scoped(e["then"]["stmts"])
            env_t = self.env
            self.env = dict(base)
            if e.get("else") is not None:
                ve = self.scoped(e["else"]["stmts"]) if e["else"]["k"] == "block" else self.ev(e["else"])
            else:
                ve = ("unit",)
            env_e = self.env
        finally:
            self.cond -= 1
        merged = {}
        for n in base:
            a, b = env_t.get(n, base[n]), env_e.get(n, base[n])
            merged[n] = self.ite(c, a, b)
        self.env = merged
        if e.get("else") is None:
            return ("unit",)
        return self.ite(c, vt, ve)

    def match(self, e):
        # match <bool> { true => a, false => b }  /  match a.cmp(&b) { Ordering::Greater => .., _ => .. } are folded to conditionals
        sc = e["e"]
        arms = e["arms"]
        if len(arms) == 2 and all(a.get("guard") is None for a in arms):
            def litbool(p):
                return p["e"]["v"] if p["k"] == "lit" and p["e"].get("t") == "bool" else None
            b0, b1 = litbool(arms[0]["pat"]), litbool(arms[1]["pat"])
            wild1 = arms[1]["pat"]["k"] == "wild"
            if b0 is not None and (b1 == (not b0) or wild1):
                th, el = (arms[0], arms[1]) if b0 else (arms[1], arms[0])
                return self.if_({"k": "if", "cond": sc, "then": self.as_block(th["body"]), "else": self.as_block(el["body"])})
            if sc.get("k") == "mcall" and sc["m"] == "cmp" and len(sc["args"]) == 1 and arms[0]["pat"]["k"] in ("path", "ident") and wild1:
                which = (arms[0]["pat"].get("p") or arms[0]["pat"].get("name", "")).split("::")[-1]
                op = {"Greater": ">", "Less": "<"}.get(which)
                if op:
                    cond = {"k": "bin", "op": op, "l": sc["recv"], "r": _unref(sc["args"][0])}
                    return self.if_({"k": "if", "cond": cond, "then": self.as_block(arms[0]["body"]), "else": self.as_block(arms[1]["body"])})
        self.problem("construct not understood: match %s" % expr_text(sc))
        return self.opaque(e)

    @staticmethod
    def as_block(b):
        if b["k"] == "block":
            return b
        return {"k": "block", "stmts": [{"k": "expr", "e": b, "semi": False}]}

    # ---------------------------------------------------------------- statements
    def block(self, stmts, top=False):
        res = ("unit",)
        for i, st in enumerate(stmts):
            last = i == len(stmts) - 1
            res = ("unit",)
            if st["k"] == "let":
                if st.get("else") is not None:
                    self.problem("construct not understood: let-else %s" % pat_text(st["pat"]))
                t = self.ev(st["init"]) if st.get("init") is not None else ("opaque", "uninitialised")
                if not self.bind(st["pat"], t) and st["pat"]["k"] != "ident":
                    self.problem("construct not understood: pattern %s" % pat_text(st["pat"]))
            elif st["k"] == "item":
                it = st["item"]
                if it.get("k") == "const":
                    self.local_consts[it["name"]] = it["expr"]
                elif it.get("k") != "use":
                    self.problem("construct not understood: nested item")
            elif st["k"] == "expr":
                e = st["e"]
                if last and top and e["k"] == "return" and e.get("e") is not None:
                    res = self.ev(e["e"])
                else:
                    v = self.ev(e)
                    if last and not st["semi"]:
                        res = v
            else:
                self.problem("construct not understood: statement kind %s" % st["k"])
        return res

    def scoped(self, stmts):
        """a nested block: names introduced inside do not escape, assignments to outer names do"""
        before = dict(self.env)
        saved_consts = dict(self.local_consts)
        saved_mut = set(self.mut)
        # shadowing inside the block must not leak: evaluate on a copy and copy back only names that existed before and were *assigned*
        assigned = set()

        def visit(n):
            if n.get("k") == "assign" or (n.get("k") == "bin" and n.get("op") in ("+=", "-=")):
                l = n["l"]
                while l.get("k") == "un":
                    l = l["e"]
                if l.get("k") == "field":
                    l = l["e"]
                if _is_path(l):
                    assigned.add(l["p"])
        ordered_walk(stmts, visit)
        shadowed = set()
        for st in stmts:
            if st["k"] == "let":
                def pv(n):
                    if n.get("k") == "ident" and "name" in n:
                        shadowed.add(n["name"])
                ordered_walk(st["pat"], pv)
        res = self.block(stmts)
        after = self.env
        out = dict(before)
        for n in assigned:
            if n in before and n in after:
                if n in shadowed:
                    self.problem("construct not understood: %s is both shadowed and assigned in a nested block" % n)
                else:
                    out[n] = after[n]
        # collections filled by an edge loop are rewritten in place by edge_loop(); keep those updates
        for n, t in after.items():
            if n in before and n not in shadowed and before[n][0] == "coll" and t[0] != "coll":
                out[n] = t
        self.env, self.local_consts, self.mut = out, saved_consts, saved_mut
        return res

    # ---------------------------------------------------------------- loops
    def loop(self, it, pat, body, node):
        it = self.to_iter(it) or it
        stmts = body["stmts"] if body["k"] == "block" else [{"k": "expr", "e": body, "semi": True}]
        if it[0] != "iter" or self.pure or self.cond:
            self.other_loops += 1
            self.problem("construct not understood: loop over %s" % expr_text(node.get("iter") or node.get("recv") or node))
            return
        kind = it[1]
        if kind == "nfas" and self.level == "pre":
            return self.outer_loop(it, pat, stmts)
        if kind in ("ostates", "keys") and self.level == "outer":
            return self.inner_loop(it, pat, stmts)
        if kind in ("edges", "eps") and self.level == "inner":
            return self.edge_loop(it, pat, stmts)
        self.other_loops += 1
        self.problem("construct not understood: loop over %s at level %s" % (kind, self.level))

    def assigned_in(self, stmts):
        names = set()

        def visit(n):
            if n.get("k") == "assign" or (n.get("k") == "bin" and n.get("op") in ("+=", "-=", "*=", "|=", "&=", "^=", "/=", "%=", "<<=", ">>=")):
                l = n["l"]
                while l.get("k") in ("un", "field", "index"):
                    l = l["e"]
                if _is_path(l):
                    names.add(l["p"])
        ordered_walk(stmts, visit)
        return names

    def outer_loop(self, it, pat, stmts):
        self.outer_count += 1
        if self.outer_count > 1:
            return
        self.outer_iter_ok = it[2] == _OPERAND
        if self.env.get(self.off) != _lin({"P": 1}):
            self.problem("offset is modified before the loop over the operands")
        saved = dict(self.env)
        saved_mut = set(self.mut)
        self.env[self.off] = _lin({"O": 1})
        self.level = "outer"
        self.outer_bind_ok = self.bind(pat, it[2]) and pat["k"] in ("struct", "ident")
        self.block(stmts)
        self.level = "pre"
        self.off_after = self.env.get(self.off)
        for n in saved:
            if n != self.off and n in self.assigned_in(stmts) and n not in self.outer_locals:
                self.problem("construct not understood: %s is carried from one operand to the next" % n)
        self.env, self.mut = saved, saved_mut

    def inner_loop(self, it, pat, stmts):
        self.inner_count += 1
        carried = sorted(n for n in self.assigned_in(stmts) if n in self.env)
        saved = dict(self.env)
        saved_mut = set(self.mut)
        inits = {}
        for n in carried:
            inits[n] = self.env[n]
            self.env[n] = _lin({"carried:" + n: 1})
        self.level = "inner"
        ok = self.bind(pat, it[2])
        if it[1] == "ostates":
            self.inner_bind_ok = self.inner_bind_ok and ok and pat["k"] == "tuple" and len(pat["elems"]) == 2
        elif not ok:
            self.problem("construct not understood: pattern %s" % pat_text(pat))
        self.block(stmts)
        self.level = "outer"
        for n in carried:
            c = _lin({"carried:" + n: 1})
            t1 = self.env.get(n)
            if n == self.off:
                self.problem("the offset is modified inside the loop over the operand's states")
                saved[n] = ("opaque", "offset modified in the inner loop")
                continue
            if t1 == c:
                continue
            self.carried[n] = {"init_ok": inits[n] == _lin(c=0) and n in self.outer_locals,
                               "upd_ok": t1 == ("max", frozenset((c, _raw("id"))))}
            saved[n] = _lin({"post:" + n: 1})
        self.env, self.mut = saved, saved_mut

    def edge_loop(self, it, pat, stmts):
        kind = it[1]
        for n in self.assigned_in(stmts):
            if n in self.env:
                self.problem("construct not understood: %s is modified in a loop over the %s of a state" % (n, kind))
        saved = dict(self.env)
        saved_mut = set(self.mut)
        n0 = len(self.edge_inserts)
        self.level = "edge"
        if not self.bind(pat, it[2]):
            self.problem("construct not understood: pattern %s" % pat_text(pat))
        self.block(stmts)
        self.level = "inner"
        new = self.edge_inserts[n0:]
        del self.edge_inserts[n0:]
        self.env, self.mut = saved, saved_mut
        if len(new) != 1 or new[0]["cond"] or new[0]["level"] != "edge":
            self.problem("construct not understood: a loop over the %s of a state must insert exactly one element per iteration" % kind)
            return
        uid = new[0]["uid"]
        info = self.colls[uid]
        elem = ("tuple",) + tuple(new[0]["args"]) if kind == "edges" else (new[0]["args"][0] if len(new[0]["args"]) == 1 else ("opaque", "args"))
        content = self.classify(kind, elem) if info["level"] == "inner" and not info.get("filled") else None
        info["filled"] = True
        for n, t in list(self.env.items()):
            if t == ("coll", uid):
                self.env[n] = content or ("opaque", "collection filled by a loop over %s" % kind)

    # ---------------------------------------------------------------- the facts
    def run(self):
        facts = {}
        inputs = self.item["sig"]["inputs"]
        if len(inputs) != 2 or inputs[0].get("pat", {}).get("k") != "ident" or inputs[1].get("pat", {}).get("k") != "ident":
            return facts, ["signature (nfas, mut offset)"]
        self.off = inputs[1]["pat"]["name"]
        self.env[inputs[0]["pat"]["name"]] = ("nfas",)
        self.env[self.off] = _lin({"P": 1})
        self.mut.add(self.off)
        res = self.block(self.item["body"]["stmts"], top=True)

        def need(cond, what):
            facts[what] = bool(cond)
            if not cond:
                self.problems.append(what)
            return cond
        F = _MERGE_FACTS
        if not need(self.outer_count == 1, F[0]):
            return facts, self.problems
        need(self.outer_iter_ok, F[1])
        if not need(self.outer_bind_ok, F[2]):
            return facts, self.problems
        ok = res[0] == "tuple" and len(res) == 3 and all(x[0] == "coll" and self.colls[x[1]]["level"] == "pre" and not self.colls[x[1]]["pure"]
                                                          for x in res[1:]) and res[1] != res[2]
        if not need(ok, F[3]):
            return facts, self.problems
        a, b = res[1][1], res[2][1]
        for ev in self.pushes + self.inserts:
            if ev["uid"] not in (a, b) and self.colls[ev["uid"]]["level"] == "pre":
                self.problem("construct not understood: another collection is filled next to states_out / ends_out")
        pushes = [p for p in self.pushes if p["uid"] == b]
        if [p for p in self.pushes if p["uid"] == a] or [p for p in self.inserts if p["uid"] == b]:
            self.problem("construct not understood: states_out / ends_out are filled the other way round")
        need(len(pushes) == 1 and pushes[0]["level"] == "outer" and not pushes[0]["cond"] and
             pushes[0]["t"] == ("tuple", _shift_of("start"), _shift_of("stop")), F[4])
        if not need(self.inner_count >= 1 and self.other_loops == 0, F[5]):
            return facts, self.problems
        if not need(self.inner_bind_ok, F[6]):
            return facts, self.problems
        # the offset after the operand: O + <max of the original ids> + k, k >= 1
        feeder = None
        adv = False
        t = self.off_after
        if t is not None and t[0] == "lin":
            atoms = dict(t[1])
            if atoms.pop("O", 0) == 1 and len(atoms) == 1 and list(atoms.values()) == [1] and t[2] >= 1:
                feeder = list(atoms)[0]
                adv = feeder == "MAXALL" or (feeder.startswith("post:") and feeder[5:] in self.carried)
        if adv and feeder == "MAXALL":
            init_ok = upd_ok = True
        else:
            if adv:
                c = self.carried[feeder[5:]]
            elif len(self.carried) == 1:
                c = list(self.carried.values())[0]
            else:
                c = {"init_ok": False, "upd_ok": False}
            init_ok, upd_ok = c["init_ok"], c["upd_ok"]
        need(init_ok, F[7])
        need(upd_ok, F[8])
        ins = [x for x in self.inserts if x["uid"] == a]
        one = len(ins) == 1 and ins[0]["level"] == "inner" and not ins[0]["cond"]
        k = ins[0]["k"] if one else ("none",)
        v = ins[0]["v"] if one and ins[0]["v"][0] == "state" else ("state", None, None, None)
        ids = need(one and k == _shift_of("id"), F[9])
        edges = need(one and v[1] == ("sedges",), F[10])
        eps = need(one and v[2] == ("seps",), F[11])
        need(one and ids and edges and eps and v[3] == ("otag",), F[12])
        need(adv, F[13])
        return facts, self.problems


def _read_merge_states(item, local=None):
    """facts about merge_states; returns (facts, problems)"""
    return _MergeEval(item, local).run()


def _operand_list(a):
    """[x, y] · vec![x, y] · [x, y].into_iter() · once(x).chain(once(y)) -> [x, y] (the operands in order), else None"""
    a = _unref(a)
    while a.get("k") == "mcall" and a["m"] in ("into_iter", "to_vec", "into") and not a["args"]:
        a = _unref(a["recv"])
    if a.get("k") == "array":
        return a["elems"]
    if a.get("k") == "macro" and a.get("short") == "vec" and isinstance(a.get("args"), list) and not (a.get("extra") or {}).get("repeat"):
        return a["args"]

    def single(x):
        x = _unref(x)
        if x.get("k") == "call" and _is_path(x["f"]) and x["f"]["p"].split("::")[-1] in ("once", "Some") and len(x["args"]) == 1:
            return x["args"][0]
        return None
    if a.get("k") == "mcall" and a["m"] == "chain" and len(a["args"]) == 1:
        x, y = single(a["recv"]), single(a["args"][0])
        if x is not None and y is not None:
            return [x, y]
    return None


class Wiring:
    def __init__(self):
        self.templates = {}
        self.problems = []
        self.merge = {"facts": {}, "problems": []}
        self.delegations = {}
        self.lines = {}

    def model(self):
        m = {}
        for c in COMBINATORS:
            t = self.templates.get(c)
            if t is None:
                ref = R.THOMPSON[c]
                t = ref["fresh"] or ref["inplace"]
            m[c] = t
        return m


_WIRING_CACHE = {}


def read_wiring(src):
    key = id(src)
    if key in _WIRING_CACHE and _WIRING_CACHE[key][0] is src:
        return _WIRING_CACHE[key][1]
    w = Wiring()
    fns = {}
    local = _LocalDefs(src)
    for (f, s, tr, it, t) in src.fns:
        if t or f != AUTOMATA or base_name(s) != "NFA":
            continue
        fns.setdefault(it["name"], []).append((s, tr, it))
    for c in COMBINATORS:
        cands = fns.get(c, [])
        if c == "from":
            cands = [x for x in cands if x[1] and x[1].startswith("From<&") and "str" in x[1]]
        else:
            cands = [x for x in cands if x[1] is None]
        if len(cands) != 1:
            w.problems.append((c, "%d definitions of NFA::%s found in %s" % (len(cands), c, AUTOMATA)))
            continue
        s, tr, it = cands[0]
        w.lines[c] = it.get("line") or it["body"].get("line")
        try:
            if c == "from":
                w.templates[c] = _read_from_str(it, local)
            else:
                w.templates[c] = _RoleEval(c, it, s, local).template()
        except WiringError as ex:
            w.problems.append((c, str(ex)))
        except (KeyError, IndexError, TypeError) as ex:
            w.problems.append((c, "%s: construct not understood (%s: %s)" % (c, type(ex).__name__, ex)))
    ms = [x for x in fns.get("merge_states", []) if x[1] is None]
    if len(ms) != 1:
        w.merge["problems"].append("%d definitions of merge_states" % len(ms))
    else:
        try:
            w.merge["facts"], w.merge["problems"] = _read_merge_states(ms[0][2], local)
        except (KeyError, IndexError, TypeError, AttributeError) as ex:
            w.merge["problems"].append("construct not understood (%s: %s)" % (type(ex).__name__, ex))
        w.lines["merge_states"] = ms[0][2]["body"].get("line")
    for op, trait in (("add", "Add"), ("bitor", "BitOr")):
        cands = [x for x in fns.get(op, []) if x[1] and re.search(r"\b%s\b" % trait, x[1])]
        if len(cands) != 1:
            continue
        body = cands[0][2]["body"]["stmts"]
        if len(body) == 1 and body[0]["k"] == "expr" and (not body[0]["semi"] or body[0]["e"]["k"] == "return"):
            e = body[0]["e"]
            if e["k"] == "return" and e.get("e") is not None:
                e = e["e"]
            c = comb_of_node(e)
            if c in ("sequence", "choice") and len(e["args"]) == 1:
                el = _operand_list(e["args"][0])
                params = [p["pat"].get("name") for p in cands[0][2]["sig"]["inputs"] if p["name"] != "self"]
                if el is not None and len(el) == 2 and _is_path(el[0], "self") and len(params) == 1 and _is_path(el[1], params[0]):
                    w.delegations[op] = c
    _WIRING_CACHE.clear()
    _WIRING_CACHE[key] = (src, w)
    return w


# ================================================================================================
# grammars
# ================================================================================================
Registration = namedtuple("Registration", "index name impl mapped text")


class Grammar:
    def __init__(self, name, kind, impl=None, rx=None, site=None, problem=None, wiring=None):
        self.name = name
        self.kind = kind
        self.impl = impl
        self.rx = rx
        self.site = site
        self.problem = problem
        self._wiring = wiring
        self._cache = {}

    def __repr__(self):
        return "<Grammar %s %s>" % (self.name, self.kind)

    def _dfa(self, which):
        if which not in self._cache:
            if self.rx is None:
                raise Unfoldable("grammar %s has no expression (%s)" % (self.name, self.problem or self.kind))
            if which == "regex":
                self._cache[which] = R.compile_rx(self.rx)
            else:
                self._cache[which] = R.compile_rx(self.rx, self._wiring.model())
        return self._cache[which]

    @property
    def regex_dfa(self):
        return self._dfa("regex")

    @property
    def asbuilt_dfa(self):
        return self._dfa("asbuilt")

    def _q(self, key, fn, which="asbuilt"):
        k = (key, which)
        if k not in self._cache:
            self._cache[k] = fn(self._dfa(which))
        return self._cache[k]

    minlen = property(lambda s: s._q("minlen", R.minlen))
    maxlen = property(lambda s: s._q("maxlen", R.maxlen))
    prefix = property(lambda s: s._q("prefix", R.common_prefix))
    suffix = property(lambda s: s._q("suffix", R.common_suffix))
    accepts_empty = property(lambda s: s._q("eps", R.accepts_empty))
    minlen_regex = property(lambda s: s._q("minlen", R.minlen, "regex"))
    maxlen_regex = property(lambda s: s._q("maxlen", R.maxlen, "regex"))
    prefix_regex = property(lambda s: s._q("prefix", R.common_prefix, "regex"))
    suffix_regex = property(lambda s: s._q("suffix", R.common_suffix, "regex"))

    @property
    def table(self):
        """[(bytes, tag text)] when the grammar is a choice of tagged literals (basic_events_nfa)"""
        if "table" not in self._cache:
            rows = None
            rx = self.rx
            while rx is not None and rx.op == "tagmap":
                rx = rx.args[0]
            if rx is not None and rx.op == "choice":
                rows = []
                for a in rx.args:
                    if a.op == "tag" and a.args[0].op == "lit":
                        rows.append((bytes(a.args[0].data), value_text(a.data)))
                    else:
                        rows = None
                        break
            self._cache["table"] = rows
        return self._cache["table"]


def _instance_name(v):
    if not isinstance(v, StructVal):
        return value_text(v)
    if not v.fields:
        return v.name
    parts = []
    for k in sorted(v.fields):
        x = v.fields[k]
        parts.append(x.text().split("::")[-1] if isinstance(x, Sym) else value_text(x))
    return "%s(%s)" % (v.name, ",".join(parts))


class _Extraction:
    def __init__(self, src):
        self.src = src
        self.wiring = read_wiring(src)
        self.interp = Interp(src)
        self.grammars = {}
        self.regs = {"event": [], "command": []}
        self.statics_of = {}
        self.problems = []
        self.matcher_impls = []
        self.run()

    def matcher_fn(self, struct):
        c = [x for x in self.interp.impl_fns.get((struct, "matcher"), []) if x[2] and base_name(x[2]) == "Matcher"]
        return c[0] if len(c) == 1 else None

    def eval_instance(self, inst):
        name = _instance_name(inst)
        if name in self.grammars:
            return self.grammars[name]
        c = self.matcher_fn(inst.name)
        if c is None:
            g = Grammar(name, "parsed", inst.name, problem="no unique `impl Matcher for %s`" % inst.name, wiring=self.wiring)
        else:
            f, s, tr, it = c
            site = "%s:%d" % (f, it["body"].get("line", 0))
            try:
                v = self.interp.call_item(f, s, it, [], self_val=inst)
                if not isinstance(v, EitherVal) or not isinstance(v.value, Rx):
                    raise Unfoldable("matcher() of %s does not evaluate to Either<NFA, NFA> (%s)" % (name, value_text(v)))
                g = Grammar(name, "parsed" if v.side == "Left" else "table", inst.name, v.value, site, wiring=self.wiring)
            except Unfoldable as ex:
                g = Grammar(name, "parsed", inst.name, None, site, problem=str(ex), wiring=self.wiring)
            except RecursionError:
                g = Grammar(name, "parsed", inst.name, None, site, problem="recursion limit", wiring=self.wiring)
            except (KeyError, IndexError, TypeError, AttributeError, ValueError, OverflowError) as ex:
                # a construct the evaluator mishandles must surface as "not folded" (callers anchor), never as a crash of the check
                g = Grammar(name, "parsed", inst.name, None, site, problem="construct not understood (%s: %s)" % (type(ex).__name__, ex), wiring=self.wiring)
        self.grammars[name] = g
        return g

    def decoder_static(self, decoder):
        """name of the automaton static that <decoder>::new() clones"""
        c = [x for x in self.interp.impl_fns.get((decoder, "new"), []) if x[2] is None]
        if len(c) != 1:
            return None
        f, s, tr, it = c[0]
        names = []

        def visit(n):
            if n.get("k") == "path" and (f, n["p"]) in self.interp.statics and n["p"] not in names:
                names.append(n["p"])
        ordered_walk(it["body"], visit)
        return (f, names[0]) if len(names) == 1 else None

    def run(self):
        src = self.src
        it = self.interp
        # 1. impl Matcher for X
        for (f, im, t) in src.impls:
            if t or base_name(im.get("trait")) != "Matcher":
                continue
            self.matcher_impls.append((f, im))
        # 2. the two decoders
        for which, dec in (("event", "TTYEventDecoder"), ("command", "TTYCommandDecoder")):
            st = self.decoder_static(dec)
            if st is None:
                self.problems.append("%s::new does not reference exactly one automaton static" % dec)
                continue
            self.statics_of[which] = st
            try:
                v = it.static_value(*st)
            except Unfoldable as ex:
                self.problems.append("static %s: %s" % (st[1], ex))
                continue
            except (KeyError, IndexError, TypeError, AttributeError, ValueError, OverflowError, RecursionError) as ex:
                self.problems.append("static %s: construct not understood (%s: %s)" % (st[1], type(ex).__name__, ex))
                continue
            try:
                inner = v.fields["inner"] if isinstance(v, StructVal) and "inner" in v.fields else v
                comp = inner.fields["automata"]
                ms = inner.fields["matchers"]
                assert isinstance(comp, Compiled) and isinstance(ms, list)
            except (AttributeError, KeyError, AssertionError):
                self.problems.append("static %s does not evaluate to MatcherAutomata{automata: compiled NFA, matchers}" % st[1])
                continue
            init_txt = []
            arr = []

            def visit(n):
                if n.get("k") == "call" and _is_path(n["f"]) and n["f"]["p"].endswith("MatcherAutomata::new") and n["args"] and n["args"][0]["k"] == "array":
                    arr.extend(n["args"][0]["elems"])
            ordered_walk(it.statics[st]["expr"], visit)
            for i, m in enumerate(ms):
                mapped = False
                base = m
                while isinstance(base, StructVal) and base.name == "MappedMatcher" and "matcher" in base.fields:
                    mapped = True
                    base = base.fields["matcher"]
                if not isinstance(base, StructVal):
                    self.problems.append("registration %d of %s is not a matcher struct" % (i, st[1]))
                    continue
                g = self.eval_instance(base)
                txt = expr_text(arr[i]) if i < len(arr) else ""
                self.regs[which].append(Registration(i, g.name, base.name, mapped, txt))
            self.grammars[st[1]] = Grammar(st[1], "union", None, comp.rx, "%s:%d" % (st[0], it.statics[st].get("line", 0)), wiring=self.wiring)
        # 3. every impl: unit structs directly; field structs must have been seen through a registration
        for (f, im) in self.matcher_impls:
            ty = im["self_ty"]
            b = base_name(ty)
            if "<" in ty:
                self.grammars.setdefault(b, Grammar(b, "generic", b, None, "%s:%d" % (f, im.get("line", 0) or 0), problem="generic over the wrapped matcher", wiring=self.wiring))
                continue
            sdef = it.struct_names.get(b)
            if sdef is not None and not sdef["fields"]:
                self.eval_instance(StructVal(b, {}))
            elif not any(g.impl == b for g in self.grammars.values()):
                self.grammars[b] = Grammar(b, "parsed", b, None, None, problem="struct %s has fields and no constructed instance was found" % b, wiring=self.wiring)
        # 4. other compiled statics (helpers such as UTF8DFA)
        for (f, name), item in sorted(it.statics.items()):
            if f != DECODER or name in self.grammars or item.get("k") != "static":
                continue
            if "DFA" not in (item.get("ty") or ""):
                continue
            try:
                v = it.static_value(f, name)
                if isinstance(v, Compiled):
                    self.grammars[name] = Grammar(name, "helper", None, v.rx, "%s:%d" % (f, item.get("line", 0)), wiring=self.wiring)
            except Unfoldable as ex:
                self.grammars[name] = Grammar(name, "helper", None, None, "%s:%d" % (f, item.get("line", 0)), problem=str(ex), wiring=self.wiring)
            except (KeyError, IndexError, TypeError, AttributeError, ValueError, OverflowError, RecursionError) as ex:
                self.grammars[name] = Grammar(name, "helper", None, None, "%s:%d" % (f, item.get("line", 0)),
                                              problem="construct not understood (%s: %s)" % (type(ex).__name__, ex), wiring=self.wiring)


_EXTRACT_CACHE = {}


def extraction(src):
    key = id(src)
    if key not in _EXTRACT_CACHE or _EXTRACT_CACHE[key][0] is not src:
        _EXTRACT_CACHE.clear()
        _EXTRACT_CACHE[key] = (src, _Extraction(src))
    return _EXTRACT_CACHE[key][1]


def extract(src, wiring=None):
    """{name: Grammar}; grammars whose body could not be folded have rx None and .problem set (callers fail closed)"""
    return extraction(src).grammars


def registrations(src, which):
    return list(extraction(src).regs[which])


def event_matcher_names(src):
    return [r.name for r in extraction(src).regs["event"]]


def command_matcher_names(src):
    return [r.name for r in extraction(src).regs["command"]]


def union_rx(src, which):
    ex = extraction(src)
    st = ex.statics_of.get(which)
    if st is None or st[1] not in ex.grammars:
        raise Unfoldable("automaton of the %s decoder was not found: %s" % (which, "; ".join(ex.problems)))
    return ex.grammars[st[1]].rx


HEX_CLASS = R.cls(b"0123456789abcdefABCDEF")
ESC_CLASS = R.cls(b"\x1b")


def decode_entry_facts(src):
    """Facts about the `data` slice that reaches Matcher::decode of every parsed (Either::Left) matcher, keyed by the MIR body path of the
    decode impl, e.g. '<decoder::CursorPositionMatcher as decoder::Matcher>::decode':
        {'minlen': n, 'maxlen': n | None (unbounded), 'prefix': bytes, 'suffix': bytes, 'grammars': [names], 'impl': struct, 'registered': ['event', ...]}
    computed on the AS-BUILT automaton (what the decoder runs); a matcher struct constructed with several field values (UTF8Matcher modes)
    gets the facts of the union of its instances.  Grammars that could not be folded raise Unfoldable (callers fail closed)."""
    ex = extraction(src)
    by_impl = {}
    for g in ex.grammars.values():
        if g.kind == "parsed" and g.impl:
            by_impl.setdefault(g.impl, []).append(g)
    out = {}
    for impl, gs in sorted(by_impl.items()):
        for g in gs:
            if g.rx is None:
                raise Unfoldable("grammar %s: %s" % (g.name, g.problem))
        if len(gs) == 1:
            d = gs[0].asbuilt_dfa
        else:
            model = ex.wiring.model()
            u = R.NFA(2)
            u.start, u.stop = 0, 1
            for g in gs:
                a = R.build_asbuilt(g.rx, model)
                off = u.absorb(a)
                u.eps[0].add(a.start + off)
                u.eps[a.stop + off].add(1)
            d = R.minimize(R.determinize(u), keep_tags=False)
        names = sorted(g.name for g in gs)
        reg = [w for w in ("event", "command") if any(r.name in names for r in ex.regs[w])]
        mod = re.sub(r"^src/|\.rs$", "", DECODER).replace("/", "::")
        key = "<%s::%s as %s::Matcher>::decode" % (mod, impl, mod)
        out[key] = {"minlen": R.minlen(d), "maxlen": R.maxlen(d), "prefix": R.common_prefix(d), "suffix": R.common_suffix(d),
                    "grammars": names, "impl": impl, "registered": reg}
    return out


def termsize_piece_minlen(src, witness=False):
    """k such that in every word of the (as-built) TermSizeMatcher language every ESC-free factor after the first — i.e. every piece of
    data.split(ESC) with index >= 1 — has length >= k (k is the exact minimum).  With witness=True returns (k, word attaining it)."""
    g = extract(src).get("TermSizeMatcher")
    if g is None or g.rx is None:
        raise Unfoldable("TermSizeMatcher grammar not available: %s" % (g.problem if g else "no such impl"))
    k, w = R.split_piece_min_len(g.asbuilt_dfa, ESC_CLASS, skip=1)
    if k is None:
        raise Unfoldable("TermSizeMatcher words have no piece after the first ESC")
    return (k, w) if witness else k


def termcap_hex_runs_even(src):
    """(True, None) iff in every word of the (as-built) TermCapMatcher language every maximal run of ASCII hex digits inside the payload
    data[5 .. len-2] has even length (so hex_decode never sees a dangling nibble); otherwise (False, full word with an odd run)."""
    g = extract(src).get("TermCapMatcher")
    if g is None or g.rx is None:
        raise Unfoldable("TermCapMatcher grammar not available: %s" % (g.problem if g else "no such impl"))
    d = g.asbuilt_dfa
    if (R.minlen(d) or 0) < 7:
        return (False, b"")
    payload, complete = R.slice_dfa(d, 5, 2)
    w = R.run_parity_witness(payload, HEX_CLASS)
    if w is None:
        return (True, None)
    return (False, complete(w) or w)


def matcher_impl_count(src):
    return len(extraction(src).matcher_impls)


def extraction_problems(src):
    return list(extraction(src).problems)
