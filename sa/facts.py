"""Fact extraction: builds (and caches by content hash) the two fact files for /repo's
current working tree.  This is the only place that touches rustc/cargo.

mir.json  <- tools/mirdump (rustc_private driver as RUSTC_WORKSPACE_WRAPPER, cargo +nightly check)
src.json  <- tools/srcdump (syn 2)
"""
import fcntl
import hashlib
import json
import os
import shutil
import subprocess
import sys
import time

VERIF = os.path.dirname(os.path.dirname(os.path.abspath(__file__)))
REPO = os.environ.get("VERIF_REPO", "/repo")
BUILD = os.path.join(VERIF, "build")
MIRDUMP = os.path.join(VERIF, "tools/mirdump/target/release/mirdump")
SRCDUMP = os.path.join(VERIF, "tools/srcdump/target/release/srcdump")


def _env():
    e = dict(os.environ)
    e["CARGO_NET_OFFLINE"] = "true"
    e.pop("RUSTC_WRAPPER", None)
    return e


def build_tools(force=False):
    """Build the two dumpers (offline). Called by setup and lazily by checks."""
    for name, binp in (("mirdump", MIRDUMP), ("srcdump", SRCDUMP)):
        d = os.path.join(VERIF, "tools", name)
        src_m = max(
            os.path.getmtime(os.path.join(d, "src/main.rs")),
            os.path.getmtime(os.path.join(d, "Cargo.toml")),
        )
        if not force and os.path.exists(binp) and os.path.getmtime(binp) >= src_m:
            continue
        r = subprocess.run(
            ["cargo", "build", "--offline", "--release"],
            cwd=d, env=_env(), stdout=subprocess.PIPE, stderr=subprocess.STDOUT, text=True,
        )
        if r.returncode != 0 or not os.path.exists(binp):
            sys.stderr.write(r.stdout[-4000:])
            raise SystemExit("facts: cannot build tool %s" % name)


def tree_hash():
    h = hashlib.sha256()
    files = []
    for root, dirs, fs in os.walk(os.path.join(REPO, "src")):
        dirs.sort()
        for f in sorted(fs):
            if f.endswith(".rs"):
                files.append(os.path.join(root, f))
    for f in ("Cargo.toml", "Cargo.lock"):
        p = os.path.join(REPO, f)
        if os.path.exists(p):
            files.append(p)
    for tool in ("mirdump", "srcdump"):
        files.append(os.path.join(VERIF, "tools", tool, "src/main.rs"))
    for p in files:
        rel = os.path.relpath(p, REPO) if p.startswith(REPO + os.sep) else os.path.relpath(p, VERIF)
        h.update(rel.encode())
        h.update(b"\0")
        with open(p, "rb") as fh:
            h.update(fh.read())
        h.update(b"\0")
    return h.hexdigest()[:20]


def _sysroot():
    r = subprocess.run(["rustc", "+nightly", "--print", "sysroot"], stdout=subprocess.PIPE, text=True, env=_env())
    return r.stdout.strip()


def _run_mirdump(out, target_dir):
    env = _env()
    env["LD_LIBRARY_PATH"] = _sysroot() + "/lib" + (":" + env["LD_LIBRARY_PATH"] if env.get("LD_LIBRARY_PATH") else "")
    env["MIRDUMP_OUT"] = out
    env["RUSTFLAGS"] = "-Zmir-opt-level=0 -Awarnings"
    env["RUSTC_WORKSPACE_WRAPPER"] = MIRDUMP
    env["CARGO_TARGET_DIR"] = target_dir
    # force re-analysis of the workspace member: cargo's freshness cache would otherwise skip the wrapper
    fp = os.path.join(target_dir, "debug", ".fingerprint")
    if os.path.isdir(fp):
        for d in os.listdir(fp):
            if d.startswith("surf_n_term-") or d.startswith("surf-n-term-"):
                shutil.rmtree(os.path.join(fp, d), ignore_errors=True)
    if os.path.exists(out):
        os.remove(out)
    r = subprocess.run(
        ["cargo", "+nightly", "check", "--offline", "--lib"],
        cwd=REPO, env=env, stdout=subprocess.PIPE, stderr=subprocess.STDOUT, text=True,
    )
    if r.returncode != 0 or not os.path.exists(out):
        sys.stderr.write(r.stdout[-6000:])
        raise SystemExit("facts: mirdump failed (repo does not compile under cargo +nightly check?)")


def _run_srcdump(out):
    r = subprocess.run([SRCDUMP, REPO, out], stdout=subprocess.PIPE, stderr=subprocess.STDOUT, text=True)
    if r.returncode != 0 or not os.path.exists(out):
        sys.stderr.write(r.stdout[-4000:])
        raise SystemExit("facts: srcdump failed")


def ensure(tier="quick"):
    """Returns (dir, info). Facts for the current tree; thorough never reuses cache or target dir."""
    os.makedirs(BUILD, exist_ok=True)
    if tier != "thorough":
        # cache hit: no lock needed (a facts dir is published by renaming a complete temporary dir into place)
        try:
            h0 = tree_hash()
            d0 = os.path.join(BUILD, "facts", h0)
            if os.path.exists(os.path.join(d0, "mir.json")) and os.path.exists(os.path.join(d0, "src.json")) and os.path.exists(os.path.join(d0, ".complete")):
                try:
                    os.utime(d0, None)
                except OSError:
                    pass
                return d0, {"hash": h0, "cached": True}
        except Exception:
            pass
    # extraction slots: each has its own cargo target dir, so several trees can be extracted at once (slot 0 is the default one)
    lock = None
    slot = 0
    if tier != "thorough":
        import time as _t
        while lock is None:
            for k in range(8):
                fh = open(os.path.join(BUILD, ".lock%d" % k if k else ".lock"), "w")
                try:
                    fcntl.flock(fh, fcntl.LOCK_EX | fcntl.LOCK_NB)
                    lock, slot = fh, k
                    break
                except OSError:
                    fh.close()
            if lock is None:
                _t.sleep(0.5)
    else:
        lock = open(os.path.join(BUILD, ".lock"), "w")
        fcntl.flock(lock, fcntl.LOCK_EX)
    try:
        build_tools()
        h = tree_hash()
        d = os.path.join(BUILD, "facts", h)
        info = {"hash": h, "cached": False}
        mir = os.path.join(d, "mir.json")
        src = os.path.join(d, "src.json")
        fresh_marker = os.path.join(d, "thorough_fresh")
        if tier == "thorough":
            # one fresh extraction per tree state and per VERIF_FRESH id (so that running all thorough
            # checks in a row does not redo 20 cold builds, yet nothing from the quick cache is reused)
            fid = os.environ.get("VERIF_FRESH_ID", "")
            ok = False
            if fid and os.path.exists(fresh_marker) and open(fresh_marker).read() == fid and os.path.exists(mir) and os.path.exists(src):
                ok = True
            if not ok:
                shutil.rmtree(d, ignore_errors=True)
                os.makedirs(d)
                t0 = time.time()
                tgt = os.path.join(BUILD, "target-thorough")
                shutil.rmtree(tgt, ignore_errors=True)
                try:
                    _run_mirdump(mir, tgt)
                finally:
                    shutil.rmtree(tgt, ignore_errors=True)
                _run_srcdump(src)
                with open(fresh_marker, "w") as fh:
                    fh.write(fid or str(time.time()))
                info["extract_s"] = round(time.time() - t0, 2)
            else:
                info["cached"] = True
        else:
            if os.path.exists(mir) and os.path.exists(src):
                info["cached"] = True
                open(os.path.join(d, ".complete"), "w").close()
            else:
                if not os.path.exists(os.path.join(d, ".complete")):
                    shutil.rmtree(d, ignore_errors=True)
                tmpd = d + ".tmp%d" % os.getpid()
                shutil.rmtree(tmpd, ignore_errors=True)
                os.makedirs(tmpd)
                t0 = time.time()
                _run_mirdump(os.path.join(tmpd, "mir.json"), os.path.join(BUILD, "target" if slot == 0 else "target%d" % slot))
                _run_srcdump(os.path.join(tmpd, "src.json"))
                open(os.path.join(tmpd, ".complete"), "w").close()
                try:
                    os.rename(tmpd, d)
                except OSError:
                    # another process published the same tree meanwhile
                    shutil.rmtree(tmpd, ignore_errors=True)
                info["extract_s"] = round(time.time() - t0, 2)
                # keep at most 24 fact dirs (17 MB each)
                root = os.path.join(BUILD, "facts")
                ds = sorted((os.path.getmtime(os.path.join(root, x)), x) for x in os.listdir(root) if ".tmp" not in x)
                for mt, x in ds[:-24]:
                    # a directory touched in the last ten minutes may be in use by a check running in parallel
                    if time.time() - mt > 600:
                        shutil.rmtree(os.path.join(root, x), ignore_errors=True)
        return d, info
    finally:
        fcntl.flock(lock, fcntl.LOCK_UN)
        lock.close()


_cache = {}


def load(tier="quick"):
    last = None
    for attempt in range(3):
        d, info = ensure(tier)
        if d not in _cache:
            try:
                with open(os.path.join(d, "mir.json")) as fh:
                    mir = json.load(fh)
                with open(os.path.join(d, "src.json")) as fh:
                    src = json.load(fh)
            except (OSError, ValueError) as ex:
                # a cached directory can be evicted by a check running in parallel between the hit and the read: extract again
                last = ex
                shutil.rmtree(d, ignore_errors=True)
                continue
            _cache[d] = (mir, src)
        mir, src = _cache[d]
        return mir, src, info
    raise SystemExit("facts: cannot read the extracted facts (%s)" % last)


if __name__ == "__main__":
    if len(sys.argv) > 1 and sys.argv[1] == "setup":
        build_tools(force=False)
        d, info = ensure("quick")
        print("facts ready", d, info)
    else:
        print(tree_hash())
