"""C20 mutants: breaking edits (must be reported, still compile) and benign edits (must stay silent).
edits: (file, old text occurring exactly once, new text)."""
E = "src/encoder.rs"
D = "src/decoder.rs"

_EIGHT = """            let c_red = nearest(r, CUBE);
            let c_green = nearest(g, CUBE);
            let c_blue = nearest(b, CUBE);
            let c_color = LinColor::new(CUBE[c_red], CUBE[c_green], CUBE[c_blue], 1.0);

            // nearest grey color
            let g_index = nearest((r + g + b) / 3.0, GREYS);
            let g_color = LinColor::new(GREYS[g_index], GREYS[g_index], GREYS[g_index], 1.0);

            // pick grey or cube based on the distance
            let index = if color.distance(g_color) < color.distance(c_color) {
                232 + g_index
            } else {
                16 + 36 * c_red + 6 * c_green + c_blue
            };
"""
_EIGHT_RENAMED = """            let ri = nearest(r, CUBE);
            let gi = nearest(g, CUBE);
            let bi = nearest(b, CUBE);
            let cube_candidate = LinColor::new(CUBE[ri], CUBE[gi], CUBE[bi], 1.0);

            let ramp = nearest((r + g + b) / 3.0, GREYS);
            let grey_candidate = LinColor::new(GREYS[ramp], GREYS[ramp], GREYS[ramp], 1.0);

            let index = if color.distance(grey_candidate) < color.distance(cube_candidate) {
                232 + ramp
            } else {
                16 + 36 * ri + 6 * gi + bi
            };
"""
_EIGHT_REORDERED = """            // nearest grey color
            let g_index = nearest((b + g + r) / 3.0, GREYS);
            let g_color = LinColor::new(GREYS[g_index], GREYS[g_index], GREYS[g_index], 1.0);

            let c_blue = nearest(b, CUBE);
            let c_green = nearest(g, CUBE);
            let c_red = nearest(r, CUBE);
            let c_color = LinColor::new(CUBE[c_red], CUBE[c_green], CUBE[c_blue], 1.0);

            // pick grey or cube based on the distance
            let index = if color.distance(c_color) > color.distance(g_color) {
                g_index + 232
            } else {
                c_blue + 6 * c_green + c_red * 36 + 16
            };
"""
_NEAREST_ERR = """            if index == 0 {
                0
            } else if index >= vs.len() {
                vs.len() - 1
            } else if (v - vs[index - 1]) < (vs[index] - v) {
                index - 1
            } else {
                index
            }
"""

_PREFIX_MATCH = """            match sgr_color_type {
                SGRColorType::Foreground => chunks.push(b"38"),
                SGRColorType::Background => chunks.push(b"48"),
                SGRColorType::Underline => chunks.push(b"58"),
            }
"""
_NEAREST_FN = """fn nearest(v: f32, vs: &[f32]) -> usize {
    match vs.binary_search_by(|c| c.partial_cmp(&v).unwrap()) {
        Ok(index) => index,
        Err(index) => {
""" + _NEAREST_ERR + """        }
    }
}
"""
_NEAREST_EARLY_RETURN = """fn nearest(v: f32, vs: &[f32]) -> usize {
    let index = match vs.binary_search_by(|c| c.partial_cmp(&v).unwrap()) {
        Ok(index) => return index,
        Err(index) => index,
    };
    if index == 0 {
        return 0;
    }
    if vs.len() <= index {
        return vs.len() - 1;
    }
    if (vs[index] - v) > (v - vs[index - 1]) {
        index - 1
    } else {
        index
    }
}
"""
_NEAREST_PARTITION_POINT = """fn nearest(v: f32, vs: &[f32]) -> usize {
    assert!(!v.is_nan());
    let index = vs.partition_point(|c| *c < v);
    if index < vs.len() && vs[index] == v {
        return index;
    }
    let below = index.checked_sub(1);
    match below {
        None => 0,
        Some(below) if index == vs.len() => below,
        Some(below) => {
            if v - vs[below] < vs[index] - v {
                below
            } else {
                index
            }
        }
    }
}
"""
_GRAY_ARM = """            let luma = color.luma();
            let index = match nearest(luma, &[0.0, 0.33, 0.66, 1.0]) {
                0 => 30,
                1 => 90,
                2 => 37,
                _ => 97,
            };
            let index = match sgr_color_type {
                SGRColorType::Foreground => index,
                SGRColorType::Background => index + 10,
                SGRColorType::Underline => return Ok(()),
            };
            write!(chunks, "{}", index)?;
            chunks.mark();
"""
_GRAY_ARM_TABLE = """            if let SGRColorType::Underline = sgr_color_type {
                return Ok(());
            }
            const GRAY_LEVELS: &[f32] = &[0.0, 0.33, 0.66, 1.0];
            let level = nearest(color.luma(), GRAY_LEVELS);
            let mut code = [30, 90, 37, 97][level];
            if let SGRColorType::Background = sgr_color_type {
                code += 10;
            }
            write!(chunks, "{code}")?;
            chunks.mark();
"""
_DEC_INDEXED = """            let mut index = number_decode(cmds.next()?)?;
            if index < 16 {
                Some(COLORS[index])
            } else if index < 232 {
                index -= 16;
                let ri = index / 36;
                index -= ri * 36;
                let gi = index / 6;
                index -= gi * 6;
                let bi = index;
                Some(RGBA::new(CUBE[ri], CUBE[gi], CUBE[bi], 255))
            } else if index < 256 {
                let v = GREYS[index - 232];
                Some(RGBA::new(v, v, v, 255))
            } else {
                None
            }
"""
_DEC_INDEXED_MATCH = """            match number_decode(cmds.next()?)? {
                index @ 0..=15 => Some(COLORS[index]),
                index @ 16..=231 => {
                    let cube_index = index - 16;
                    let ri = cube_index / 36;
                    let gi = cube_index % 36 / 6;
                    let bi = cube_index % 6;
                    Some(RGBA::new(CUBE[ri], CUBE[gi], CUBE[bi], 255))
                }
                index @ 232..=255 => {
                    let v = GREYS[index - 232];
                    Some(RGBA::new(v, v, v, 255))
                }
                _ => None,
            }
"""

MUTANTS = [
    # ---- (a) tables
    {"id": "C20-cube-entry-changed", "prop": "C20", "expect": "TABLE-LINEAR/encoder::CUBE/entry-1",
     "edits": [(E, "&[0.0, 0.114435,", "&[0.0, 0.114535,")]},
    {"id": "C20-greys-entries-swapped", "prop": "C20", "expect": "TABLE-LINEAR/encoder::GREYS",
     "edits": [(E, "0.019382, 0.029557,", "0.029557, 0.019382,")]},
    {"id": "C20-cube-last-digit", "prop": "C20", "expect": "TABLE-LINEAR/encoder::CUBE/entry-4",
     "edits": [(E, "0.679542, 1.0];", "0.679544, 1.0];")]},
    {"id": "C20-decoder-cube-level", "prop": "C20", "expect": "TABLE-DECODER/decoder::CUBE/entry-1",
     "edits": [(D, "[0x00, 0x5f, 0x87,", "[0x00, 0x5e, 0x87,")]},
    {"id": "C20-decoder-grey-level", "prop": "C20", "expect": "TABLE-DECODER/decoder::GREYS",
     "edits": [(D, "0x08, 0x12, 0x1c,", "0x08, 0x13, 0x1c,")]},
    # ---- (b) index layout
    {"id": "C20-swap-36-6", "prop": "C20", "expect": "INDEX-LAYOUT/encoder::color_sgr_encode/index-cube",
     "edits": [(E, "16 + 36 * c_red + 6 * c_green + c_blue", "16 + 6 * c_red + 36 * c_green + c_blue")]},
    {"id": "C20-grey-base-231", "prop": "C20", "expect": "INDEX-LAYOUT/encoder::color_sgr_encode/index-grey",
     "edits": [(E, "                232 + g_index\n", "                231 + g_index\n")]},
    {"id": "C20-green-index-from-red", "prop": "C20", "expect": "INDEX-LAYOUT/encoder::color_sgr_encode/cube-index-channels",
     "edits": [(E, "let c_green = nearest(g, CUBE);", "let c_green = nearest(r, CUBE);")]},
    {"id": "C20-grey-mean-of-two", "prop": "C20", "expect": "INDEX-LAYOUT/encoder::color_sgr_encode/grey-index-mean",
     "edits": [(E, "nearest((r + g + b) / 3.0, GREYS)", "nearest((r + g) / 2.0, GREYS)")]},
    {"id": "C20-eightbit-selector-2", "prop": "C20", "expect": "INDEX-LAYOUT/encoder::color_sgr_encode/eightbit-template",
     "edits": [(E, '            chunks.push(b"5");\n', '            chunks.push(b"2");\n')]},
    {"id": "C20-decoder-green-div-5", "prop": "C20", "expect": "INDEX-LAYOUT/decoder::sgr_color/inverse-layout",
     "edits": [(D, "let gi = index / 6;", "let gi = index / 5;")]},
    {"id": "C20-decoder-grey-threshold", "prop": "C20", "expect": "INDEX-LAYOUT/decoder::sgr_color/inverse-layout",
     "edits": [(D, "} else if index < 232 {", "} else if index < 231 {")]},
    # ---- (c) nearest
    {"id": "C20-nearest-lower-neighbour-only", "prop": "C20", "expect": "NEAREST/encoder::nearest/interior",
     "edits": [(E, "} else if (v - vs[index - 1]) < (vs[index] - v) {", "} else if (v - vs[index - 1]) < 0.05 {")]},
    {"id": "C20-nearest-branches-swapped", "prop": "C20", "expect": "NEAREST/encoder::nearest/interior",
     "edits": [(E, "} else if (v - vs[index - 1]) < (vs[index] - v) {", "} else if (v - vs[index - 1]) > (vs[index] - v) {")]},
    {"id": "C20-nearest-upper-edge-unguarded", "prop": "C20", "expect": "NEAREST/encoder::nearest/upper-edge",
     "edits": [(E, "} else if index >= vs.len() {", "} else if index > vs.len() {")]},
    {"id": "C20-nearest-lower-edge-wrong", "prop": "C20", "expect": "NEAREST/encoder::nearest/lower-edge",
     "edits": [(E, "            if index == 0 {\n                0\n", "            if index == 0 {\n                1\n")]},
    {"id": "C20-nearest-ok-arm-off-by-one", "prop": "C20", "expect": "NEAREST/encoder::nearest/ok-arm",
     "edits": [(E, "        Ok(index) => index,\n        Err(index) => {\n            if index == 0 {", "        Ok(index) => index.saturating_sub(1),\n        Err(index) => {\n            if index == 0 {")]},
    {"id": "C20-nearest-comparator-reversed", "prop": "C20", "expect": "NEAREST/encoder::nearest/comparator",
     "edits": [(E, "|c| c.partial_cmp(&v).unwrap()", "|c| v.partial_cmp(c).unwrap()")]},
    # ---- (d) grey vs cube
    {"id": "C20-grey-distance-with-itself", "prop": "C20", "expect": "GREY-VS-CUBE/encoder::color_sgr_encode/condition",
     "edits": [(E, "color.distance(g_color) < color.distance(c_color)", "color.distance(g_color) < color.distance(g_color) + c_color.distance(c_color)")]},
    {"id": "C20-grey-cube-branches-swapped", "prop": "C20", "expect": "GREY-VS-CUBE/encoder::color_sgr_encode/branches-swapped",
     "edits": [(E, "color.distance(g_color) < color.distance(c_color)", "color.distance(g_color) > color.distance(c_color)")]},
    {"id": "C20-cube-candidate-channels-swapped", "prop": "C20", "expect": "GREY-VS-CUBE/encoder::color_sgr_encode/candidate-cube",
     "edits": [(E, "LinColor::new(CUBE[c_red], CUBE[c_green], CUBE[c_blue], 1.0)", "LinColor::new(CUBE[c_green], CUBE[c_red], CUBE[c_blue], 1.0)")]},
    {"id": "C20-distance-from-candidate", "prop": "C20", "expect": "GREY-VS-CUBE/encoder::color_sgr_encode/receiver",
     "edits": [(E, "color.distance(g_color) < color.distance(c_color)", "c_color.distance(g_color) < color.distance(c_color)")]},
    # ---- (e) grey depth
    {"id": "C20-grey-thresholds-swapped", "prop": "C20", "expect": "GREY-DEPTH/encoder::color_sgr_encode/thresholds-not-increasing",
     "edits": [(E, "&[0.0, 0.33, 0.66, 1.0]", "&[0.0, 0.66, 0.33, 1.0]")]},
    {"id": "C20-grey-codes-swapped", "prop": "C20", "expect": "GREY-DEPTH/encoder::color_sgr_encode/codes-not-monotone",
     "edits": [(E, "                1 => 90,\n                2 => 37,\n", "                1 => 37,\n                2 => 90,\n")]},
    {"id": "C20-grey-chromatic-code", "prop": "C20", "expect": "GREY-DEPTH/encoder::color_sgr_encode/codes-not-monotone",
     "edits": [(E, "                2 => 37,\n", "                2 => 36,\n")]},
    {"id": "C20-grey-background-offset", "prop": "C20", "expect": "GREY-DEPTH/encoder::color_sgr_encode/background",
     "edits": [(E, "SGRColorType::Background => index + 10,", "SGRColorType::Background => index + 60,")]},
    {"id": "C20-grey-underline-emits", "prop": "C20", "expect": "GREY-DEPTH/encoder::color_sgr_encode/underline",
     "edits": [(E, "SGRColorType::Underline => return Ok(()),", "SGRColorType::Underline => index,")]},
    {"id": "C20-grey-probe-not-luma", "prop": "C20", "expect": "GREY-DEPTH/encoder::color_sgr_encode/probe",
     "edits": [(E, "let luma = color.luma();", "let luma = 1.0 - color.luma();")]},
    # ---- (f) true colour
    {"id": "C20-truecolor-loop-order", "prop": "C20", "expect": "TRUECOLOR/encoder::color_sgr_encode/channel-order",
     "edits": [(E, "for c in [r, g, b] {", "for c in [b, g, r] {")]},
    {"id": "C20-truecolor-destructure-order", "prop": "C20", "expect": "TRUECOLOR/encoder::color_sgr_encode/channel-order",
     "edits": [(E, "let [r, g, b] = color.to_rgb();", "let [g, r, b] = color.to_rgb();")]},
    {"id": "C20-truecolor-hex-format", "prop": "C20", "expect": "TRUECOLOR/encoder::color_sgr_encode/format",
     "edits": [(E, '                write!(chunks, "{}", c)?;\n                chunks.mark();', '                write!(chunks, "{:x}", c)?;\n                chunks.mark();')]},
    {"id": "C20-truecolor-one-chunk", "prop": "C20", "expect": "TRUECOLOR/encoder::color_sgr_encode/format",
     "edits": [(E, '                write!(chunks, "{}", c)?;\n                chunks.mark();\n            }', '                write!(chunks, "{}", c)?;\n            }\n            chunks.mark();')]},
    {"id": "C20-truecolor-bg-prefix", "prop": "C20", "expect": "TRUECOLOR/encoder::color_sgr_encode/prefix-Background",
     "edits": [(E, '            let [r, g, b] = color.to_rgb();\n            match sgr_color_type {\n                SGRColorType::Foreground => chunks.push(b"38"),\n                SGRColorType::Background => chunks.push(b"48"),',
                '            let [r, g, b] = color.to_rgb();\n            match sgr_color_type {\n                SGRColorType::Foreground => chunks.push(b"38"),\n                SGRColorType::Background => chunks.push(b"38"),')]},
    # ---- benign
    {"id": "C20-benign-rename-locals", "prop": "C20", "benign": True, "edits": [(E, _EIGHT, _EIGHT_RENAMED)]},
    {"id": "C20-benign-reorder-and-mirror", "prop": "C20", "benign": True, "edits": [(E, _EIGHT, _EIGHT_REORDERED)]},
    {"id": "C20-benign-nearest-rename", "prop": "C20", "benign": True,
     "edits": [(E, "        Ok(index) => index,\n        Err(index) => {\n" + _NEAREST_ERR,
                "        Ok(found) => found,\n        Err(pos) => {\n" + _NEAREST_ERR.replace("index", "pos"))]},
    {"id": "C20-benign-trailing-zero", "prop": "C20", "benign": True,
     "edits": [(E, "0.242281, 0.42869, 0.679542", "0.242281, 0.428690, 0.679542")]},
    {"id": "C20-benign-role-arms-reordered", "prop": "C20", "benign": True,
     "edits": [(E, "                SGRColorType::Foreground => index,\n                SGRColorType::Background => index + 10,\n                SGRColorType::Underline => return Ok(()),\n",
                "                SGRColorType::Underline => return Ok(()),\n                SGRColorType::Background => 10 + index,\n                SGRColorType::Foreground => index,\n")]},
    {"id": "C20-benign-decoder-hex-to-decimal", "prop": "C20", "benign": True,
     "edits": [(D, "[0x00, 0x5f, 0x87, 0xaf, 0xd7, 0xff]", "[0, 95, 135, 175, 215, 255]")]},
    # ---- benign: refactoring shapes the value-based rules see through (helper extraction, named constants, hoisting, idiom changes)
    {"id": "C20-benign-prefix-helper-method", "prop": "C20", "benign": True,
     "edits": [(E, "            let [r, g, b] = color.to_rgb();\n" + _PREFIX_MATCH, "            let [r, g, b] = color.to_rgb();\n            chunks.push(sgr_color_type.extended_code());\n"),
               (E, _PREFIX_MATCH + '            chunks.push(b"5");\n', '            chunks.push(sgr_color_type.extended_code());\n            chunks.push(b"5");\n'),
               (E, "/// Encode color as SGR sequence\n", "impl SGRColorType {\n    fn extended_code(&self) -> &'static [u8] {\n        match self {\n            SGRColorType::Underline => b\"58\",\n"
                   "            SGRColorType::Foreground => b\"38\",\n            SGRColorType::Background => b\"48\",\n        }\n    }\n}\n\n/// Encode color as SGR sequence\n")]},
    {"id": "C20-benign-named-offsets-horner", "prop": "C20", "benign": True,
     "edits": [(E, "                232 + g_index\n", "                GREYS_OFFSET + g_index\n"),
               (E, "16 + 36 * c_red + 6 * c_green + c_blue", "CUBE_OFFSET + (c_red * 6 + c_green) * 6 + c_blue"),
               (E, "fn nearest(v: f32, vs: &[f32]) -> usize {", "const CUBE_OFFSET: usize = 16;\nconst GREYS_OFFSET: usize = 232;\n\nfn nearest(v: f32, vs: &[f32]) -> usize {")]},
    {"id": "C20-benign-debug-asserts-and-reserve", "prop": "C20", "benign": True,
     "edits": [(E, "            };\n\n" + _PREFIX_MATCH + '            chunks.push(b"5");\n', "            };\n            debug_assert!((16..256).contains(&index), \"palette index {}\", index);\n\n" + _PREFIX_MATCH + '            chunks.push(b"5");\n'),
               (E, "fn nearest(v: f32, vs: &[f32]) -> usize {\n", "fn nearest(v: f32, vs: &[f32]) -> usize {\n    debug_assert!(vs.windows(2).all(|pair| pair[0] < pair[1]));\n"),
               (E, "    match depth {\n        ColorDepth::TrueColor => {", "    chunks.buffer.reserve(12);\n    chunks.offsets.reserve(5);\n    match depth {\n        ColorDepth::TrueColor => {")]},
    {"id": "C20-benign-hoisted-grey-level-and-distances", "prop": "C20", "benign": True,
     "edits": [(E, "let g_color = LinColor::new(GREYS[g_index], GREYS[g_index], GREYS[g_index], 1.0);", "let g_level = GREYS[g_index];\n            let g_color = LinColor::new(g_level, g_level, g_level, 1.0);"),
               (E, "            let index = if color.distance(g_color) < color.distance(c_color) {", "            let (d_grey, d_cube) = (color.distance(g_color), color.distance(c_color));\n            let index = if d_cube > d_grey {")]},
    {"id": "C20-benign-decision-by-partial-cmp", "prop": "C20", "benign": True,
     "edits": [(E, "            let index = if color.distance(g_color) < color.distance(c_color) {\n                232 + g_index\n            } else {\n                16 + 36 * c_red + 6 * c_green + c_blue\n            };",
                "            let index = match color.distance(g_color).partial_cmp(&color.distance(c_color)) {\n                Some(Ordering::Less) => 232 + g_index,\n                _ => 16 + 36 * c_red + 6 * c_green + c_blue,\n            };")]},
    {"id": "C20-benign-cube-indices-by-map", "prop": "C20", "benign": True,
     "edits": [(E, "            let c_red = nearest(r, CUBE);\n            let c_green = nearest(g, CUBE);\n            let c_blue = nearest(b, CUBE);\n",
                "            let [c_red, c_green, c_blue] = [r, g, b].map(|channel| nearest(channel, CUBE));\n")]},
    {"id": "C20-benign-nearest-early-returns", "prop": "C20", "benign": True, "edits": [(E, _NEAREST_FN, _NEAREST_EARLY_RETURN)]},
    {"id": "C20-benign-nearest-partition-point", "prop": "C20", "benign": True, "edits": [(E, _NEAREST_FN, _NEAREST_PARTITION_POINT)]},
    {"id": "C20-benign-comparator-mirrored", "prop": "C20", "benign": True,
     "edits": [(E, "|c| c.partial_cmp(&v).unwrap()", "|entry| v.partial_cmp(entry).unwrap().reverse()")]},
    {"id": "C20-benign-gray-table-lookup", "prop": "C20", "benign": True, "edits": [(E, _GRAY_ARM, _GRAY_ARM_TABLE)]},
    {"id": "C20-benign-truecolor-unrolled", "prop": "C20", "benign": True,
     "edits": [(E, '            for c in [r, g, b] {\n                write!(chunks, "{}", c)?;\n                chunks.mark();\n            }\n',
                '            write!(chunks, "{r}")?;\n            chunks.mark();\n            write!(chunks, "{}", g)?;\n            chunks.mark();\n            write!(chunks, "{0}", b)?;\n            chunks.mark();\n')]},
    {"id": "C20-benign-truecolor-array-loop", "prop": "C20", "benign": True,
     "edits": [(E, "            let [r, g, b] = color.to_rgb();\n", "            let components = color.to_rgb();\n"),
               (E, "            for c in [r, g, b] {\n                write!(chunks, \"{}\", c)?;", "            for component in components {\n                write!(chunks, \"{}\", component)?;")]},
    {"id": "C20-benign-decoder-match-ranges", "prop": "C20", "benign": True, "edits": [(D, _DEC_INDEXED, _DEC_INDEXED_MATCH)]},
    # ---- breaking changes hidden in refactored shapes
    {"id": "C20-grey-input-shortcut", "prop": "C20", "expect": "INDEX-LAYOUT/encoder::color_sgr_encode/palette-argmin",
     "edits": [(E, "let index = if color.distance(g_color) < color.distance(c_color) {", "let index = if (r == g && g == b) || color.distance(g_color) < color.distance(c_color) {")]},
    {"id": "C20-helper-wrong-underline-code", "prop": "C20", "expect": "TRUECOLOR/encoder::color_sgr_encode/prefix-Underline",
     "edits": [(E, "            let [r, g, b] = color.to_rgb();\n" + _PREFIX_MATCH, "            let [r, g, b] = color.to_rgb();\n            chunks.push(sgr_color_type.extended_code());\n"),
               (E, "/// Encode color as SGR sequence\n", "impl SGRColorType {\n    fn extended_code(&self) -> &'static [u8] {\n        match self {\n            SGRColorType::Underline => b\"59\",\n"
                   "            SGRColorType::Foreground => b\"38\",\n            SGRColorType::Background => b\"48\",\n        }\n    }\n}\n\n/// Encode color as SGR sequence\n")]},
    {"id": "C20-horner-wrong-factor", "prop": "C20", "expect": "INDEX-LAYOUT/encoder::color_sgr_encode/index-cube",
     "edits": [(E, "16 + 36 * c_red + 6 * c_green + c_blue", "16 + (c_red * 6 + c_green) * 5 + c_blue")]},
    {"id": "C20-named-offset-wrong", "prop": "C20", "expect": "INDEX-LAYOUT/encoder::color_sgr_encode/index-grey",
     "edits": [(E, "                232 + g_index\n", "                GREYS_OFFSET + g_index\n"),
               (E, "fn nearest(v: f32, vs: &[f32]) -> usize {", "const GREYS_OFFSET: usize = 231;\n\nfn nearest(v: f32, vs: &[f32]) -> usize {")]},
    {"id": "C20-hoisted-level-from-wrong-table", "prop": "C20", "expect": "GREY-VS-CUBE/encoder::color_sgr_encode/candidate",
     "edits": [(E, "let g_color = LinColor::new(GREYS[g_index], GREYS[g_index], GREYS[g_index], 1.0);", "let g_level = GREYS[g_index.min(CUBE.len() - 1)];\n            let g_color = LinColor::new(g_level, g_level, g_level, 1.0);")]},
    {"id": "C20-partition-point-wrong-side", "prop": "C20", "expect": "NEAREST/encoder::nearest/",
     "edits": [(E, _NEAREST_FN, _NEAREST_PARTITION_POINT.replace("if v - vs[below] < vs[index] - v {", "if v - vs[below] > vs[index] - v {"))]},
]

# ---- further refactorings: the EightBit computation in its own function (fold for the cube index, mean by multiplication),
# ---- `nearest` as a linear scan, level codes by if-chain, enumerate() loop with a debug_assert!
MUTANTS += [
    {"id": 'C20-benign-eightbit-own-function', "prop": "C20", "benign": True, "edits": [('src/encoder.rs', '            let color = LinColor::from(color);\n            let [r, g, b, _]: [f32; 4] = color.into();\n\n            // color in the color cube\n            let c_red = nearest(r, CUBE);\n            let c_green = nearest(g, CUBE);\n            let c_blue = nearest(b, CUBE);\n            let c_color = LinColor::new(CUBE[c_red], CUBE[c_green], CUBE[c_blue], 1.0);\n\n            // nearest grey color\n            let g_index = nearest((r + g + b) / 3.0, GREYS);\n            let g_color = LinColor::new(GREYS[g_index], GREYS[g_index], GREYS[g_index], 1.0);\n\n            // pick grey or cube based on the distance\n            let index = if color.distance(g_color) < color.distance(c_color) {\n                232 + g_index\n            } else {\n                16 + 36 * c_red + 6 * c_green + c_blue\n            };\n', '            let index = palette_index(LinColor::from(color));\n'), ('src/encoder.rs', '/// Encode color as SGR sequence\n', 'fn palette_index(color: LinColor) -> usize {\n    let [r, g, b, _]: [f32; 4] = color.into();\n    let cube = [r, g, b].map(|c| nearest(c, CUBE));\n    let c_color = LinColor::new(CUBE[cube[0]], CUBE[cube[1]], CUBE[cube[2]], 1.0);\n    let grey = nearest((r + g + b) * (1.0 / 3.0), GREYS);\n    let g_color = LinColor::new(GREYS[grey], GREYS[grey], GREYS[grey], 1.0);\n    if color.distance(c_color) <= color.distance(g_color) {\n        cube.iter().fold(0, |acc, c| acc * 6 + c) + 16\n    } else {\n        grey + 232\n    }\n}\n\n/// Encode color as SGR sequence\n')]},
    {"id": 'C20-benign-nearest-linear-scan', "prop": "C20", "benign": True, "edits": [('src/encoder.rs', '    match vs.binary_search_by(|c| c.partial_cmp(&v).unwrap()) {\n        Ok(index) => index,\n        Err(index) => {\n            if index == 0 {\n                0\n            } else if index >= vs.len() {\n                vs.len() - 1\n            } else if (v - vs[index - 1]) < (vs[index] - v) {\n                index - 1\n            } else {\n                index\n            }\n        }\n    }\n', '    assert!(!v.is_nan());\n    let mut best = 0;\n    for (index, entry) in vs.iter().enumerate() {\n        if (entry - v).abs() <= (vs[best] - v).abs() {\n            best = index;\n        }\n    }\n    best\n')]},
    {"id": 'C20-benign-gray-level-if-chain', "prop": "C20", "benign": True, "edits": [('src/encoder.rs', '            let index = match nearest(luma, &[0.0, 0.33, 0.66, 1.0]) {\n                0 => 30,\n                1 => 90,\n                2 => 37,\n                _ => 97,\n            };\n', '            let level = nearest(luma, &[0.0, 0.33, 0.66, 1.0]);\n            let index = if level == 0 {\n                30\n            } else if level == 1 {\n                90\n            } else if level == 2 {\n                37\n            } else {\n                97\n            };\n')]},
    {"id": 'C20-benign-truecolor-enumerate-loop', "prop": "C20", "benign": True, "edits": [('src/encoder.rs', '            for c in [r, g, b] {\n                write!(chunks, "{}", c)?;\n                chunks.mark();\n            }\n', '            for (position, c) in [r, g, b].iter().enumerate() {\n                debug_assert!(position < 3);\n                write!(chunks, "{}", *c)?;\n                chunks.mark();\n            }\n')]},
]

# ---- 256-colour branch as a `match` on range patterns whose bounds are named constants (`0..CUBE_OFFSET`, `GREYS_OFFSET..=255`),
# ---- cube decomposition by / and %, number_decode as try_fold with usize::from; and the same shape with a wrong constant
_PAL_OLD = '            let mut index = number_decode(cmds.next()?)?;\n            if index < 16 {\n                Some(COLORS[index])\n            } else if index < 232 {\n                index -= 16;\n                let ri = index / 36;\n                index -= ri * 36;\n                let gi = index / 6;\n                index -= gi * 6;\n                let bi = index;\n                Some(RGBA::new(CUBE[ri], CUBE[gi], CUBE[bi], 255))\n            } else if index < 256 {\n                let v = GREYS[index - 232];\n                Some(RGBA::new(v, v, v, 255))\n            } else {\n                None\n            }\n'
_PAL_NAMED = '            match number_decode(cmds.next()?)? {\n                index @ 0..CUBE_OFFSET => Some(COLORS[index]),\n                index @ CUBE_OFFSET..GREYS_OFFSET => {\n                    let index = index - CUBE_OFFSET;\n                    let (ri, gi, bi) = (index / 36, index / 6 % 6, index % 6);\n                    Some(RGBA::new(CUBE[ri], CUBE[gi], CUBE[bi], 255))\n                }\n                index @ GREYS_OFFSET..=255 => {\n                    let v = GREYS[index - GREYS_OFFSET];\n                    Some(RGBA::new(v, v, v, 255))\n                }\n                _ => None,\n            }\n'
_PAL_HDR = "fn sgr_color<'a>(mut cmds: impl Iterator<Item = &'a [u8]>) -> Option<RGBA> {\n"
_ND_OLD = "    let mut result = 0usize;\n    for b in data.iter() {\n        match b {\n            b'0'..=b'9' => {\n                // numbers that do not fit are reported as unrecognized\n                result = result.checked_mul(10)?.checked_add((b - b'0') as usize)?;\n            }\n            _ => return None,\n        }\n    }\n    Some(result)\n"
_ND_TRY_FOLD = "    data.iter().try_fold(0usize, |result, b| match b {\n        b'0'..=b'9' => result.checked_mul(10)?.checked_add(usize::from(b - b'0')),\n        _ => None,\n    })\n"
MUTANTS += [
    {"id": "C20-benign-palette-named-range-bounds", "prop": "C20", "benign": True,
     "edits": [(D, _PAL_OLD, _PAL_NAMED), (D, _PAL_HDR, "const CUBE_OFFSET: usize = 16;\nconst GREYS_OFFSET: usize = 232;\n\n" + _PAL_HDR), (D, _ND_OLD, _ND_TRY_FOLD)]},
    {"id": "C20-palette-named-range-bound-wrong", "prop": "C20", "expect": "INDEX-LAYOUT/decoder::sgr_color/inverse-layout",
     "edits": [(D, _PAL_OLD, _PAL_NAMED), (D, _PAL_HDR, "const CUBE_OFFSET: usize = 16;\nconst GREYS_OFFSET: usize = 231;\n\n" + _PAL_HDR)]},
    {"id": "C20-palette-cube-green-not-reduced", "prop": "C20", "expect": "INDEX-LAYOUT/decoder::sgr_color/inverse-layout",
     "edits": [(D, _PAL_OLD, _PAL_NAMED.replace("index / 6 % 6", "index % 36 / 5")), (D, _PAL_HDR, "const CUBE_OFFSET: usize = 16;\nconst GREYS_OFFSET: usize = 232;\n\n" + _PAL_HDR)]},
]

# ---- the 256-colour branch in further equivalent shapes: extracted helper with early returns, `(16..232).contains`, `[..].map(|i| CUBE[i])`,
# ---- `GREYS.get(index.checked_sub(232)?)`; index narrowed by u8::try_from and matched with `232..=u8::MAX`; guarded arms with shared quotient
_PAL_TAIL = "            }\n        }\n"
_FACE_DOC = "/// Apply SGR commands to the provided Face\n"
MUTANTS += [
    {"id": "C20-benign-palette-helper-contains-get", "prop": "C20", "benign": True,
     "edits": [(D, _PAL_OLD + "        }\n", '            palette_color(number_decode(cmds.next()?)?)\n        }\n'), (D, _FACE_DOC, 'fn palette_color(index: usize) -> Option<RGBA> {\n    if index < COLORS.len() {\n        return Some(COLORS[index]);\n    }\n    if (16..232).contains(&index) {\n        let cube = index - 16;\n        let levels = [cube / 36, cube / 6 % 6, cube % 6].map(|i| CUBE[i]);\n        return Some(RGBA::new(levels[0], levels[1], levels[2], 255));\n    }\n    let v = *GREYS.get(index.checked_sub(232)?)?;\n    Some(RGBA::new(v, v, v, 255))\n}\n' + "\n" + _FACE_DOC)]},
    {"id": "C20-benign-palette-u8-match", "prop": "C20", "benign": True,
     "edits": [(D, _PAL_OLD + "        }\n", '            let index = u8::try_from(number_decode(cmds.next()?)?).ok()?;\n            Some(match index {\n                0..=15 => COLORS[usize::from(index)],\n                16..=231 => {\n                    let cube = usize::from(index - 16);\n                    RGBA::new(CUBE[cube / 36], CUBE[cube / 6 % 6], CUBE[cube % 6], 255)\n                }\n                232..=u8::MAX => {\n                    let v = GREYS[usize::from(index - 232)];\n                    RGBA::new(v, v, v, 255)\n                }\n            })\n        }\n')]},
    {"id": "C20-benign-palette-guarded-arms", "prop": "C20", "benign": True,
     "edits": [(D, _PAL_OLD + "        }\n", '            let index = number_decode(cmds.next()?)?;\n            match index {\n                i if i < 16 => Some(COLORS[i]),\n                i if i < 232 => {\n                    let (hi, bi) = ((i - 16) / 6, (i - 16) % 6);\n                    Some(RGBA::new(CUBE[hi / 6], CUBE[hi % 6], CUBE[bi], 255))\n                }\n                i if i <= 0xff => {\n                    let v = GREYS[i - 232];\n                    Some(RGBA::new(v, v, v, 255))\n                }\n                _ => None,\n            }\n        }\n')]},
    {"id": "C20-benign-palette-get-or-else", "prop": "C20", "benign": True,
     "edits": [(D, _PAL_OLD + "        }\n", '            let index = number_decode(cmds.next()?)?;\n            COLORS.get(index).copied().or_else(|| {\n                let rest = index - COLORS.len();\n                if rest < 216 {\n                    Some(RGBA::new(CUBE[rest / 36], CUBE[(rest % 36) / 6], CUBE[rest % 6], 255))\n                } else {\n                    GREYS.get(rest - 216).map(|&v| RGBA::new(v, v, v, 255))\n                }\n            })\n        }\n')]},
]
