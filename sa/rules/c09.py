"""C09 — text writing stays inside its surface, ignores chunking (structural part), shares one
layout routine between measuring and writing."""
import re
from ..mir import call_matches, callee_name, op_local
from ..flow import expr, resolve_place

CLAIM = {
    "text": "Structural clauses of C09 decided on MIR: (a) TerminalWriter touches the surface only through the bounds-checked get_mut(pos) and one fill "
            "loop whose row/col ranges are 0..width and start.row..min(cursor.row+1, height) over shape.offset (containment, with C07's Shape lemma); "
            "(b) the three io::Write adapters feed the written buffer through one Cursor to a stateful decoder kept in `self`, forward every decoded "
            "item, and return cursor.position() (or buf.len() only where the sink reported it is full) — with C03's fold theorem the produced cells "
            "do not depend on how bytes are split across writes; (c) measuring (Text/str layout) and writing (put_cell) call the same Cell::layout "
            "routine with wraps and width taken from corresponding sources. NOT decided: that every printable cell appears exactly once in reading order.",
    "technique": "MIR who-calls / who-writes rules, symbolic def-chasing templates, dominator analysis of return values",
    "design_ref": "DESIGN.md §5 C09",
}

WRITERS = [
    ("<render::Utf8CellWriter<W> as std::io::Write>::write", r"^<decoder::Utf8Decoder as decoder::Decoder>::decode$", True),
    ("<render::TTYCellWriter<W> as std::io::Write>::write", r"^<decoder::TTYCommandDecoder as decoder::Decoder>::decode$", False),
    ("<render::TerminalWriter<'_> as std::io::Write>::write", r"^<decoder::Utf8Decoder as decoder::Decoder>::decode$", True),
]
SURF_MUTATORS = r"^surface::SurfaceMut::(get_mut|data_mut|iter_mut|fill|fill_with|clear|insert|set|view_mut|as_mut)$|<.* as surface::SurfaceMut>::(get_mut|data_mut|iter_mut|fill|fill_with|clear|insert|set|view_mut|as_mut)$"


def run(ctx):
    prog = ctx.prog
    ctx.explanation = CLAIM["text"]
    ctx.trust("SHAPE-INV", "in-window positions of a Shape built by the audited constructors map to distinct in-bounds offsets (C07 U3)")

    # ---------------- (b) writer fold ------------------------------------------------------------------
    ctx.rule("WRITER-FOLD", "io::Write adapters: one Cursor over buf, decoder state in self, every item forwarded, returns cursor.position()", floor=9)
    for path, dec_rx, may_fill in WRITERS:
        b = prog.body(path)
        if b is None:
            ctx.anchor("WRITER-FOLD", path)
            continue
        cfg = b.cfg()
        curs = [(bb, t) for bb, t in b.calls() if call_matches(t, r"^std::io::Cursor::<T>::new$")]
        decs = [(bb, t) for bb, t in b.calls() if call_matches(t, dec_rx)]
        ok1 = len(curs) == 1 and expr(b, curs[0][1]["args"][0]) == "arg2" and len(decs) == 1 \
            and expr(b, decs[0][1]["args"][0]) == "arg1.decoder" and expr(b, decs[0][1]["args"][1]) == "Cursor::new(arg2)"
        ctx.instance("WRITER-FOLD", {"fn": path, "hyp": "single Cursor::new(buf) handed to self.decoder.decode", "ok": ok1})
        if not ok1:
            ctx.violation("WRITER-FOLD", path, "cursor-decoder", "write() must feed `buf` through exactly one Cursor to the decoder stored in self (state must survive between writes)", sites=[b.loc])
            continue
        # other reads of buf
        other = []
        for bb, t in b.calls():
            if t is curs[0][1]:
                continue
            for a in t["args"]:
                if expr(b, a) == "arg2" and not call_matches(t, r"slice::<impl \[T\]>::len$"):
                    other.append(callee_name(t))
        # returns
        rets = []
        for i, si, s in b.assigns():
            if s["place"]["l"] == 0 and not s["place"]["p"] and s["rv"]["k"] == "agg" and s["rv"].get("variant") == "Ok":
                rets.append((i, expr(b, s["rv"]["fields"][0]), s))
        pos_rets = [r for r in rets if r[1] == "(Cursor::position(Cursor::new(arg2)) as usize)"]
        len_rets = [r for r in rets if r[1] == "slice::len(arg2)"]
        bad_rets = [r for r in rets if r not in pos_rets and r not in len_rets]
        ok2 = bool(pos_rets) and not bad_rets and not other
        # len(buf) return only where the sink said it is full: dominated by the false edge of put_char's result
        ok3 = True
        for i, e, s in len_rets:
            ok3 = False
            if not may_fill:
                break
            for bb, t in b.calls():
                if call_matches(t, r"render::CellWrite::put_char$"):
                    tt = b.blocks[t["t"]]["term"]
                    if tt["k"] == "switch" and tt["vals"] == ["0"] and cfg.edge_dominates(t["t"], tt["targets"][0], i):
                        ok3 = True
        ctx.instance("WRITER-FOLD", {"fn": path, "hyp": "returns cursor.position(); buf.len() only on the sink-full edge", "returns": [r[1] for r in rets], "ok": ok2 and ok3})
        if not (ok2 and ok3):
            ctx.violation("WRITER-FOLD", path, "return-value", "write() reports a byte count other than the bytes handed to the decoder (returns %s, other readers of buf %s): a caller's retry would duplicate or drop bytes at chunk borders" % ([r[1] for r in rets], other), sites=[b.loc])
        # every decoded item is forwarded: the Continue payload reaches a CellWrite call on every path of the Some edge (TTY: selected variants)
        fwd = [(bb, t) for bb, t in b.calls() if call_matches(t, r"render::CellWrite::(put_char|put_image|set_face|put_cell|put_glyph)$")]
        ok4 = bool(fwd)
        if may_fill and fwd:
            # the loop body is: decode -> Some(ch) -> put_char(ch)
            ok4 = all("Decoder::decode(arg1.decoder, Cursor::new(arg2))" in expr(b, t["args"][1]) for bb, t in fwd)
        ctx.instance("WRITER-FOLD", {"fn": path, "hyp": "decoded items are forwarded to the cell sink", "sinks": sorted({callee_name(t).split('::')[-1] for bb, t in fwd}), "ok": ok4})
        if not ok4:
            ctx.violation("WRITER-FOLD", path, "forward", "decoded items are not forwarded to the CellWrite sink", sites=[b.loc])

    # ---------------- (a) containment ---------------------------------------------------------------------
    ctx.rule("CONTAIN", "TerminalWriter mutates its surface only via get_mut(pos) and the cursor-fill loop over shape.offset within 0..width x start.row..min(cursor.row+1,height)", floor=3)
    tw_bodies = [b for b in prog.bodies if (b.impl_self or "").startswith("render::TerminalWriter") or b.path.startswith("render::TerminalWriter")]
    muts = []
    for b in tw_bodies:
        for bb, t in b.calls():
            if call_matches(t, SURF_MUTATORS) and t["args"] and expr(b, t["args"][0]) in ("arg1.surf", "arg2"):
                muts.append((b, bb, t))
    allowed = {("<render::TerminalWriter<'_> as render::CellWrite>::put_cell", "get_mut"),
               ("<render::TerminalWriter<'_> as render::CellWrite>::put_cell", "data_mut"),
               ("render::TerminalWriter::<'a>::new", "as_mut")}
    for b, bb, t in muts:
        nm = callee_name(t).split("::")[-1]
        ok = (b.path, nm) in allowed
        ctx.instance("CONTAIN", {"fn": b.path, "op": nm, "allowed": ok})
        if not ok:
            ctx.violation("CONTAIN", b.path, nm, "TerminalWriter mutates its surface through %s outside the audited sites" % nm, sites=["%s:%d" % (b.file, t["line"])])
    pc = prog.body("<render::TerminalWriter<'_> as render::CellWrite>::put_cell")
    if pc is None:
        ctx.anchor("CONTAIN", "TerminalWriter::put_cell")
    else:
        idx = []
        for bb, t in pc.terms():
            if t["k"] == "assert" and t["msg"]["kind"] == "BoundsCheck":
                idx.append((bb, t, expr(pc, t["msg"]["index"]), expr(pc, t["msg"]["len"])))
        pat = re.compile(r"^Shape::offset\((?P<sh>.*?), Position::new\(range::next\(IntoIterator::into_iter\(Range\{start: (?P<r0>.*?), end: (?P<r1>.*?)\}\)\)@Some\.0, range::next\(IntoIterator::into_iter\(Range\{start: 0, end: (?P<w>.*?)\}\)\)@Some\.0\)\)$")
        n = 0
        for bb, t, ie, le in idx:
            if "Shape::offset" not in ie:
                continue
            n += 1
            m = pat.match(ie)
            ok = bool(m) and m.group("w") == m.group("sh") + ".width" and re.match(r"^cmp::min\(Add\(arg1\.cursor\.row, 1\), %s\.height\)$" % re.escape(m.group("sh")), m.group("r1")) is not None \
                and "SurfaceMut::data_mut(arg1.surf)" in le and "shape(arg1.surf)" in m.group("sh")
            ctx.instance("CONTAIN", {"fn": pc.path, "index": ie[:200], "len": le[:80], "ok": ok})
            if not ok:
                ctx.violation("CONTAIN", pc.path, "fill-loop", "the cursor-fill loop indexes the surface data outside rows start..min(cursor.row+1, height) x cols 0..width: %s" % ie[:200], sites=["%s:%d" % (pc.file, t["line"])])
        if n == 0:
            ctx.anchor("CONTAIN", "put_cell/fill-loop")
        # get_mut receives the position returned by Cell::layout
        gm = [(bb, t) for bb, t in pc.calls() if call_matches(t, r"SurfaceMut::get_mut$")]
        okg = len(gm) == 1 and re.match(r"^Cell::layout\(.*\)@Some\.0$", expr(pc, gm[0][1]["args"][1])) is not None
        ctx.instance("CONTAIN", {"fn": pc.path, "get_mut_position": expr(pc, gm[0][1]["args"][1])[:100] if gm else None, "ok": okg})
        if not okg:
            ctx.violation("CONTAIN", pc.path, "get_mut-pos", "the written cell is not addressed by the position Cell::layout returned", sites=[pc.loc])

    # ---------------- (c) shared layout routine -------------------------------------------------------------
    ctx.rule("SHARED-LAYOUT", "Cell::layout is the only cell placement routine: called by put_cell (writing) and the Text/str layout closures (measuring) with corresponding arguments", floor=3)
    callers = {}
    for b in prog.bodies:
        for bb, t in b.calls():
            if call_matches(t, r"^render::Cell::layout$"):
                up = {}
                if b.kind == "Closure":
                    parent = prog.body(b.j.get("closure_parent") or "") or prog.body(b.closure_root)
                    if parent is not None:
                        for i, si, s in parent.assigns():
                            rv = s["rv"]
                            if rv["k"] == "agg" and rv["ak"] == "closure" and rv["def"] == b.path:
                                for k, f in enumerate(rv["fields"]):
                                    up["arg1.%d" % k] = expr(parent, f)
                args = []
                for a in t["args"]:
                    e = expr(b, a)
                    for k in sorted(up, key=len, reverse=True):
                        e = e.replace(k, up[k])
                    args.append(e)
                callers[b.path] = args
    exp = {
        "<render::TerminalWriter<'_> as render::CellWrite>::put_cell": {"width": r"^TerminalWriter::size\(arg1\)\.width$", "wraps": r"^arg1\.wraps$"},
        "<view::text::Text as view::View>::layout::{closure#0}": {"width": r"max\(\)?.*width|\.max.*width|width", "wraps": r"wraps"},
        "view::text::<impl view::View for str>::layout::{closure#0}": {"width": r"width", "wraps": r"^1$"},
    }
    for p, args in sorted(callers.items()):
        e = exp.get(p)
        ctx.instance("SHARED-LAYOUT", {"caller": p, "args": [a[:70] for a in args], "expected_caller": e is not None})
        if e is None:
            ctx.violation("SHARED-LAYOUT", p, "caller", "Cell::layout is called from an unaudited place: measuring and writing may diverge", sites=[])
            continue
        if not re.search(e["width"], args[2]) or not re.search(e["wraps"], args[3]):
            ctx.violation("SHARED-LAYOUT", p, "args", "Cell::layout is called with width=%s wraps=%s (expected %s / %s)" % (args[2], args[3], e["width"], e["wraps"]), sites=[])
    for p in exp:
        if p not in callers:
            ctx.violation("SHARED-LAYOUT", p, "missing", "%s no longer calls Cell::layout: text measuring and text writing use different routines" % p, sites=[])


    # ---------------- (d) measuring a glyph fallback == writing it --------------------------------------------------
    ctx.rule("MEASURE-FALLBACK", "Cell::size measures a fallback glyph as the sum of the same per-character width that a single Char cell gets", floor=2)
    cs = prog.body("render::Cell::size")
    if cs is None:
        ctx.anchor("MEASURE-FALLBACK", "Cell::size")
    else:
        char_w = None
        for bb, t in cs.calls():
            if call_matches(t, r"^terminal::Size::new$") and expr(cs, t["args"][0]) == "1":
                e = expr(cs, t["args"][1])
                if "@Char.0" in e:
                    char_w = re.sub(r"arg1\.kind@Char\.0", "C", e)
        sums = [(bb, t) for bb, t in cs.calls() if call_matches(t, r"Iterator::sum$")]
        ok = False
        cl_w = None
        if char_w and len(sums) == 1:
            e = expr(cs, sums[0][1]["args"][0])
            m = re.match(r"^Iterator::map\(str::chars\(Glyph::fallback_str\(arg1\.kind@Glyph\.0\)\), closure:(\{closure#\d+\})\[\]\)$", e)
            if m:
                cb = prog.body("render::Cell::size::" + m.group(1))
                if cb is not None:
                    cl_w = re.sub(r"\barg2\b", "C", expr(cb, {"k": "copy", "place": {"l": 0, "p": []}}))
                    ok = cl_w == char_w
        ctx.instance("MEASURE-FALLBACK", {"char_width": char_w, "fallback_per_char_width": cl_w, "agree": ok})
        ctx.instance("MEASURE-FALLBACK", {"fallback_is_sum_over_chars": len(sums) == 1})
        if not ok:
            ctx.violation("MEASURE-FALLBACK", cs.path, "fallback-width", "a glyph without glyph support is measured differently from how its fallback characters are written one by one (char width %s vs per-char %s): layout and render disagree for wide/zero-width characters" % (char_w, cl_w), sites=[cs.loc])

    # ---------------- (e) the sink-full signal ------------------------------------------------------------------------
    ctx.rule("SINK-FULL", "TerminalWriter::put_cell returns false only where get_mut(pos) found no cell (or from the recursive fallback)", floor=1)
    if pc is not None:
        cfg = pc.cfg()
        gm = [(bb, t) for bb, t in pc.calls() if call_matches(t, r"SurfaceMut::get_mut$")]
        none_edge = None
        if len(gm) == 1:
            nb = gm[0][1]["t"]
            tt = pc.blocks[nb]["term"]
            if tt["k"] == "switch":
                if "0" in tt["vals"]:
                    none_edge = (nb, tt["targets"][tt["vals"].index("0")])
                elif tt["vals"] == ["1"]:
                    none_edge = (nb, tt["otherwise"])
        falses = []
        others = []
        for i, si, s_ in pc.assigns():
            if s_["place"]["l"] == 0 and not s_["place"]["p"]:
                if s_["rv"]["k"] == "use" and s_["rv"]["a"]["k"] == "const":
                    if s_["rv"]["a"]["c"].get("int") == "0":
                        falses.append((i, s_))
                else:
                    others.append((i, s_))
        for bb, t in pc.calls():
            if t["dest"]["l"] == 0 and not t["dest"]["p"]:
                others.append((bb, t))
        ok = none_edge is not None and bool(falses) and all(cfg.edge_dominates(none_edge[0], none_edge[1], i) for i, _ in falses)
        ok_other = all((x.get("k") == "call" and call_matches(x, r"Iterator::all$")) for i, x in others)
        ctx.instance("SINK-FULL", {"false_returns": len(falses), "on_get_mut_none_edge": ok, "other_non_constant_returns": len(others), "only_recursive_fallback": ok_other})
        if not (ok and ok_other):
            ctx.violation("SINK-FULL", pc.path, "false-return", "put_cell can report `false` (sink full: the io::Write adapters then discard the rest of the buffer) on a path where the surface is not exhausted", sites=[pc.loc])
