"""Compile-fail witnesses (thorough tier): builds /verif/witness against the analysed tree with
`cargo +nightly test --doc --offline`; compile_fail blocks carry an error code, twins are `no_run` (compiled, not executed)."""
import os
import re
import shutil
import subprocess
from . import facts


def run(ctx, rule):
    ctx.rule(rule, "compile-fail witnesses with compiling twins (rustdoc compile_fail,E0xxx on nightly)", floor=8)
    d = os.path.join(facts.BUILD, "witness")
    shutil.rmtree(d, ignore_errors=True)
    os.makedirs(os.path.join(d, "src"))
    shutil.copy(os.path.join(facts.VERIF, "witness", "src", "lib.rs"), os.path.join(d, "src", "lib.rs"))
    with open(os.path.join(d, "Cargo.toml"), "w") as fh:
        fh.write('[package]\nname = "snt_witness"\nversion = "0.1.0"\nedition = "2021"\n\n[workspace]\n\n[dependencies]\nsurf_n_term = { path = "%s" }\n' % facts.REPO)
    lock = os.path.join(facts.REPO, "Cargo.lock")
    if os.path.exists(lock):
        shutil.copy(lock, os.path.join(d, "Cargo.lock"))
    env = dict(os.environ, CARGO_NET_OFFLINE="true", CARGO_TARGET_DIR=os.path.join(facts.BUILD, "witness-target"))
    r = subprocess.run(["cargo", "+nightly", "test", "--doc", "--offline"], cwd=d, env=env, stdout=subprocess.PIPE, stderr=subprocess.STDOUT, text=True)
    out = r.stdout
    tests = re.findall(r"^test src/lib\.rs - (\w+) \(line (\d+)\)( - compile fail| - compile)? \.\.\. (\w+)", out, re.M)
    if not tests:
        ctx.anchor(rule, "witness-crate", "the witness crate did not build: " + out[-600:])
        return
    for name, line, kind, res in tests:
        what = "compile_fail witness" if "fail" in (kind or "") else "compiling twin"
        ctx.instance(rule, {"witness": name, "kind": what, "result": res})
        if res != "ok":
            ctx.violation(rule, name, what.replace(" ", "-"),
                          "%s %s: %s — the type-level guarantee no longer holds (or its twin stopped compiling)" % (what, name, res), sites=["witness/src/lib.rs:%s" % line])
