"""C18 — key chords: the textual syntax.  Print tables (Debug/Display of KeyName, KeyMod, Key, KeyChord) and parse
tables (FromStr of KeyName, Key, KeyChord) are mutually inverse on the parsable domain; the serde impls of KeyChord
go through exactly these two tables; every panic-capable site inside the parsers is guarded by an accepted idiom.

Engine E3 (tables/templates) over src.json, cross-checked against MIR for the serde chain and for the completeness
of the panic-site scan.  The trie semantics of KeyMap (histories of registrations) is NOT decided here."""
import re
from ..src import find_all, expr_text, pat_text, lit_int
from ..mir import call_matches, callee_name

CLAIM = {
    "text": "Only the table/shape clauses of C18 are decided: (1) for every row of KeyName::from_str (named keys, F-keys, the single-character "
            "classes) the string printed by Debug/Display for the parsed key is mapped back to the same key by the same table; (2) the KeyMod "
            "print table and the modifier arms of Key::from_str are inverse (flags single-bit and disjoint); (3) the key separator '+' and "
            "the chord separator ' ' are the same on the printing and the parsing side and occur in no printable name, and no key name "
            "collides with a modifier name; (4) KeyChord's Serialize/Deserialize go through exactly Display/FromStr; (5) every "
            "unwrap/expect/panic!/index site inside the parsers is dominated by an enumerated guard idiom (anything else is reported). "
            "NOT decided: the KeyMap trie (last-writer-wins, supersession by prefixes/extensions, enumeration) and the stateful matcher: they "
            "quantify over histories of registrations and key sequences, which are not static objects; numeric panic freedom beyond the "
            "listed idioms is left to the abstract-interpreter hook.",
    "technique": "match-arm / array tables and write! templates extracted from the syn dump, evaluated row by row (print then parse); "
                 "guard-idiom scan of panic sites cross-checked against MIR call sites",
    "design_ref": "DESIGN.md §5 C18",
}

KEYS = "src/keys.rs"

# Unicode: the only non-ASCII code points whose full lowercase mapping starts with an ASCII character are
# U+0130 (-> 'i' U+0307) and U+212A KELVIN SIGN (-> 'k')  [UnicodeData.txt / SpecialCasing.txt, checked for Unicode 14/15/16].
# For every other ASCII letter c: lower(S) starts with c  =>  S starts with c or its ASCII upper case, i.e. a 1-byte char.
LOWER_TO_ASCII_EXCEPTIONS = {"i", "k"}

PANIC_METHODS = {"unwrap", "expect", "unwrap_err", "expect_err", "unwrap_unchecked"}
PANIC_MACROS = {"panic", "unreachable", "unimplemented", "todo", "assert", "assert_eq", "assert_ne"}
MIR_PANIC_CALL = (r"(Option::<T>|Result::<T, E>)::(unwrap|expect|unwrap_err|expect_err|unwrap_unchecked)$"
                  r"|ops::Index(Mut)?<.*>>?::index(_mut)?$|panicking::|begin_panic|::unreachable")


class NotUnderstood(Exception):
    pass


# ------------------------------------------------------------------------------------------------
# syn helpers (shared with c19)
# ------------------------------------------------------------------------------------------------
def fmt_pieces(s):
    """Rust format string -> [("lit", text) | ("hole", argname_or_None, spec)]"""
    out = []
    i = 0
    cur = ""
    while i < len(s):
        ch = s[i]
        if ch == "{":
            if i + 1 < len(s) and s[i + 1] == "{":
                cur += "{"
                i += 2
                continue
            j = s.index("}", i)
            inner = s[i + 1:j]
            name, _, spec = inner.partition(":")
            if cur:
                out.append(("lit", cur))
                cur = ""
            out.append(("hole", name or None, spec))
            i = j + 1
            continue
        if ch == "}":
            if i + 1 < len(s) and s[i + 1] == "}":
                cur += "}"
                i += 2
                continue
            raise NotUnderstood("stray } in format string %r" % s)
        cur += ch
        i += 1
    if cur:
        out.append(("lit", cur))
    return out


def unref(e):
    while e is not None and (e.get("k") == "ref" or (e.get("k") == "un" and e.get("op") == "*")):
        e = e["e"]
    return e


def write_template(node):
    """write!/writeln!/f.write_str/f.write_char node -> [("lit", s) | ("hole", expr, spec)] or None if not a writer"""
    if node.get("k") == "macro" and node["short"] in ("write", "writeln", "format", "print", "println"):
        args = node.get("args")
        if not args:
            raise NotUnderstood("unparsed %s! arguments" % node["short"])
        rest = args[1:] if node["short"] in ("write", "writeln") else args
        if not rest or rest[0].get("k") != "lit" or rest[0]["t"] != "str":
            raise NotUnderstood("format string of %s! is not a literal" % node["short"])
        pos = rest[1:]
        named = {}
        positional = []
        for a in pos:
            if a.get("k") == "assign" and a["l"].get("k") == "path":
                named[a["l"]["p"]] = a["r"]
            else:
                positional.append(a)
        out = []
        n = 0
        for p in fmt_pieces(rest[0]["v"]):
            if p[0] == "lit":
                out.append(p)
            else:
                _, name, spec = p
                if name is None:
                    if n >= len(positional):
                        raise NotUnderstood("format string has more holes than arguments")
                    e = positional[n]
                    n += 1
                elif name.isdigit():
                    e = positional[int(name)]
                elif name in named:
                    e = named[name]
                else:
                    e = {"k": "path", "p": name}
                out.append(("hole", e, spec))
        if node["short"] == "writeln":
            out.append(("lit", "\n"))
        return out
    if node.get("k") == "mcall" and node["m"] in ("write_str", "write_char") and len(node["args"]) == 1:
        a = node["args"][0]
        if a.get("k") == "lit" and a["t"] == "str":
            return [("lit", a["v"])]
        if a.get("k") == "lit" and a["t"] == "char":
            return [("lit", chr(a["v"]))]
        return [("hole", a, "")]
    return None


def templates_in(node):
    """all writer templates below node, in source order (does not descend into a writer itself)"""
    out = []

    def rec(n):
        if isinstance(n, dict):
            if "k" in n:
                t = write_template(n) if n.get("k") in ("macro", "mcall") else None
                if t is not None:
                    out.append((n, t))
                    return
            for key, v in n.items():
                if key != "tokens":
                    rec(v)
        elif isinstance(n, list):
            for v in n:
                rec(v)
    rec(node)
    return out


def writer_helpers(src, file, fnitem, depth=3):
    """same-file helper fns (free or inherent, not trait methods) that `fnitem` calls and that receive a formatter/writer
    (`write_separator(f, &mut first)`, `Self::write_item(f, ..)`, `self.write_tail(f)`), transitively: a printer extracted into
    private helpers still writes the same text.  Returned in call order, each once."""
    out = []
    seen = {id(fnitem)}

    def takes_writer(it):
        return any(re.search(r"Formatter|fmt::Write|implWrite|W\b", i.get("ty") or "") for i in it.get("sig", {}).get("inputs", []) if isinstance(i, dict))

    def rec(it, d):
        if d > depth:
            return
        names = []
        for n in find_all(it, lambda n: n.get("k") in ("call", "mcall")):
            if n["k"] == "call" and n["f"].get("k") == "path":
                names.append(n["f"]["p"].split("::")[-1])
            elif n["k"] == "mcall":
                names.append(n["m"])
        for nm in names:
            for (f, s, tr, it2, t) in src.fns:
                if f == file and not t and tr is None and it2["name"] == nm and id(it2) not in seen and takes_writer(it2):
                    seen.add(id(it2))
                    out.append(it2)
                    rec(it2, d + 1)
    rec(fnitem, 0)
    return out


def templates_deep(src, file, fnitem):
    """templates_in(fn body) followed by the templates of the writer helpers it calls"""
    out = list(templates_in(fnitem["body"]))
    for h in writer_helpers(src, file, fnitem):
        out.extend(templates_in(h["body"]))
    return out


KEY_ITER_STEPS = {"keys", "iter", "enumerate", "as_ref", "as_slice", "into_iter", "peekable", "by_ref", "copied", "cloned", "deref"}
KEY_ITER_SINKS = {"for_each", "try_for_each"}


def chord_display_model(src, file, fnitem):
    """What KeyChord's Display writes, independent of how the loop is spelled: every writer template of the body (and of the writer
    helpers it calls) must be either a literal or a single `{}`/`{:?}` hole of a variable bound to an element of an iteration over
    self's keys.  Element bindings: `for pat in CHAIN`, `CHAIN.for_each/try_for_each(|pat| ..)`, `if let/while let Some(pat) = CHAIN.next()`,
    where CHAIN is rooted at `self` / `self.keys` possibly through `let` aliases (`let keys = self.keys(); let mut it = keys.iter();`).
    Returns {"seps": [literal texts], "key_templates": n, "steps": [all iterator methods used], "loops": n element-binding loops}."""
    lets = {}
    for n in find_all(fnitem, lambda n: n.get("k") == "let" and n.get("pat", {}).get("k") == "ident" and n.get("init")):
        lets.setdefault(n["pat"]["name"], []).append(n["init"])

    def keys_chain(e, depth=0):
        r, ms = chain(e)
        if is_path(r, "self") or expr_text(r) == "self.keys":
            return ms
        if is_path(r) and len(lets.get(r["p"], ())) == 1 and depth < 6:
            base = keys_chain(lets[r["p"]][0], depth + 1)
            return None if base is None else base + ms
        return None

    def idents(p):
        return {x["name"] for x in find_all(p, lambda n: n.get("k") == "ident")}

    kvars, steps, loops = set(), [], 0
    # `Some((first, rest)) = CHAIN.split_first()` / `Some((last, init)) = CHAIN.split_last()` in a let-else / if-let / match arm:
    # one element variable plus an alias of the remaining keys; both must be written, in slice order
    order = {id(n): i for i, n in enumerate(find_all(fnitem, lambda n: True))}
    splits = []

    def split_pattern(p, scrut):
        scrut = unref(scrut)
        if not (p is not None and p.get("k") == "tstruct" and p["path"].split("::")[-1] == "Some" and len(p["elems"]) == 1 and p["elems"][0].get("k") == "tuple"
                and len(p["elems"][0]["elems"]) == 2 and all(x.get("k") == "ident" and not x.get("sub") for x in p["elems"][0]["elems"])):
            return
        if scrut is None or scrut.get("k") != "mcall" or scrut["m"] not in ("split_first", "split_last") or scrut["args"]:
            return
        ms = keys_chain(scrut["recv"])
        if ms is None:
            return
        one, many = (x["name"] for x in p["elems"][0]["elems"])
        steps.extend(ms)
        kvars.add(one)
        lets.setdefault(many, []).append(scrut["recv"])
        splits.append({"one": one, "many": many, "first": scrut["m"] == "split_first"})
    for n in find_all(fnitem, lambda n: n.get("k") in ("let", "letcond", "match")):
        if n["k"] == "let" and n.get("init") is not None:
            split_pattern(n.get("pat"), n["init"])
        elif n["k"] == "letcond":
            split_pattern(n.get("pat"), n["e"])
        elif n["k"] == "match":
            for arm in n["arms"]:
                split_pattern(arm["pat"], n["e"])
    loop_of = {}     # alias name -> pre-order position of the loop that iterates it
    for n in find_all(fnitem, lambda n: n.get("k") == "for"):
        ms = keys_chain(n["iter"])
        if ms is None:
            raise NotUnderstood("KeyChord Display loops over something that is not self's keys: %s" % expr_text(n["iter"]))
        kvars |= idents(n["pat"])
        steps += ms
        loops += 1
        r_it = chain(unref(n["iter"]))[0]
        if is_path(r_it):
            loop_of.setdefault(r_it["p"], order[id(n)])
    for n in find_all(fnitem, lambda n: n.get("k") == "mcall" and n["m"] in KEY_ITER_SINKS and n["args"] and n["args"][0].get("k") == "closure"):
        ms = keys_chain(n["recv"])
        if ms is None:
            continue
        r_it = chain(unref(n["recv"]))[0]
        if is_path(r_it):
            loop_of.setdefault(r_it["p"], order[id(n)])
        for prm in n["args"][0]["params"]:
            kvars |= idents(prm)
        steps += ms
        loops += 1
    for n in find_all(fnitem, lambda n: n.get("k") == "letcond" and n["pat"].get("k") == "tstruct" and n["pat"]["path"] == "Some"):
        ms = keys_chain(n["e"])
        if ms is None or not ms or ms[-1] != "next":
            continue
        kvars |= idents(n["pat"])
        steps += ms[:-1]
        loops += 1 if any(w.get("cond") is n for w in find_all(fnitem, lambda x: x.get("k") == "while")) else 0
    seps, key_t = [], 0
    written = {}
    for node, tpl in templates_deep(src, file, fnitem):
        if all(x[0] == "lit" for x in tpl):
            seps.append("".join(x[1] for x in tpl))
        elif len(tpl) == 1 and tpl[0][0] == "hole" and is_path(unref(tpl[0][1])) and unref(tpl[0][1])["p"] in kvars and tpl[0][2] in ("", "?"):
            key_t += 1
            written.setdefault(unref(tpl[0][1])["p"], order.get(id(node)))
        else:
            raise NotUnderstood("KeyChord Display template %s" % (tpl,))
    for sp in splits:
        w, lpos = written.get(sp["one"]), loop_of.get(sp["many"])
        if w is None or lpos is None:
            raise NotUnderstood("KeyChord Display splits the keys into %s / %s but does not write both" % (sp["one"], sp["many"]))
        if (w < lpos) != sp["first"]:
            steps.append("split-out-of-order")
    return {"seps": seps, "key_templates": key_t, "steps": steps, "loops": loops}


def path_template(node, value_of):
    """Concatenated writer templates executed along one path of `node`: `value_of(cond)` gives the truth value a condition has on that
    path (None: not a condition the caller knows).  Understands if/else in either polarity, `if .. { return write!(..) }` followed by
    the other case, `match <cond> { true => .., false => .. }`, `?`, early `return`, a conditional prefix followed by a common tail.
    Any other control flow that contains a writer is NotUnderstood."""
    out = []

    def truth_of(c):
        neg = False
        while c is not None and c.get("k") == "un" and c["op"] == "!":
            neg, c = not neg, c["e"]
        t = value_of(c)
        if t is None:
            return None
        return t != neg

    def run(n):
        """returns True when the path has left the function"""
        if n is None:
            return False
        if isinstance(n, list):
            for x in n:
                if run(x):
                    return True
            return False
        k = n.get("k")
        if k in ("macro", "mcall"):
            t = write_template(n)
            if t is not None:
                out.extend(t)
                return False
        if k == "block":
            for st in n["stmts"]:
                if st["k"] == "let":
                    if run(st.get("init")):
                        return True
                elif st["k"] == "expr":
                    if run(st["e"]):
                        return True
            return False
        if k == "if":
            tv = truth_of(n["cond"])
            if tv is None:
                if templates_in(n):
                    raise NotUnderstood("writer under the condition %s" % expr_text(n["cond"]))
                return False
            return run(n["then"] if tv else n["else"])
        if k == "match":
            tv = truth_of(n["e"])
            if tv is not None:
                for arm in n["arms"]:
                    p = arm["pat"]
                    if p["k"] == "lit" and p["e"].get("t") == "bool" and arm["guard"] is None:
                        if bool(p["e"]["v"]) == tv or p["e"]["v"] in ("true" if tv else "false",):
                            return run(arm["body"])
                    elif p["k"] in ("wild", "ident") and arm["guard"] is None:
                        return run(arm["body"])
                raise NotUnderstood("match on the condition without a %s arm" % tv)
            if templates_in(n):
                raise NotUnderstood("writer inside match %s" % expr_text(n["e"]))
            return False
        if k == "return":
            run(n.get("e"))
            return True
        if k in ("for", "while", "loop", "closure"):
            if templates_in(n):
                raise NotUnderstood("writer inside %s" % k)
            return False
        for key, v in n.items():
            if key not in ("tokens", "k") and isinstance(v, (dict, list)):
                if run(v):
                    return True
        return False

    run(node)
    # adjacent literals merge
    merged = []
    for x in out:
        if x[0] == "lit" and merged and merged[-1][0] == "lit":
            merged[-1] = ("lit", merged[-1][1] + x[1])
        else:
            merged.append(x)
    return merged


def conjuncts(e):
    if e is None:
        return []
    if e.get("k") == "bin" and e["op"] == "&&":
        return conjuncts(e["l"]) + conjuncts(e["r"])
    return [e]


_FLIP = {">": "<", "<": ">", ">=": "<=", "<=": ">=", "==": "==", "!=": "!="}


def cmp_norm(c):
    """comparison with an integer literal, literal on the right: (op, expr, n) — `2 <= x.len()` reads as `x.len() >= 2`; else None"""
    if c is None or c.get("k") != "bin" or c["op"] not in _FLIP:
        return None
    if lit_int(c["r"]) is not None and c["r"].get("k") == "lit":
        return c["op"], c["l"], lit_int(c["r"])
    if lit_int(c["l"]) is not None and c["l"].get("k") == "lit":
        return _FLIP[c["op"]], c["r"], lit_int(c["l"])
    return None


def is_path(e, name=None):
    return e is not None and e.get("k") == "path" and (name is None or e["p"] == name)


def chain(e):
    """method chain: returns (root expr, [method names]) for a.b().c() ; index/try/ref steps are kept as '[..]', '?', """
    ms = []
    while True:
        k = e.get("k")
        if k == "mcall":
            ms.append(e["m"])
            e = e["recv"]
        elif k == "try":
            ms.append("?")
            e = e["e"]
        elif k == "ref":
            e = e["e"]
        else:
            break
    return e, list(reversed(ms))


def shape(e):
    """variable-free rendering of an expression for violation keys"""
    k = e.get("k")
    if k == "path":
        return "_" if "::" not in e["p"] else e["p"]
    if k == "mcall":
        return "%s.%s()" % (shape(e["recv"]), e["m"])
    if k == "index":
        return "%s[..]" % shape(e["e"])
    if k == "try":
        return shape(e["e"]) + "?"
    if k == "ref":
        return shape(e["e"])
    if k == "field":
        return "%s.%s" % (shape(e["e"]), e["name"])
    if k == "call":
        return "%s(..)" % shape(e["f"])
    if k == "macro":
        return "%s!" % e["short"]
    if k == "lit":
        return "lit"
    return "<%s>" % k


def pat_strings(p):
    """string literals of a pattern made only of string literals, else None"""
    if p["k"] == "lit" and p["e"].get("t") == "str":
        return [p["e"]["v"]]
    if p["k"] == "or":
        out = []
        for c in p["cases"]:
            s = pat_strings(c)
            if s is None:
                return None
            out += s
        return out
    return None


def pat_chars(p):
    """set of chars matched by a char pattern (literals, inclusive ranges, or-patterns, x @ sub); None = not a char pattern;
    'ANY' for wildcard / plain binding"""
    k = p["k"]
    if k == "lit" and p["e"].get("t") == "char":
        return {chr(p["e"]["v"])}
    if k == "range":
        lo, hi = lit_int(p["lo"]), lit_int(p["hi"])
        if lo is None or hi is None or (p["lo"] or {}).get("t") != "char":
            return None
        return {chr(c) for c in range(lo, hi + (1 if p["incl"] else 0))}
    if k == "or":
        out = set()
        for c in p["cases"]:
            s = pat_chars(c)
            if s is None or s == "ANY":
                return s
            out |= s
        return out
    if k == "ident":
        if p.get("sub"):
            return pat_chars(p["sub"])
        return "ANY"
    if k == "wild":
        return "ANY"
    if k == "ref":
        return pat_chars(p["pat"])
    return None


def pat_binding(p):
    """names bound by a char pattern (c @ 'a'..='z' | c @ '0'..='9' binds c)"""
    out = set()
    if p["k"] == "ident":
        out.add(p["name"])
    elif p["k"] == "or":
        bs = [pat_binding(c) for c in p["cases"]]
        out = set.intersection(*bs) if bs else set()
    elif p["k"] == "ref":
        out = pat_binding(p["pat"])
    return out


def tail(e):
    """value expression of a block / expression"""
    while e is not None and e.get("k") == "block":
        st = e["stmts"]
        if not st or st[-1]["k"] != "expr" or st[-1]["semi"]:
            return None
        e = st[-1]["e"]
    return e


def is_err_exit(e):
    """`return Err(..)` / `Err(..)?` / break (the arm yields no key)"""
    e = tail(e) if e.get("k") == "block" else e
    if e is None:
        return False
    if e.get("k") == "return" and e.get("e") and e["e"].get("k") == "call" and is_path(e["e"]["f"]) and e["e"]["f"]["p"].endswith("Err"):
        return True
    return False


def first_match(node, pred):
    ms = find_all(node, lambda n: n.get("k") == "match" and pred(n))
    return ms[0] if ms else None


# ------------------------------------------------------------------------------------------------
# Key::from_str: attribute -> modifier flag table, wherever it is written
# ------------------------------------------------------------------------------------------------
STR_NORMALISERS = {"to_lowercase", "to_ascii_lowercase", "as_ref", "as_str", "trim", "borrow", "deref", "to_string", "to_owned", "clone"}


def block_lets(node):
    """name -> [let nodes] for the simple `let name = init;` bindings below node"""
    lets = {}
    for n in find_all(node, lambda n: n.get("k") == "let" and (n.get("pat") or {}).get("k") == "ident" and n.get("init") and not n.get("else")):
        lets.setdefault(n["pat"]["name"], []).append(n)
    return lets


def alias_chain(e, lets, used=()):
    """chain(e) with `let` aliases substituted (a shadowing `let attr = attr.to_lowercase();` is followed once): (root, [methods])"""
    r, ms = chain(unref(e))
    if is_path(r):
        cand = [l for l in lets.get(r["p"], []) if id(l) not in used and l.get("line", 0) <= e.get("line", 1 << 30)]
        if len(cand) == 1:
            r2, ms2 = alias_chain(cand[0]["init"], lets, used + (id(cand[0]),))
            return r2, ms2 + ms
        if len(cand) > 1:
            raise NotUnderstood("several bindings of %s" % r["p"])
    return r, ms


def single_expr(b):
    """the one expression of `expr` / `{ expr }` / `{ expr; }`, else None"""
    while b is not None and b.get("k") == "block":
        st = [x for x in b["stmts"]]
        if len(st) != 1 or st[0]["k"] != "expr":
            return None
        b = st[0]["e"]
    return b


def or_into(b):
    """`acc |= X` / `acc = acc | X` / `acc = X | acc` / `acc.insert(X)` -> (acc name, X path) else None"""
    b = single_expr(b)
    if b is None:
        return None
    if b.get("k") == "bin" and b["op"] == "|=" and is_path(b["l"]) and is_path(b["r"]):
        return b["l"]["p"], b["r"]["p"]
    if b.get("k") == "assign" and is_path(b["l"]) and b["r"].get("k") == "bin" and b["r"]["op"] == "|":
        l, r = b["r"]["l"], b["r"]["r"]
        if is_path(l, b["l"]["p"]) and is_path(r):
            return b["l"]["p"], r["p"]
        if is_path(r, b["l"]["p"]) and is_path(l):
            return b["l"]["p"], l["p"]
    if b.get("k") == "mcall" and b["m"] == "insert" and is_path(b["recv"]) and len(b["args"]) == 1 and is_path(b["args"][0]):
        return b["recv"]["p"], b["args"][0]["p"]
    return None


def is_none_exit(e, allow_value=True):
    e = single_expr(e)
    if e is None:
        return False
    if e.get("k") == "return" and e.get("e") is not None and is_path(e["e"], "None"):
        return True
    return allow_value and is_path(e, "None")


def string_flag_table(helper, pname):
    """private helper `fn(.., name: &str, ..) -> Option<Flag>` written as a match on the (normalised) string:
    `Some(match name { "a" => F::A, .., _ => return None })` or `match name { "a" => Some(F::A), .., _ => None }`.
    Returns ({name: (flag const, line)}, lowered-inside)."""
    hlets = block_lets(helper["body"])
    muts = mut_names(helper)

    def through_let(e):
        """`let flag = match ..; Some(flag)` / `let r = ..; r`: an immutable local bound once stands for its initialiser"""
        for _ in range(4):
            if e is not None and e.get("k") == "paren":
                e = e["e"]
            elif is_path(e) and e["p"] not in muts and e["p"] != pname and len(hlets.get(e["p"], ())) == 1:
                e = single_expr(hlets[e["p"]][0]["init"])
            else:
                break
        return e
    e = tail(helper["body"])
    if e is not None and e.get("k") == "return":
        e = e.get("e")
    e = through_let(e)
    wrapped = False
    if e is not None and e.get("k") == "call" and is_path(e["f"], "Some") and len(e["args"]) == 1:
        wrapped, e = True, through_let(single_expr(e["args"][0]))
    if e is None or e.get("k") != "match":
        raise NotUnderstood("helper %s is not a match on its string argument" % helper["name"])
    r, ms = alias_chain(e["e"], block_lets(helper["body"]))
    if not is_path(r, pname) or not set(ms) <= STR_NORMALISERS:
        raise NotUnderstood("helper %s matches on %s" % (helper["name"], expr_text(e["e"])))
    tab = {}
    closed = False
    for arm in e["arms"]:
        strs = pat_strings(arm["pat"])
        if strs is not None and arm["guard"] is None:
            v = single_expr(arm["body"])
            if not wrapped:
                if v is not None and v.get("k") == "return":
                    v = v.get("e")
                v = v["args"][0] if v is not None and v.get("k") == "call" and is_path(v["f"], "Some") and len(v["args"]) == 1 else None
            if not is_path(v):
                raise NotUnderstood("helper %s: value of arm %s" % (helper["name"], pat_text(arm["pat"])))
            for s in strs:
                tab.setdefault(s, (v["p"].split("::")[-1], arm["line"]))
        elif arm["pat"]["k"] in ("wild", "ident") and arm["guard"] is None and is_none_exit(arm["body"], allow_value=not wrapped):
            closed = True
            break
        else:
            raise NotUnderstood("helper %s: arm %s" % (helper["name"], pat_text(arm["pat"])))
    if not closed:
        raise NotUnderstood("helper %s has no `_ => None` arm" % helper["name"])
    return tab, bool({"to_lowercase", "to_ascii_lowercase"} & set(ms))


def local_fns(src, file, name, encl=None):
    """private helper fns called `name` visible from a fn of `file`: free / inherent fns of the file and fn items nested inside
    the enclosing fn `encl` (a helper declared inside the function that uses it is the same helper)"""
    out = [it for (f, s, tr, it, t) in src.fns if f == file and not t and tr is None and it["name"] == name]
    if encl is not None:
        out += [n for n in find_all(encl, lambda n: n.get("k") == "fn" and n is not encl and n.get("name") == name and n.get("body"))
                if not any(n is o for o in out)]
    return out


def modifier_dispatch(src, file, lp, avar, encl=None):
    """The modifier table of the attribute loop of Key::from_str, decided on what it maps and not on where it is written:
    (A) `match <attr chain> { "name" => acc |= FLAG, .., other => <key name> }`, or (B) a same-file helper
    `fn(&str) -> Option<KeyMod>` holding the string match, consumed by `match helper(<attr chain>) { Some(f) => acc |= f, None => <key name> }`,
    `if let Some(f) = helper(..) { acc |= f } else { <key name> }` or `if let Some(f) = helper(..) { acc |= f; continue; } <key name>`.
    <attr chain> may go through `let` aliases.  Returns (lowered, {name: (flag, line, acc)}, key-name arm)."""
    body = lp["body"]
    lets = block_lets(body)

    def attr_chain(e):
        r, ms = alias_chain(e, lets)
        if is_path(r, avar) and set(ms) <= STR_NORMALISERS:
            return ms
        return None

    # ---- (A) direct match on the attribute
    for m in find_all(body, lambda n: n.get("k") == "match"):
        ms = attr_chain(m["e"])
        if ms is None:
            continue
        mod_parse, key_default = {}, None
        for arm in m["arms"]:
            strs = pat_strings(arm["pat"])
            if strs is not None:
                acc = or_into(arm["body"])
                if acc is None or arm["guard"] is not None:
                    raise NotUnderstood("modifier arm body %s" % expr_text(arm["body"]))
                for s in strs:
                    mod_parse.setdefault(s, (acc[1].split("::")[-1], arm["line"], acc[0]))
            elif arm["pat"]["k"] in ("ident", "wild") and arm["guard"] is None:
                key_default = arm
                break
            else:
                raise NotUnderstood("arm %s" % pat_text(arm["pat"]))
        if key_default is None:
            raise NotUnderstood("no key-name arm")
        return bool({"to_lowercase", "to_ascii_lowercase"} & set(ms)), mod_parse, key_default

    # ---- (B) Option-returning helper
    def helper_call(e):
        e = unref(e)
        if e is None or e.get("k") != "call" or not is_path(e["f"]):
            return None
        name = e["f"]["p"].split("::")[-1]
        cands = local_fns(src, file, name, encl)
        if len(cands) != 1:
            return None
        for i, a in enumerate(e["args"]):
            ms = attr_chain(a)
            if ms is not None:
                inputs = [x for x in cands[0]["sig"]["inputs"] if isinstance(x, dict) and x.get("name") not in (None, "self")]
                if i < len(inputs):
                    tab, low = string_flag_table(cands[0], inputs[i]["name"])
                    return tab, low or bool({"to_lowercase", "to_ascii_lowercase"} & set(ms))
        return None

    def some_binding(p):
        if p.get("k") == "tstruct" and p["path"].split("::")[-1] == "Some" and len(p["elems"]) == 1 and p["elems"][0]["k"] == "ident" and not p["elems"][0].get("sub"):
            return p["elems"][0]["name"]
        return None

    def finish(hc, var, some_body, default, line):
        acc = or_into(some_body)
        if acc is None:
            # `{ acc |= f; continue; }`
            if some_body.get("k") == "block" and len(some_body["stmts"]) == 2 and some_body["stmts"][1]["k"] == "expr" \
                    and some_body["stmts"][1]["e"].get("k") == "continue" and some_body["stmts"][0]["k"] == "expr":
                acc = or_into(some_body["stmts"][0]["e"])
        if acc is None or acc[1] != var:
            raise NotUnderstood("the Some arm of the modifier lookup does not accumulate the flag: %s" % expr_text(some_body))
        tab, low = hc
        return low, {s: (fl, ln, acc[0]) for s, (fl, ln) in tab.items()}, {"body": default, "line": line}

    for m in find_all(body, lambda n: n.get("k") == "match"):
        hc = helper_call(m["e"])
        if hc is None:
            continue
        some = [a for a in m["arms"] if some_binding(a["pat"]) and a["guard"] is None]
        rest = [a for a in m["arms"] if a not in some]
        if len(some) != 1 or len(rest) != 1 or rest[0]["guard"] is not None or not (
                rest[0]["pat"]["k"] == "wild" or (rest[0]["pat"]["k"] in ("path", "ident") and (rest[0]["pat"].get("p") or rest[0]["pat"].get("name")) == "None")):
            raise NotUnderstood("match on the modifier lookup: arms %s" % [pat_text(a["pat"]) for a in m["arms"]])
        return finish(hc, some_binding(some[0]["pat"]), some[0]["body"], rest[0]["body"], rest[0]["line"])
    for n in find_all(body, lambda n: n.get("k") == "if" and n["cond"].get("k") == "letcond" and some_binding(n["cond"]["pat"])):
        hc = helper_call(n["cond"]["e"])
        if hc is None:
            continue
        if n.get("else") is not None:
            return finish(hc, some_binding(n["cond"]["pat"]), n["then"], n["else"], n["line"])
        # no else: the Some branch must `continue`, the rest of the loop body is the key-name case
        st = n["then"].get("stmts", [])
        if not st or st[-1]["k"] != "expr" or st[-1]["e"].get("k") != "continue":
            raise NotUnderstood("if-let on the modifier lookup falls through into the key-name case")
        return finish(hc, some_binding(n["cond"]["pat"]), n["then"], body, n["line"])
    raise NotUnderstood("no match on the attribute")


# ------------------------------------------------------------------------------------------------
# KeyName tables
# ------------------------------------------------------------------------------------------------
def key_value(e, enum="KeyName"):
    """KeyName::X -> ("unit","X") ; KeyName::Char('c') -> ("char", c) ; else None"""
    e = tail(e) if e.get("k") == "block" else e
    if e is None:
        return None
    if is_path(e) and e["p"].startswith(enum + "::"):
        return ("unit", e["p"].split("::")[-1])
    if e.get("k") == "call" and is_path(e["f"]) and e["f"]["p"].startswith(enum + "::") and len(e["args"]) == 1:
        a = e["args"][0]
        if a.get("k") == "lit" and a["t"] == "char":
            return (e["f"]["p"].split("::")[-1].lower(), chr(a["v"]))
        if is_path(a):
            return (e["f"]["p"].split("::")[-1].lower() + "-var", a["p"])
    return None


def char_class_rows(inner, cvars, within, seen, rows):
    """`match c { CLASS => KeyName::Char(c), .., _ => return Err(..) }` for a char `c` already known to lie in `within` ("ANY" or a set)
    and not in `seen`: appends one "chars" row per key-yielding arm (first-match semantics: chars of earlier arms, rejecting ones
    included, are removed).  `cvars`: names the matched char is bound to."""
    local = set()
    for a2 in inner["arms"]:
        cs = pat_chars(a2["pat"])
        if cs is None or a2["guard"] is not None:
            raise NotUnderstood("char class pattern %s" % pat_text(a2["pat"]))
        if is_err_exit(a2["body"]):
            if cs == "ANY":
                break
            local |= cs
            continue
        v = key_value(a2["body"])
        if v is None or v[0] != "char-var" or (v[1] not in cvars and v[1] not in pat_binding(a2["pat"])) or cs == "ANY":
            raise NotUnderstood("char class arm value %s" % pat_text(a2["pat"]))
        eff = cs if within == "ANY" else (cs & within)
        rows.append({"kind": "chars", "set": sorted(eff - seen - local), "pat": pat_text(a2["pat"]), "line": a2["line"]})
        local |= cs


def single_char_tuple_rows(body, names):
    """`let mut it = S.chars(); match (it.next(), it.next()) { (Some(c @ CLASS), None) => KeyName::Char(c), .., _ => return Err(..) }`:
    exactly the strings of one character, classified by CLASS — the meaning of `S.chars().count() == 1` +
    `S.chars().next().unwrap()` + `match c`."""
    if body.get("k") != "block":
        raise NotUnderstood("catch-all arm is not an error exit")
    lets = block_lets(body)
    ms = [m for m in find_all(body, lambda n: n.get("k") == "match") if m["e"].get("k") == "tuple"]
    if len(ms) != 1 or tail(body) is not ms[0]:
        raise NotUnderstood("catch-all arm is neither an error exit nor a match on (it.next(), it.next())")
    m = ms[0]
    el = m["e"]["elems"]
    if not (len(el) == 2 and all(x.get("k") == "mcall" and x["m"] == "next" and not x["args"] and is_path(x["recv"]) for x in el)
            and el[0]["recv"]["p"] == el[1]["recv"]["p"]):
        raise NotUnderstood("single-character arm: scrutinee %s" % expr_text(m["e"]))
    it = el[0]["recv"]["p"]
    its = lets.get(it, [])
    if len(its) != 1 or chain(its[0]["init"])[1] != ["chars"] or chain(its[0]["init"])[0].get("p") not in names:
        raise NotUnderstood("single-character arm: %s is not S.chars()" % it)
    # nothing else may advance the iterator
    if len(find_all(body, lambda n: is_path(n, it))) != 2:
        raise NotUnderstood("single-character arm: the char iterator is used elsewhere")
    rows, seen = [], set()
    closed = False
    for a2 in m["arms"]:
        pt = a2["pat"]
        if a2["guard"] is not None:
            raise NotUnderstood("guarded arm %s" % pat_text(pt))
        if pt["k"] in ("wild", "ident") and not pt.get("sub"):
            if not is_err_exit(a2["body"]):
                raise NotUnderstood("catch-all of the single-character match is not an error exit")
            closed = True
            break
        if pt["k"] != "tuple" or len(pt["elems"]) != 2:
            raise NotUnderstood("arm %s" % pat_text(pt))
        p0, p1 = pt["elems"]
        if is_err_exit(a2["body"]):
            # a rejecting arm: only the chars it removes from later one-char arms matter
            if p0["k"] == "tstruct" and p0["path"] == "Some" and len(p0["elems"]) == 1 and (p1["k"] == "wild" or (p1["k"] in ("ident", "path") and (p1.get("name") or p1.get("p")) == "None")):
                cs = pat_chars(p0["elems"][0])
                if cs is None:
                    raise NotUnderstood("char class pattern %s" % pat_text(pt))
                if cs == "ANY":
                    closed = True
                    break
                seen |= cs
            elif p0["k"] == "wild" and p1["k"] == "wild":
                closed = True
                break
            continue
        if not (p0["k"] == "tstruct" and p0["path"] == "Some" and len(p0["elems"]) == 1 and p1["k"] in ("ident", "path") and (p1.get("name") or p1.get("p")) == "None"):
            raise NotUnderstood("arm %s yields a key for something else than a one-character string" % pat_text(pt))
        cs = pat_chars(p0["elems"][0])
        if cs is None:
            raise NotUnderstood("char class pattern %s" % pat_text(pt))
        binds = {x["name"] for x in find_all(p0["elems"][0], lambda n: n.get("k") == "ident" and not n.get("mut"))} if cs == "ANY" else pat_binding(p0["elems"][0])
        nested = single_expr(a2["body"])
        if nested is not None and nested.get("k") == "match" and is_path(unref(nested["e"])) and unref(nested["e"])["p"] in binds:
            # `(Some(c), None) => match c { CLASS => KeyName::Char(c), .., _ => return Err(..) }`: the classes are decided one level down
            char_class_rows(nested, {unref(nested["e"])["p"]}, cs, set(seen), rows)
        else:
            v = key_value(a2["body"])
            if cs == "ANY" or v is None or v[0] != "char-var" or v[1] not in binds:
                raise NotUnderstood("char class arm value %s" % pat_text(pt))
            rows.append({"kind": "chars", "set": sorted(cs - seen), "pat": pat_text(p0["elems"][0]), "line": a2["line"]})
        if cs == "ANY":
            # every one-character string is decided by this arm; whatever follows sees none
            closed_after_any = [x for x in m["arms"][m["arms"].index(a2) + 1:]]
            if any(not is_err_exit(x["body"]) for x in closed_after_any) or not closed_after_any:
                raise NotUnderstood("arms after %s" % pat_text(pt))
            closed = True
            break
        seen |= cs
    if not closed:
        raise NotUnderstood("single-character match has no rejecting catch-all")
    return rows


def parse_table_keyname(fn):
    """rows of KeyName::from_str in match order"""
    param = fn["sig"]["inputs"][0]["name"]
    m = first_match(fn["body"], lambda n: chain(n["e"])[0].get("p") == param)
    if m is None:
        raise NotUnderstood("no match on the input string")
    root, ms = chain(m["e"])
    if not set(ms) <= {"to_lowercase", "to_ascii_lowercase", "as_ref", "as_str", "trim"}:
        raise NotUnderstood("scrutinee normalisation %s" % ms)
    lower = "to_lowercase" in ms or "to_ascii_lowercase" in ms
    rows = []
    for arm in m["arms"]:
        p = arm["pat"]
        strs = pat_strings(p)
        if strs is not None and arm["guard"] is None:
            v = key_value(arm["body"])
            if v is None or v[0] not in ("unit", "char"):
                raise NotUnderstood("value of arm %s" % pat_text(p))
            for s in strs:
                rows.append({"kind": "name", "s": s, "val": v, "line": arm["line"]})
            continue
        if p["k"] == "ident" and arm["guard"] is not None:
            g = conjuncts(arm["guard"])
            var = p["name"]
            # --- F-key arm:  v.starts_with('f') && v.len() > 1 && S[1..].chars().all(|c| c.is_ascii_digit())
            sw = [c for c in g if c.get("k") == "mcall" and c["m"] == "starts_with" and is_path(c["recv"]) and c["recv"]["p"] in (var, param)
                  and len(c["args"]) == 1 and c["args"][0].get("t") == "char"]
            if sw:
                prefix = chr(sw[0]["args"][0]["v"])
                len_ok = any(cn is not None and cn[0] in (">", ">=", "!=") and cn[1].get("k") == "mcall" and cn[1]["m"] == "len"
                             and is_path(cn[1]["recv"]) and cn[1]["recv"]["p"] in (var, param)
                             and cn[2] == {">": 1, ">=": 2, "!=": 1}[cn[0]] for cn in map(cmp_norm, g))
                digits = None
                for c in g:
                    if c.get("k") == "mcall" and c["m"] == "all" and c["recv"].get("k") == "mcall" and c["recv"]["m"] == "chars":
                        sl = c["recv"]["recv"]
                        cl = c["args"][0] if c["args"] else None
                        if (sl.get("k") == "index" and is_path(sl["e"]) and sl["e"]["p"] in (var, param) and sl["i"].get("k") == "range"
                                and lit_int(sl["i"]["lo"]) == len(prefix.encode()) and sl["i"]["hi"] is None
                                and cl and cl.get("k") == "closure" and cl["body"].get("k") == "mcall" and cl["body"]["m"] == "is_ascii_digit"):
                            digits = sl
                v = key_value(arm["body"])
                if digits is None or v is None or not v[0].endswith("-var"):
                    raise NotUnderstood("F-key arm shape")
                # the payload must be parsed from the same slice
                lets = [s for s in arm["body"].get("stmts", []) if s["k"] == "let" and s["pat"].get("name") == v[1]]
                if len(lets) != 1:
                    raise NotUnderstood("F-key payload binding")
                r2, ms2 = chain(lets[0]["init"])
                if "parse" not in ms2 or r2.get("k") != "index" or expr_text(r2) != expr_text(digits):
                    raise NotUnderstood("F-key payload is not parse() of the digit slice")
                rows.append({"kind": "fkey", "prefix": prefix, "variant": v[0][:-4], "len_gt": len_ok, "line": arm["line"]})
                continue
            # --- single character arm: v.chars().count() == 1
            cnt = [c for c, cn in ((c, cmp_norm(c)) for c in g) if cn is not None and cn[0] == "==" and cn[2] == 1 and chain(cn[1])[1] == ["chars", "count"]
                   and is_path(chain(cn[1])[0]) and chain(cn[1])[0]["p"] in (var, param)]
            if cnt and len(g) == 1:
                inner = first_match(arm["body"], lambda n: True)
                if inner is None or not is_path(inner["e"]):
                    raise NotUnderstood("single-character arm has no inner match")
                cvar = inner["e"]["p"]
                lets = [s for s in arm["body"].get("stmts", []) if s["k"] == "let" and s["pat"].get("name") == cvar]
                if len(lets) != 1 or chain(lets[0]["init"])[1][:2] != ["chars", "next"] or chain(lets[0]["init"])[0].get("p") not in (var, param):
                    raise NotUnderstood("single-character arm: char binding")
                char_class_rows(inner, {cvar}, "ANY", set(), rows)
                continue
            raise NotUnderstood("guarded arm %s" % pat_text(p))
        if p["k"] in ("wild", "ident") and arm["guard"] is None:
            if not is_err_exit(arm["body"]):
                # the single-character classes decided inside the catch-all arm (no count()/unwrap at all)
                names = {param} | ({p["name"]} if p["k"] == "ident" else set())
                rows.extend(single_char_tuple_rows(arm["body"], names))
            rows.append({"kind": "reject", "line": arm["line"]})
            break
        raise NotUnderstood("arm %s" % pat_text(p))
    return {"lower": lower, "rows": rows}


def parse_keyname(tab, s):
    """abstract evaluation of KeyName::from_str over the extracted table; returns key value or None (Err)"""
    t = s.lower() if tab["lower"] else s
    for r in tab["rows"]:
        if r["kind"] == "name":
            if t == r["s"]:
                return r["val"]
        elif r["kind"] == "fkey":
            rest = s[len(r["prefix"]):]
            if t.startswith(r["prefix"]) and (len(t.encode()) > 1 or not r["len_gt"]) and all(c in "0123456789" for c in rest):
                if rest == "":
                    return ("PANIC", "parse of empty digit string")
                return ("f", int(rest))
        elif r["kind"] == "chars":
            if len(t) == 1 and t in r["set"]:
                return ("char", t)
        elif r["kind"] == "reject":
            return None
    return None


def print_table_keyname(fn):
    """Debug for KeyName: variant -> template ; Char -> ordered [(charset|'ANY', template)]"""
    m = first_match(fn["body"], lambda n: is_path(unref(n["e"]), "self"))
    if m is None:
        raise NotUnderstood("no match on self")
    tab = {"unit": {}, "char": None, "payload": {}}
    for arm in m["arms"]:
        p = arm["pat"]
        if p["k"] == "ref":
            p = p["pat"]
        if p["k"] == "path":
            ts = templates_in(arm["body"])
            if len(ts) != 1 or any(x[0] != "lit" for x in ts[0][1]):
                raise NotUnderstood("template of %s" % pat_text(p))
            tab["unit"][p["p"].split("::")[-1]] = "".join(x[1] for x in ts[0][1])
        elif p["k"] == "tstruct" and len(p["elems"]) == 1 and p["elems"][0]["k"] == "ident":
            var = p["elems"][0]["name"]
            vname = p["path"].split("::")[-1]
            b = arm["body"]
            inner = b if b.get("k") == "match" else None
            if inner is not None and is_path(unref(inner["e"]), var):
                rows = []
                for a2 in inner["arms"]:
                    cs = pat_chars(a2["pat"])
                    ts = templates_in(a2["body"])
                    if cs is None or len(ts) != 1 or a2["guard"] is not None:
                        raise NotUnderstood("Char arm %s" % pat_text(a2["pat"]))
                    rows.append((cs, holes_to(ts[0][1], var), pat_text(a2["pat"])))
                tab["char"] = (vname, rows)
            else:
                ts = templates_in(b)
                if len(ts) != 1:
                    raise NotUnderstood("template of %s" % pat_text(p))
                tab["payload"][vname] = holes_to(ts[0][1], var)
        else:
            raise NotUnderstood("Debug arm %s" % pat_text(p))
    return tab


def holes_to(tpl, var):
    """template whose holes must all be the payload variable `var` printed with {} or {:?}"""
    out = []
    for x in tpl:
        if x[0] == "lit":
            out.append(x)
        else:
            e = unref(x[1])
            if not is_path(e, var) or x[2] not in ("", "?"):
                raise NotUnderstood("hole %s with spec %r" % (expr_text(x[1]), x[2]))
            out.append(("hole", x[2]))
    return out


def render(tpl, value, kind):
    s = ""
    for x in tpl:
        if x[0] == "lit":
            s += x[1]
        elif kind == "char":
            s += value if x[1] == "" else ("'%s'" % value)
        else:
            s += str(value)
    return s


def print_keyname(tab, v):
    if v[0] == "unit":
        return tab["unit"].get(v[1])
    if v[0] == "char" and tab["char"]:
        for cs, tpl, _ in tab["char"][1]:
            if cs == "ANY" or v[1] in cs:
                return render(tpl, v[1], "char")
        return None
    if v[0] == "f":
        tpl = tab["payload"].get("F")
        return render(tpl, v[1], "int") if tpl else None
    return None


# ------------------------------------------------------------------------------------------------
# panic-site scan (structural)
# ------------------------------------------------------------------------------------------------
def scan_sites(fn):
    """every unwrap/expect/panic-macro/index site of a fn body with the conditions known to hold there:
    facts = conjuncts of enclosing if-conditions / match guards / left operands of &&, binds = immutable `x = init` bindings"""
    sites = []

    def rec(n, facts, binds):
        if isinstance(n, list):
            for v in n:
                rec(v, facts, binds)
            return
        if not isinstance(n, dict):
            return
        k = n.get("k")
        if k == "bin" and n["op"] == "&&":
            rec(n["l"], facts, binds)
            rec(n["r"], facts + conjuncts(n["l"]), binds)
            return
        if k == "if":
            rec(n["cond"], facts, binds)
            rec(n["then"], facts + conjuncts(n["cond"]), binds)
            rec(n["else"], facts, binds)
            return
        if k == "match":
            rec(n["e"], facts, binds)
            for arm in n["arms"]:
                b2 = binds
                if arm["pat"]["k"] == "ident" and not arm["pat"]["mut"] and not arm["pat"].get("sub"):
                    b2 = dict(binds)
                    b2[arm["pat"]["name"]] = n["e"]
                rec(arm["guard"], facts, b2)
                rec(arm["body"], facts + conjuncts(arm["guard"]), b2)
            return
        if k == "block":
            b2 = dict(binds)
            for st in n["stmts"]:
                if st["k"] == "let":
                    rec(st["init"], facts, b2)
                    rec(st["else"], facts, b2)
                    if st["pat"]["k"] == "ident" and not st["pat"]["mut"] and st["init"] is not None:
                        b2[st["pat"]["name"]] = st["init"]
                elif st["k"] == "expr":
                    rec(st["e"], facts, b2)
                elif st["k"] == "item":
                    pass
            return
        if k == "mcall" and n["m"] in PANIC_METHODS:
            sites.append({"kind": n["m"], "node": n, "facts": facts, "binds": binds, "line": n["line"]})
        elif k == "macro" and n["short"] in PANIC_MACROS:
            sites.append({"kind": n["short"] + "!", "node": n, "facts": facts, "binds": binds, "line": n["line"]})
        elif k == "index":
            sites.append({"kind": "index", "node": n, "facts": facts, "binds": binds, "line": n["line"]})
        for key, v in n.items():
            if key not in ("tokens", "k") and isinstance(v, (dict, list)):
                rec(v, facts, binds)

    rec(fn["body"], [], {})
    return sites


def mut_names(fn):
    return {p["name"] for p in find_all(fn, lambda n: n.get("k") == "ident" and n.get("mut"))}


def judge_site(site, fn):
    """returns (idiom name, reason) when the site is safe by an accepted idiom, else None"""
    n = site["node"]
    facts = site["facts"]
    muts = mut_names(fn)
    if site["kind"] in ("unwrap", "expect"):
        root, ms = chain(n["recv"])
        # I1: X.chars().next().unwrap() under X.chars().count() == N (N >= 1)  |  !X.is_empty()
        if ms == ["chars", "next"] and is_path(root) and root["p"] not in muts:
            for f in facts:
                fn_ = cmp_norm(f)
                if fn_ is not None and fn_[0] in ("==", ">=", ">") and chain(fn_[1])[1] == ["chars", "count"] and expr_text(chain(fn_[1])[0]) == expr_text(root):
                    v = fn_[2]
                    if v is not None and (v >= 1 or (fn_[0] == ">" and v >= 0)):
                        return ("I1:count>=1", "%s.chars().count() %s %d implies the first next() is Some" % (root["p"], fn_[0], v))
                if f.get("k") == "un" and f["op"] == "!" and chain(f["e"])[1] == ["is_empty"] and expr_text(chain(f["e"])[0]) == expr_text(root):
                    return ("I1:non-empty", "!%s.is_empty() implies the first next() is Some" % root["p"])
        return None
    if site["kind"] == "index":
        e, i = n["e"], n["i"]
        # I2: S[n..] where a dominating guard says S (or its lower-cased copy) starts with a 1-byte char and n == 1
        if i.get("k") == "range" and i["hi"] is None and is_path(e) and e["p"] not in muts:
            lo = lit_int(i["lo"]) if i["lo"] else 0
            if lo == 0:
                return ("I2:from-0", "S[0..] is always in bounds and on a char boundary")
            for f in facts:
                if f.get("k") == "mcall" and f["m"] == "starts_with" and len(f["args"]) == 1 and f["args"][0].get("t") == "char" and is_path(f["recv"]):
                    c = chr(f["args"][0]["v"])
                    if len(c.encode()) != lo:
                        continue
                    t = f["recv"]["p"]
                    if t == e["p"]:
                        return ("I2:starts_with", "%s starts with %r (%d byte), so byte %d is a char boundary within bounds" % (t, c, lo, lo))
                    b = site["binds"].get(t)
                    if b is not None and t not in muts:
                        r2, ms2 = chain(b)
                        if is_path(r2, e["p"]) and set(ms2) <= {"to_lowercase", "to_ascii_lowercase", "as_ref", "as_str"}:
                            if ord(c) < 128 and (c not in LOWER_TO_ASCII_EXCEPTIONS or "to_lowercase" not in ms2):
                                return ("I2:lower-starts_with", "lower(%s) starts with ASCII %r and no non-ASCII char lower-cases to %r*, so %s starts "
                                        "with a 1-byte char" % (e["p"], c, c, e["p"]))
        return None
    return None


# ------------------------------------------------------------------------------------------------
def obligations(ctx):
    """Parser totality, numeric part: every overflow / division / bounds / library-precondition obligation reachable from the key and chord
    parsers and printers is discharged by the abstract interpreter.  The unwrap / str-slicing / panic! sites are the ones PANIC-SITE
    justifies by its guarded idioms (they need string reasoning the interpreter does not have), so they are excluded here by kind."""
    from .. import oblrules
    prog = ctx.prog
    entries = [b.path for b in prog.bodies if b.file == "src/keys.rs" and b.kind == "AssocFn"
               and re.search(r"^<keys::(Key|KeyChord|KeyName|KeyMod) as (std::str::FromStr>::from_str|std::fmt::(Display|Debug)>::fmt|serde::\w+<'de>>::deserialize|serde::\w+>::serialize)$", b.path)]
    oblrules.run(ctx, "TOTAL", entries, lossy=False, floor_bodies=0, unsafe=False,
                 kinds={"OVF", "DIV0", "BOUNDS", "BOUNDSCALL", "LIBPRE", "MAPIDX", "ASSERT"},
                 scope=lambda b: b.file == "src/keys.rs",
                 desc="no reachable overflow/division/bounds/precondition failure in the key and chord parsers and printers (unwrap/slice sites: PANIC-SITE)")


def run(ctx):
    src = ctx.src
    prog = ctx.prog
    ctx.explanation = (
        "Decides the table/shape clauses of C18 from the syn dump of src/keys.rs: NAME-ROUNDTRIP (each KeyName::from_str row s => k: "
        "parse(print(k)) == k, evaluated over the extracted match tables with first-match semantics and the to_lowercase normalisation), "
        "PRINT-PARSABLE (each Debug row parses back to itself, is outside the parsable domain, or is a print-only mouse name), MOD-ROUNDTRIP "
        "(KeyMod Debug array vs Key::from_str modifier arms, both directions, flag bits single and disjoint), SEPARATORS ('+' and ' ' agree "
        "between printer and parser, occur in no printable name; key names and modifier names are disjoint), SERDE-CHAIN (KeyChord "
        "Serialize = collect_str(Display), Deserialize = FromStr; Display impls delegate to the Debug tables), PANIC-SITE (every "
        "unwrap/expect/panic!/index in the parsers is guarded by idiom I1/I2 or reported; MIR call sites cross-checked). "
        "NOT decided: KeyMap::register/lookup/for_each/lookup_state semantics (histories of registrations and key sequences).")
    ctx.assume("std: usize Display/FromStr are mutually inverse for values that fit; str::to_lowercase follows the Unicode full lower-case mapping "
               "(only U+0130 and U+212A lower-case to a string starting with an ASCII letter)")
    ctx.assume("srcdump does not show field attributes; keys.rs has no serde field attributes (hand-written impls only)")
    ctx.exhaustive = True

    def fn(name, self_ty, trait):
        r = src.fn(name, impl_self=self_ty, impl_trait=trait, file=KEYS)
        return r[1] if r else None

    kn_from = fn("from_str", "KeyName", "FromStr")
    kn_dbg = fn("fmt", "KeyName", r"(fmt::)?Debug")
    kn_disp = fn("fmt", "KeyName", r"(fmt::)?Display")
    key_from = fn("from_str", "Key", "FromStr")
    key_dbg = fn("fmt", "Key", r"(fmt::)?Debug")
    key_disp = fn("fmt", "Key", r"(fmt::)?Display")
    mod_dbg = fn("fmt", "KeyMod", r"(fmt::)?Debug")
    mod_disp = fn("fmt", "KeyMod", r"(fmt::)?Display")
    ch_from = fn("from_str", "KeyChord", "FromStr")
    ch_disp = fn("fmt", "KeyChord", r"(fmt::)?Display")

    ctx.rule("NAME-ROUNDTRIP", "each KeyName::from_str row s => k: the same table maps Debug(k) back to k", floor=63)
    ctx.rule("PRINT-PARSABLE", "each KeyName Debug row parses back to its key, or the key is outside the parsable domain / a print-only mouse name", floor=27)
    ctx.rule("MOD-ROUNDTRIP", "KeyMod Debug names vs Key::from_str modifier arms are inverse; flags single-bit, disjoint", floor=16)
    ctx.rule("SEPARATORS", "'+' / ' ' agree between Debug/Display and from_str, appear in no name; key and modifier names disjoint", floor=8)
    ctx.rule("SERDE-CHAIN", "KeyChord Serialize -> collect_str(Display) ; Deserialize -> FromStr ; Display impls delegate to the Debug tables", floor=7)
    ctx.rule("PANIC-SITE", "every unwrap/expect/panic!/index site in the parsers is guarded by an accepted idiom (I1 chars().count()==1 / non-empty, I2 ASCII starts_with)", floor=2)  # 4 on the pinned tree; 3 once the expect() finding is fixed; 2 when the single-character arm needs no unwrap (completeness is cross-checked against MIR)

    # =========================== KeyName tables ===================================================
    ptab = dtab = None
    if kn_from is None or kn_dbg is None:
        ctx.anchor("NAME-ROUNDTRIP", "KeyName-impls", "KeyName FromStr/Debug impls not found in src/keys.rs")
    else:
        try:
            ptab = parse_table_keyname(kn_from)
        except NotUnderstood as e:
            ctx.anchor("NAME-ROUNDTRIP", "KeyName::from_str", "parse table not understood: %s" % e)
        try:
            dtab = print_table_keyname(kn_dbg)
        except NotUnderstood as e:
            ctx.anchor("NAME-ROUNDTRIP", "KeyName::Debug", "print table not understood: %s" % e)
    printable = []   # strings printed for keys of the parsable domain
    domain = set()
    if ptab and dtab:
        where = "KeyName::from_str"

        def roundtrip(rowname, k, line):
            p = print_keyname(dtab, k)
            back = parse_keyname(ptab, p) if p is not None else None
            ctx.instance("NAME-ROUNDTRIP", {"row": rowname, "key": list(k), "printed": p, "parsed_back": list(back) if back else None})
            if p is None:
                ctx.violation("NAME-ROUNDTRIP", where, "no-print:" + rowname, "key %s parsed from %r has no Debug row" % (k, rowname), sites=["%s:%d" % (KEYS, line)])
                return
            printable.append((p, k))
            if back != k:
                ctx.violation("NAME-ROUNDTRIP", where, "row:" + rowname,
                              "%r parses to %s, which prints as %r, which parses to %s: a chord written with this name does not survive Display -> FromStr"
                              % (rowname, k, p, back), sites=["%s:%d" % (KEYS, line)])

        for r in ptab["rows"]:
            if r["kind"] == "name":
                domain.add(r["val"])
                roundtrip(r["s"], r["val"], r["line"])
            elif r["kind"] == "chars":
                for c in r["set"]:
                    # the row must be selected by the table itself for this string (not shadowed by an earlier arm)
                    got = parse_keyname(ptab, c)
                    domain.add(got if got else ("char", c))
                    if got != ("char", c):
                        ctx.instance("NAME-ROUNDTRIP", {"row": "char:" + c, "shadowed_by": list(got) if got else None})
                        continue
                    roundtrip("char:" + ("U+%04X" % ord(c)), ("char", c), r["line"])
            elif r["kind"] == "fkey":
                # symbolic row: template must be <prefix literal><payload>; evaluated on boundary samples, the argument is uniform in n
                tpl = dtab["payload"].get("F")
                ok_shape = tpl is not None and len(tpl) == 2 and tpl[0][0] == "lit" and tpl[1][0] == "hole"
                bad = None
                if ok_shape:
                    shadow = [int(x["s"][len(r["prefix"]):]) for x in ptab["rows"] if x["kind"] == "name" and re.fullmatch(re.escape(r["prefix"]) + "[0-9]+", x["s"])]
                    for n in [0, 1, 9, 10, 12, 2 ** 32, 2 ** 64 - 1] + shadow:
                        p = print_keyname(dtab, ("f", n))
                        back = parse_keyname(ptab, p)
                        if back != ("f", n):
                            bad = (n, p, back)
                            break
                    printable.append((print_keyname(dtab, ("f", 12)), ("f", 12)))
                ctx.instance("NAME-ROUNDTRIP", {"row": "F(n)", "template": tpl, "parse_prefix": r["prefix"], "len_guard": r["len_gt"], "counterexample": bad})
                if not ok_shape:
                    ctx.violation("NAME-ROUNDTRIP", where, "row:F(n)-template", "Debug template of KeyName::F is not <literal><index>: %s" % (tpl,), sites=["%s:%d" % (KEYS, r["line"])])
                elif bad:
                    ctx.violation("NAME-ROUNDTRIP", where, "row:F(n)", "F(%d) prints as %r which parses to %s" % bad, sites=["%s:%d" % (KEYS, r["line"])])
                if not r["len_gt"]:
                    ctx.violation("NAME-ROUNDTRIP", where, "row:F(n)-bare-prefix", "the F-key arm accepts the bare prefix %r (no digit): parse of an empty digit string" % r["prefix"], sites=["%s:%d" % (KEYS, r["line"])])
        # ---- reverse direction over the Debug rows
        f_en = src.enum("KeyName", file=KEYS)
        variants = [v["name"] for v in f_en[1]["variants"]] if f_en else []
        mouse_fn = fn("is_mouse", "KeyName", "")
        mouse = set()
        if mouse_fn:
            for m in find_all(mouse_fn, lambda n: n.get("k") == "macro" and n["short"] == "matches"):
                pt = (m.get("extra") or {}).get("pat")
                if pt:
                    for c in (pt["cases"] if pt["k"] == "or" else [pt]):
                        if c["k"] in ("path", "ident"):
                            mouse.add((c.get("p") or c.get("name")).split("::")[-1])
        for v in variants:
            if v in dtab["unit"]:
                p = dtab["unit"][v]
                back = parse_keyname(ptab, p)
                in_dom = ("unit", v) in domain
                status = "inverse" if back == ("unit", v) else ("print-only-mouse" if back is None and v in mouse else ("print-only" if back is None else "captured"))
                ctx.instance("PRINT-PARSABLE", {"variant": v, "printed": p, "parsed_back": list(back) if back else None, "status": status, "in_parsable_domain": in_dom})
                if in_dom and status != "inverse":
                    ctx.violation("PRINT-PARSABLE", "KeyName::Debug", "row:" + v, "KeyName::%s is parsable but prints as %r, which KeyName::from_str maps to %s" % (v, p, back),
                                  sites=[KEYS])
                elif status in ("captured", "print-only"):
                    # outside the parsable domain: the property speaks only about chords that can be written in the syntax
                    ctx.note("KeyName::%s is outside the parsable domain (no string parses to it) and prints as %r, which parses to %s" % (v, p, back))
            elif dtab["char"] and v == dtab["char"][0]:
                for cs, tpl, ptxt in dtab["char"][1]:
                    sample = sorted(cs)[0] if cs != "ANY" else "é"
                    p = render(tpl, sample, "char")
                    back = parse_keyname(ptab, p)
                    in_dom = cs != "ANY" and all(("char", c) in domain for c in cs)
                    ctx.instance("PRINT-PARSABLE", {"variant": "Char[%s]" % ptxt, "sample_printed": p, "parsed_back": list(back) if back else None, "in_parsable_domain": in_dom})
                    if in_dom and back != ("char", sample):
                        ctx.violation("PRINT-PARSABLE", "KeyName::Debug", "char-class:" + ptxt, "Char(%r) prints as %r which parses to %s" % (sample, p, back), sites=[KEYS])
            elif v in dtab["payload"]:
                ctx.instance("PRINT-PARSABLE", {"variant": v + "(n)", "template": dtab["payload"][v], "checked_in": "NAME-ROUNDTRIP row F(n)"})
            else:
                ctx.violation("PRINT-PARSABLE", "KeyName::Debug", "missing:" + v, "KeyName::%s has no Debug row" % v, sites=[KEYS])

    # =========================== KeyMod tables ====================================================
    mod_print = None   # [(flag const, name)]
    mod_sep = None
    mod_parse = None   # name -> flag const
    key_split = None
    key_default = None
    key_lower = False
    if mod_dbg is None or key_from is None:
        ctx.anchor("MOD-ROUNDTRIP", "KeyMod-Debug/Key::from_str")
    else:
        try:
            fors = find_all(mod_dbg, lambda n: n.get("k") == "for")
            if len(fors) != 1:
                raise NotUnderstood("expected one for loop in KeyMod Debug")
            lp = fors[0]
            arr = unref(lp["iter"])
            r_it, ms_it = chain(arr) if arr.get("k") == "mcall" else (arr, [])
            if ms_it and set(ms_it) <= {"iter", "into_iter", "copied", "cloned"}:
                arr = unref(r_it)
            if is_path(arr):
                # a named table (const / static) instead of the literal
                cst = src.const(arr["p"].split("::")[-1], file=KEYS) or src.const(arr["p"].split("::")[-1], file=KEYS, impl_self="KeyMod")
                if cst is not None:
                    arr = unref(cst[1]["expr"])
            if arr.get("k") != "array" or lp["pat"]["k"] not in ("tuple", "ref"):
                raise NotUnderstood("KeyMod Debug does not iterate a literal array of (flag, name)")
            pt = lp["pat"]["pat"] if lp["pat"]["k"] == "ref" else lp["pat"]
            fvar, nvar = pt["elems"][0]["name"], pt["elems"][1]["name"]
            mod_print = []
            for el in arr["elems"]:
                if el.get("k") != "tuple" or not is_path(el["elems"][0]) or el["elems"][1].get("t") != "str":
                    raise NotUnderstood("array row %s" % expr_text(el))
                mod_print.append((el["elems"][0]["p"].split("::")[-1], el["elems"][1]["v"], el["line"]))
            if not find_all(lp["body"], lambda n: n.get("k") == "mcall" and n["m"] == "contains" and is_path(unref(n["args"][0]), fvar)):
                raise NotUnderstood("loop body does not test self.contains(flag)")
            # what is written for the first printed modifier and for a later one, whatever the control flow around the `first` flag
            flags = [st for st in find_all(mod_dbg, lambda n: n.get("k") == "let" and n["pat"]["k"] == "ident" and n["pat"].get("mut")
                                           and n.get("init") is not None and n["init"].get("k") == "lit" and n["init"].get("t") == "bool")]
            if len(flags) != 1:
                raise NotUnderstood("KeyMod Debug: expected one boolean first/separator flag")
            fname, finit = flags[0]["pat"]["name"], bool(flags[0]["init"]["v"])

            def in_loop(first):
                def value_of(c):
                    if is_path(c, fname):
                        return finit if first else (not finit)
                    if c is not None and c.get("k") == "mcall" and c["m"] == "contains":
                        return True
                    return None
                return path_template(lp["body"], value_of)
            t_first, t_rest = in_loop(True), in_loop(False)

            def name_only(t):
                return len(t) == 1 and t[0][0] == "hole" and is_path(unref(t[0][1]), nvar) and t[0][2] == ""
            if not name_only(t_first) or len(t_rest) != 2 or t_rest[0][0] != "lit" or not name_only(t_rest[1:]):
                raise NotUnderstood("KeyMod Debug: expected <name> for the first modifier and <separator><name> afterwards, got %s / %s"
                                    % ([x[:1] + ((expr_text(x[1]),) if x[0] == "hole" else (x[1],)) for x in t_first], [x[:1] + ((expr_text(x[1]),) if x[0] == "hole" else (x[1],)) for x in t_rest]))
            mod_sep = t_rest[0][1]
        except NotUnderstood as e:
            ctx.anchor("MOD-ROUNDTRIP", "KeyMod::Debug", str(e))
            mod_print = None
        try:
            fors = find_all(key_from, lambda n: n.get("k") == "for")
            if len(fors) != 1:
                raise NotUnderstood("expected one for loop in Key::from_str")
            lp = fors[0]
            r0, ms0 = chain(lp["iter"])
            param = key_from["sig"]["inputs"][0]["name"]
            if ms0 != ["split"] or not is_path(r0, param) or lp["iter"]["args"][0].get("t") != "char":
                raise NotUnderstood("Key::from_str does not iterate string.split(<char>)")
            key_split = chr(lp["iter"]["args"][0]["v"])
            avar = lp["pat"]["name"]
            key_lower, mod_parse, key_default = modifier_dispatch(src, KEYS, lp, avar, encl=key_from)
            if key_default is None:
                raise NotUnderstood("no key-name arm")
        except NotUnderstood as e:
            ctx.anchor("MOD-ROUNDTRIP", "Key::from_str", str(e))
            mod_parse = None
    bits = {}
    for (f, s, it, t) in src.consts:
        if f == KEYS and s == "KeyMod" and not t and it["expr"].get("k") == "struct":
            for fl in it["expr"]["fields"]:
                if fl["name"] == "bits" and lit_int(fl["e"]) is not None:
                    bits[it["name"]] = lit_int(fl["e"])
    if mod_print is not None and mod_parse is not None:
        lowered = (lambda s: s.lower()) if key_lower else (lambda s: s)
        for flag, name, line in mod_print:
            got = mod_parse.get(lowered(name))
            ctx.instance("MOD-ROUNDTRIP", {"dir": "print->parse", "flag": flag, "name": name, "parsed_flag": got[0] if got else None, "bits": bits.get(flag)})
            if got is None:
                ctx.violation("MOD-ROUNDTRIP", "KeyMod::Debug", "unparsable:" + name, "modifier %s prints as %r which Key::from_str does not accept as a modifier" % (flag, name), sites=["%s:%d" % (KEYS, line)])
            elif got[0] != flag:
                ctx.violation("MOD-ROUNDTRIP", "KeyMod::Debug", "row:" + name, "modifier %s prints as %r which Key::from_str maps to %s" % (flag, name, got[0]), sites=["%s:%d" % (KEYS, line)])
            b = bits.get(flag)
            if b is None or b == 0 or b & (b - 1):
                ctx.violation("MOD-ROUNDTRIP", "KeyMod", "bits:" + flag, "KeyMod::%s is not a single-bit constant (%s): contains() would not identify it" % (flag, b), sites=["%s:%d" % (KEYS, line)])
        fl = [f for f, _, _ in mod_print]
        for f in set(fl):
            if fl.count(f) > 1:
                ctx.violation("MOD-ROUNDTRIP", "KeyMod::Debug", "duplicate:" + f, "KeyMod::%s is listed twice in the Debug table" % f, sites=[KEYS])
        bl = [bits.get(f) for f in set(fl)]
        if len(set(bl)) != len(bl):
            ctx.violation("MOD-ROUNDTRIP", "KeyMod", "bits-overlap", "two printed modifier flags share their bit", sites=[KEYS])
        by_flag = {}
        for flag, name, line in mod_print:
            by_flag.setdefault(flag, name)
        for name, (flag, line, _) in sorted(mod_parse.items()):
            pn = by_flag.get(flag)
            back = mod_parse.get(lowered(pn)) if pn is not None else None
            ctx.instance("MOD-ROUNDTRIP", {"dir": "parse->print", "name": name, "flag": flag, "printed": pn, "parsed_back": back[0] if back else None})
            if pn is None:
                ctx.violation("MOD-ROUNDTRIP", "Key::from_str", "unprinted:" + name, "modifier name %r sets %s, which KeyMod Debug never prints: the modifier is lost on Display" % (name, flag), sites=["%s:%d" % (KEYS, line)])
            elif back is None or back[0] != flag:
                ctx.violation("MOD-ROUNDTRIP", "Key::from_str", "row:" + name, "modifier name %r sets %s, printed as %r, parsed back as %s" % (name, flag, pn, back and back[0]), sites=["%s:%d" % (KEYS, line)])

    # =========================== separators =======================================================
    def sep_instance(what, printed, parsed, where, line=None):
        ok = printed is not None and printed == parsed
        ctx.instance("SEPARATORS", {"what": what, "printed": printed, "parsed": parsed, "agree": ok})
        if not ok:
            ctx.violation("SEPARATORS", where, what, "%s: the printer writes %r but the parser splits on %r" % (what, printed, parsed),
                          sites=["%s:%d" % (KEYS, line)] if line else [KEYS])

    key_sep = None
    if key_dbg is None:
        ctx.anchor("SEPARATORS", "Key::Debug")
    else:
        try:
            def mode_empty(c):
                if c is not None and c.get("k") == "mcall" and c["m"] == "is_empty" and not c["args"] and expr_text(unref(c["recv"])) == "self.mode":
                    return True
                if c is not None and c.get("k") == "bin" and c["op"] in ("==", "!=") and {expr_text(unref(c["l"])), expr_text(unref(c["r"]))} in ({"self.mode", "KeyMod::EMPTY"}, {"self.mode", "Self::EMPTY"}):
                    return c["op"] == "=="
                return None
            # the text written when the key has no modifiers / has modifiers, whatever the control flow that selects it
            def when(empty):
                def value_of(c):
                    t = mode_empty(c)
                    return None if t is None else (t == empty)
                return path_template(key_dbg["body"], value_of)
            et, ft = when(True), when(False)
            if et == ft:
                raise NotUnderstood("no branch on self.mode.is_empty()")
            if [(x[0], expr_text(unref(x[1])) if x[0] == "hole" else x[1]) for x in et] != [("hole", "self.name")]:
                raise NotUnderstood("empty-mode template %s" % (et,))
            holes = [expr_text(unref(x[1])) for x in ft if x[0] == "hole"]
            lits = [x[1] for x in ft if x[0] == "lit"]
            if sorted(holes) != ["self.mode", "self.name"] or len(lits) != 1 or ft[1][0] != "lit" or any(x[2] not in ("", "?") for x in et + ft if x[0] == "hole"):
                raise NotUnderstood("modifier template %s" % ([(x[0], expr_text(x[1]) if x[0] == "hole" else x[1]) for x in ft],))
            key_sep = lits[0]
        except NotUnderstood as e:
            ctx.anchor("SEPARATORS", "Key::Debug", str(e))
    if key_sep is not None and key_split is not None:
        sep_instance("key-separator", key_sep, key_split, "Key::Debug", key_dbg["line"])
    if mod_sep is not None and key_split is not None:
        sep_instance("modifier-separator", mod_sep, key_split, "KeyMod::Debug", mod_dbg["line"])
    chord_sep = chord_split = chord_model = None
    if ch_disp is None or ch_from is None:
        ctx.anchor("SEPARATORS", "KeyChord-Display/from_str")
    else:
        try:
            chord_model = chord_display_model(src, KEYS, ch_disp)
            if chord_model["key_templates"] < 1 or chord_model["loops"] < 1 or len(set(chord_model["seps"])) != 1:
                raise NotUnderstood("KeyChord Display: expected key writes inside an iteration over self's keys and one separator literal; got %s" % (chord_model,))
            chord_sep = chord_model["seps"][0]
            sp = find_all(ch_from, lambda n: n.get("k") == "mcall" and n["m"] == "split")
            param = ch_from["sig"]["inputs"][0]["name"]
            if len(sp) != 1 or not is_path(sp[0]["recv"], param) or sp[0]["args"][0].get("t") not in ("char", "str"):
                raise NotUnderstood("KeyChord::from_str does not split its input on a literal")
            a = sp[0]["args"][0]
            chord_split = chr(a["v"]) if a["t"] == "char" else a["v"]
            if not find_all(ch_from, lambda n: is_path(n) and re.fullmatch(r"Key::from_str|<Key as FromStr>::from_str|str::parse::<Key>", n["p"])) and \
               not find_all(ch_from, lambda n: n.get("k") == "mcall" and n["m"] == "parse" and "Key" in (n.get("turbofish") or "")):
                raise NotUnderstood("KeyChord::from_str does not parse its segments with Key::from_str")
        except NotUnderstood as e:
            ctx.anchor("SEPARATORS", "KeyChord", str(e))
    if chord_sep is not None:
        sep_instance("chord-separator", chord_sep, chord_split, "KeyChord::Display", ch_disp["line"])
    # names free of separators, non-empty, disjoint from modifier names
    seps = [s for s in (key_split, chord_split) if s]
    if ptab and dtab and seps:
        bad = sorted({p for p, k in printable if p == "" or any(s in p for s in seps)})
        ctx.instance("SEPARATORS", {"what": "key names free of separators", "names_checked": len(printable), "offending": bad})
        for p in bad:
            ctx.violation("SEPARATORS", "KeyName::Debug", "name-contains-separator:" + "+".join("U+%04X" % ord(c) for c in p),
                          "printable key name %r is empty or contains a separator: Key/KeyChord::from_str would split it" % p, sites=[KEYS])
    if mod_print is not None and seps:
        bad = sorted({n for _, n, _ in mod_print if n == "" or any(s in n for s in seps)})
        ctx.instance("SEPARATORS", {"what": "modifier names free of separators", "names_checked": len(mod_print), "offending": bad})
        for n in bad:
            ctx.violation("SEPARATORS", "KeyMod::Debug", "modifier-contains-separator:" + n.replace(" ", "_"), "modifier name %r is empty or contains a separator" % n, sites=[KEYS])
    if mod_parse is not None and ptab and dtab:
        # modifier arms are tried first in Key::from_str: a key whose printed name is a modifier name is read as a modifier
        clash = sorted({p for p, k in printable if lowered(p) in mod_parse})
        also = sorted({n for n in mod_parse if parse_keyname(ptab, n) is not None})
        ctx.instance("SEPARATORS", {"what": "key names vs modifier names", "printed_key_names_that_are_modifiers": clash, "modifier_names_that_parse_as_keys": also})
        for p in clash:
            ctx.violation("SEPARATORS", "Key::from_str", "key-name-is-modifier:" + p, "the printed key name %r is consumed by the modifier arm of Key::from_str" % p, sites=[KEYS])
    if mod_parse is not None and key_default is not None:
        # the fall-through arm parses a KeyName from the same (lower-cased) attribute
        ok = bool(find_all(key_default["body"], lambda n: n.get("k") == "mcall" and n["m"] == "parse" and "KeyName" in (n.get("turbofish") or "")) or
                  find_all(key_default["body"], lambda n: is_path(n) and n["p"] in ("KeyName::from_str",)))
        ctx.instance("SEPARATORS", {"what": "Key::from_str fall-through arm parses KeyName", "ok": ok})
        if not ok:
            ctx.violation("SEPARATORS", "Key::from_str", "name-arm", "the non-modifier arm of Key::from_str does not parse a KeyName", sites=["%s:%d" % (KEYS, key_default["line"])])
        # every |= targets one accumulator which ends in the returned Key
        accs = {v[2] for v in mod_parse.values()}
        ctx.instance("SEPARATORS", {"what": "modifier accumulator", "vars": sorted(accs)})
        if len(accs) != 1 or not find_all(key_from, lambda n: n.get("k") == "call" and is_path(n["f"]) and n["f"]["p"] in ("Key::new", "Self::new")
                                         and any(is_path(a, list(accs)[0]) for a in n["args"])):
            ctx.violation("SEPARATORS", "Key::from_str", "accumulator", "modifier arms do not accumulate into the KeyMod handed to Key::new", sites=[KEYS])

    # =========================== serde chain =====================================================
    def delegates(fnitem, what, spec_ok=("?",)):
        """Display impl that is `write!(f, "{:?}", self)`"""
        if fnitem is None:
            ctx.anchor("SERDE-CHAIN", what)
            return
        ts = templates_in(fnitem["body"])
        ok = len(ts) == 1 and len(ts[0][1]) == 1 and ts[0][1][0][0] == "hole" and is_path(unref(ts[0][1][0][1]), "self") and ts[0][1][0][2] in spec_ok
        ctx.instance("SERDE-CHAIN", {"link": what, "delegates": ok})
        if not ok:
            ctx.violation("SERDE-CHAIN", what, "delegation", "%s is not `write!(f, \"{:?}\", self)`: Display and the Debug table checked above may differ" % what, sites=["%s:%d" % (KEYS, fnitem["line"])])

    delegates(kn_disp, "KeyName::Display")
    delegates(mod_disp, "KeyMod::Display")
    delegates(key_disp, "Key::Display")
    ser = prog.one(r"^<keys::KeyChord as .*::Serialize>::serialize$")
    de = prog.one(r"^<keys::KeyChord as .*::Deserialize<'de>>::deserialize$")
    if ser is None or de is None:
        ctx.anchor("SERDE-CHAIN", "KeyChord-serde-impls")
    else:
        from ..flow import arg_place
        cs = [(bb, t) for bb, t in ser.calls() if call_matches(t, r"Serializer::collect_str$")]
        others = [callee_name(t) for bb, t in ser.calls() if not call_matches(t, r"Serializer::collect_str$")]
        from ..flow import expr as mir_expr
        ser_calls = [t for bb, t in ser.calls() if re.search(r"Serializer::serialize_\w+$", callee_name(t) or "")]
        ok = len(cs) == 1 and arg_place(ser, cs[0][1], 1) == "(*_1)" and not ser_calls
        if not cs and len(ser_calls) == 1 and call_matches(ser_calls[0], r"Serializer::serialize_str$"):
            # collect_str(self) is by definition serialize_str(&self.to_string()); format!("{}", self) is the same text
            txt = mir_expr(ser, ser_calls[0]["args"][1])
            ok = txt == "ToString::to_string(arg1)" and (ser_calls[0]["fn"].get("path") is not None)
        ctx.instance("SERDE-CHAIN", {"link": "KeyChord::serialize -> collect_str(self)", "ok": ok})
        if not ok:
            ctx.violation("SERDE-CHAIN", "KeyChord::serialize", "collect_str", "KeyChord::serialize does not serialise exactly Display(self)", sites=[ser.loc])
        fs = [t for bb, t in de.calls() if call_matches(t, r"^<keys::KeyChord as std::str::FromStr>::from_str$")
              or (call_matches(t, r"str>::parse$") and t["fn"].get("resolved_generics") == ["keys::KeyChord"])]
        strs = [t for bb, t in de.calls() if call_matches(t, r"Deserialize<'de> for (std::borrow::Cow<'a, T>|std::string::String|&'a str)>::deserialize$")]
        ok = len(fs) == 1 and len(strs) == 1
        ctx.instance("SERDE-CHAIN", {"link": "KeyChord::deserialize -> str -> KeyChord::from_str", "ok": ok})
        if not ok:
            ctx.violation("SERDE-CHAIN", "KeyChord::deserialize", "from_str", "KeyChord::deserialize does not parse a string with KeyChord::from_str", sites=[de.loc])
    # Display(KeyChord) prints every key of self, in order, through Key's Display/Debug (template checked in SEPARATORS)
    if ch_disp is not None:
        # every iterator step between self's keys and the written element keeps all elements in order (no rev/skip/filter/take/step_by)
        ok = chord_sep is not None and chord_model is not None and set(chord_model["steps"]) <= KEY_ITER_STEPS
        ctx.instance("SERDE-CHAIN", {"link": "KeyChord::Display iterates all keys of self in order", "ok": ok})
        if not ok:
            ctx.violation("SERDE-CHAIN", "KeyChord::Display", "iteration", "KeyChord Display does not print self.keys() in order (skip/rev/filter in the iterator chain?)", sites=["%s:%d" % (KEYS, ch_disp["line"])])
    kdb = fn("fmt", "KeyChord", r"(fmt::)?Debug")
    if kdb is not None:
        delegates(kdb, "KeyChord::Debug", spec_ok=("",))

    # =========================== panic sites =====================================================
    scope = [("KeyName::from_str", kn_from, r"^<keys::KeyName as std::str::FromStr>::from_str"),
             ("Key::from_str", key_from, r"^<keys::Key as std::str::FromStr>::from_str"),
             ("KeyChord::from_str", ch_from, r"^<keys::KeyChord as std::str::FromStr>::from_str"),
             ("KeyChord::deserialize", fn("deserialize", "KeyChord", r"Deserialize<'de>"), r"^<keys::KeyChord as .*::Deserialize<'de>>::deserialize")]
    # any further Deserialize/FromStr impl for the key types joins the scope automatically
    for (f, s, tr, it, t) in src.fns:
        if f == KEYS and not t and s in ("Key", "KeyName", "KeyChord", "KeyMod") and tr and re.search(r"Deserialize|FromStr", tr) \
                and not any(it is x[1] for x in scope):
            scope.append(("%s::%s" % (s, it["name"]), it, r"^<keys::%s as .*(Deserialize<'de>|FromStr)>::%s" % (s, it["name"])))
    # helpers of keys.rs called from the scope (one level is enough on this tree: Key::new / KeyChord::new)
    helper_names = set()
    for nm, it, rx in scope:
        if it is None:
            ctx.anchor("PANIC-SITE", nm)
            continue
        for n in find_all(it, lambda n: is_path(n) and re.fullmatch(r"(Key|KeyName|KeyChord|KeyMod|Self)::[a-z_]+", n["p"])):
            helper_names.add(n["p"].replace("Self::", nm.split("::")[0] + "::"))
    # private free functions of keys.rs called from the scope (a table or a loop extracted into `fn helper(..)`), transitively
    work = [it for _, it, _ in scope if it is not None]
    while work:
        cur = work.pop()
        for n in find_all(cur, lambda n: n.get("k") == "call" and is_path(n["f"]) and "::" not in n["f"]["p"]):
            for (f, s_, tr, it, t) in src.fns:
                if f == KEYS and not t and s_ is None and tr is None and it["name"] == n["f"]["p"] and not any(it is x[1] for x in scope):
                    scope.append((it["name"], it, r"^keys::%s$" % re.escape(it["name"])))
                    work.append(it)
    for hp in sorted(helper_names):
        ty, name = hp.split("::")
        for (f, s, tr, it, t) in src.fns:
            if f == KEYS and not t and it["name"] == name and s == ty and tr is None and not any(it is x[1] for x in scope):
                scope.append(("%s::%s" % (s, name), it, r"^keys::%s::%s$" % (s, name)))
    n_sites = 0
    for nm, it, rx in scope:
        if it is None:
            continue
        sites = scan_sites(it)
        lines = set()
        for st in sites:
            n_sites += 1
            lines.add(st["line"])
            j = judge_site(st, it)
            sh = shape(st["node"])
            ctx.instance("PANIC-SITE", {"fn": nm, "site": sh, "line": st["line"], "idiom": j[0] if j else None, "why": j[1] if j else None})
            ctx.oblig(discharged=bool(j), cls=(j[0].split(":")[0] if j else "UNGUARDED"))
            if not j:
                extra = ""
                if st["kind"] in ("unwrap", "expect") and "parse" in chain(st["node"]["recv"])[1]:
                    extra = " (parse of an integer fails on overflow even when every character is a digit)"
                ctx.violation("PANIC-SITE", nm, sh, "%s at %s is not dominated by an accepted guard idiom%s; conditions known here: %s"
                              % (st["kind"], expr_text(st["node"]), extra, [expr_text(f) for f in st["facts"]] or "none"),
                              sites=["%s:%d" % (KEYS, st["line"])])
        # completeness: every panic-capable call / bounds assert of the MIR bodies (incl. closures) lies on a line with a scanned site
        for b in prog.find(rx):
            for bb, t in b.calls():
                if call_matches(t, MIR_PANIC_CALL) and not b.blocks[bb].get("cleanup"):
                    if t["line"] not in lines:
                        ctx.violation("PANIC-SITE", "ANCHOR", "mir-site-unmatched:%s:%s" % (nm, (callee_name(t) or "?").split("::")[-1]),
                                      "MIR of %s calls %s at line %d but the source scan found no site there (macro-generated or unknown construct)" % (b.path, callee_name(t), t["line"]),
                                      sites=["%s:%d" % (KEYS, t["line"])])
            for i, t in b.terms():
                if t["k"] == "assert" and not b.blocks[i].get("cleanup"):
                    kind = t["msg"]["kind"]
                    if kind == "BoundsCheck" and t["line"] not in lines:
                        ctx.violation("PANIC-SITE", "ANCHOR", "mir-bounds-unmatched:%s" % nm, "MIR bounds check at line %d has no scanned index site" % t["line"], sites=["%s:%d" % (KEYS, t["line"])])
                    elif kind != "BoundsCheck":
                        ctx.note("%s: MIR assert %s at line %d is a numeric obligation left to the abstract-interpreter hook" % (nm, kind, t["line"]))
    ctx.extra["panic_scope"] = [s[0] for s in scope if s[1] is not None]
    obligations(ctx)
    from . import c18_trie
    c18_trie.run_trie(ctx)
